//! Shard context: counts what the monitors observed and prints the shard protocol.
//!
//! Protocol (stdout, one JSON object per line, prefixed with `@@`):
//!   {"t":"viol","prop":..,"monitor":..,"sig":..,"witness":..}
//!   {"t":"summary","prop":..,"monitor":..,"evals":..,"distinct":[hashes..],"samples":[..],"counters":{..},"violations":n}

use std::collections::{BTreeMap, BTreeSet};
use std::hash::{Hash, Hasher};

#[derive(Clone, Copy, PartialEq, Eq, Debug)]
pub enum Tier {
    Quick,
    Thorough,
}

pub struct Ctx {
    pub property: String,
    pub monitor: String,
    pub tier: Tier,
    pub seed: u64,
    pub shard: usize,
    pub nshards: usize,
    /// free-form parameter (e.g. for replay or digest output file)
    pub param: Option<String>,
    evals: u64,
    distinct: BTreeSet<u64>,
    samples: Vec<String>,
    counters: BTreeMap<String, u64>,
    violations: u64,
    per_sig: BTreeMap<String, u32>,
    /// scratch contexts (used while minimising a witness) record but do not print
    pub quiet: bool,
}

pub fn json_str(s: &str) -> String {
    let mut o = String::with_capacity(s.len() + 2);
    o.push('"');
    for c in s.chars() {
        match c {
            '"' => o.push_str("\\\""),
            '\\' => o.push_str("\\\\"),
            '\n' => o.push_str("\\n"),
            '\r' => o.push_str("\\r"),
            '\t' => o.push_str("\\t"),
            c if (c as u32) < 0x20 => o.push_str(&format!("\\u{:04x}", c as u32)),
            c => o.push(c),
        }
    }
    o.push('"');
    o
}

impl Ctx {
    pub fn new(property: &str, monitor: &str, tier: Tier, seed: u64, shard: usize, nshards: usize) -> Self {
        Ctx {
            property: property.into(),
            monitor: monitor.into(),
            tier,
            seed,
            shard,
            nshards,
            param: None,
            evals: 0,
            distinct: BTreeSet::new(),
            samples: Vec::new(),
            counters: BTreeMap::new(),
            violations: 0,
            per_sig: BTreeMap::new(),
            quiet: false,
        }
    }

    pub fn quick(&self) -> bool {
        self.tier == Tier::Quick
    }

    /// pick by tier
    pub fn by_tier<T>(&self, quick: T, thorough: T) -> T {
        if self.quick() { quick } else { thorough }
    }

    /// Is item `i` of an enumeration this shard's responsibility?
    pub fn mine(&self, i: usize) -> bool {
        i % self.nshards == self.shard
    }

    /// A PRNG derived from (seed, shard, tag)
    pub fn rng(&self, tag: u64) -> crate::rng::Rng {
        crate::rng::Rng::new(crate::rng::mix(
            crate::rng::mix(self.seed, self.shard as u64 + 1),
            tag,
        ))
    }

    /// One oracle comparison was executed
    #[inline]
    pub fn eval(&mut self) {
        self.evals += 1;
    }
    #[inline]
    pub fn evals(&mut self, n: u64) {
        self.evals += n;
    }
    pub fn num_evals(&self) -> u64 {
        self.evals
    }

    /// Record a distinct non-trivial case (by key)
    #[inline]
    pub fn distinct<K: Hash>(&mut self, key: K) {
        // cap memory: 2M distinct hashes per shard are enough for evidence
        if self.distinct.len() < 2_000_000 {
            let mut h = std::collections::hash_map::DefaultHasher::new();
            key.hash(&mut h);
            self.distinct.insert(h.finish());
        }
    }

    /// Keep up to 6 literal samples
    pub fn sample(&mut self, f: impl FnOnce() -> String) {
        if self.samples.len() < 6 {
            self.samples.push(f());
        }
    }

    pub fn count(&mut self, name: &str, n: u64) {
        *self.counters.entry(name.to_string()).or_insert(0) += n;
    }
    pub fn count_max(&mut self, name: &str, n: u64) {
        let e = self.counters.entry(name.to_string()).or_insert(0);
        if n > *e {
            *e = n;
        }
    }
    pub fn counter(&self, name: &str) -> u64 {
        self.counters.get(name).copied().unwrap_or(0)
    }

    pub fn num_violations(&self) -> u64 {
        self.violations
    }

    /// Report a violation. `sig` identifies the clause + minimal witness class (used for
    /// known-finding matching); `witness` is the literal failing case.
    pub fn violation(&mut self, sig: &str, witness: String) {
        self.violations += 1;
        let n = self.per_sig.entry(sig.to_string()).or_insert(0);
        *n += 1;
        if *n <= 3 && !self.quiet {
            println!(
                "@@{{\"t\":\"viol\",\"prop\":{},\"monitor\":{},\"sig\":{},\"witness\":{}}}",
                json_str(&self.property),
                json_str(&self.monitor),
                json_str(sig),
                json_str(&witness)
            );
        }
    }

    /// check helper: returns cond
    #[inline]
    pub fn check(&mut self, cond: bool, sig: &str, witness: impl FnOnce() -> String) -> bool {
        self.evals += 1;
        if !cond {
            self.violation(sig, witness());
        }
        cond
    }

    /// a silent context for re-executions (witness minimisation)
    pub fn scratch(&self) -> Ctx {
        let mut c = Ctx::new(&self.property, &self.monitor, self.tier, self.seed, self.shard, self.nshards);
        c.quiet = true;
        c
    }
    /// merge the counts of another context (e.g. of a worker thread) into this one
    pub fn absorb(&mut self, o: Ctx) {
        self.evals += o.evals;
        self.violations += o.violations;
        for h in o.distinct {
            self.distinct.insert(h);
        }
        for (k, v) in o.counters {
            *self.counters.entry(k).or_insert(0) += v;
        }
        for (k, v) in o.per_sig {
            *self.per_sig.entry(k).or_insert(0) += v;
        }
        for s in o.samples {
            if self.samples.len() < 6 {
                self.samples.push(s);
            }
        }
    }
    /// a context for a worker thread: prints violations itself, counts are absorbed later
    pub fn child(&self) -> Ctx {
        Ctx::new(&self.property, &self.monitor, self.tier, self.seed, self.shard, self.nshards)
    }
    pub fn has_sig(&self, sig: &str) -> bool {
        self.per_sig.contains_key(sig)
    }
    pub fn sigs(&self) -> Vec<String> {
        self.per_sig.keys().cloned().collect()
    }

    pub fn finish(&self) {
        let mut s = String::new();
        s.push_str("@@{\"t\":\"summary\",\"prop\":");
        s.push_str(&json_str(&self.property));
        s.push_str(",\"monitor\":");
        s.push_str(&json_str(&self.monitor));
        s.push_str(&format!(",\"shard\":{},\"evals\":{}", self.shard, self.evals));
        s.push_str(&format!(",\"distinct_n\":{}", self.distinct.len()));
        s.push_str(",\"samples\":[");
        for (i, x) in self.samples.iter().enumerate() {
            if i > 0 {
                s.push(',');
            }
            s.push_str(&json_str(x));
        }
        s.push_str("],\"counters\":{");
        for (i, (k, v)) in self.counters.iter().enumerate() {
            if i > 0 {
                s.push(',');
            }
            s.push_str(&format!("{}:{}", json_str(k), v));
        }
        s.push_str(&format!("}},\"violations\":{}", self.violations));
        s.push_str(",\"sigs\":{");
        for (i, (k, v)) in self.per_sig.iter().enumerate() {
            if i > 0 {
                s.push(',');
            }
            s.push_str(&format!("{}:{}", json_str(k), v));
        }
        s.push_str("}}");
        println!("{s}");
    }
}

/// Run `f`, converting a panic into Err(message). The default panic hook is silenced for
/// the duration so that expected panics do not spam stderr.
pub fn catch<T>(f: impl FnOnce() -> T) -> Result<T, String> {
    let r = std::panic::catch_unwind(std::panic::AssertUnwindSafe(f));
    match r {
        Ok(v) => Ok(v),
        Err(e) => {
            let msg = if let Some(s) = e.downcast_ref::<&str>() {
                s.to_string()
            } else if let Some(s) = e.downcast_ref::<String>() {
                s.clone()
            } else {
                "<non-string panic>".to_string()
            };
            Err(msg)
        }
    }
}

thread_local! {
    pub static LAST_PANIC_LOC: std::cell::RefCell<String> = const { std::cell::RefCell::new(String::new()) };
}

/// Install a panic hook that records location (for witnesses) and prints a short line.
pub fn install_panic_hook() {
    std::panic::set_hook(Box::new(|info| {
        let loc = info
            .location()
            .map(|l| format!("{}:{}", l.file(), l.line()))
            .unwrap_or_default();
        LAST_PANIC_LOC.with(|c| *c.borrow_mut() = loc.clone());
        let msg = if let Some(s) = info.payload().downcast_ref::<&str>() {
            s.to_string()
        } else if let Some(s) = info.payload().downcast_ref::<String>() {
            s.clone()
        } else {
            String::new()
        };
        eprintln!("[panic] {loc}: {msg}");
        if std::env::var_os("VH_BT").is_some() {
            eprintln!("{}", std::backtrace::Backtrace::force_capture());
        }
    }));
}

pub fn last_panic_loc() -> String {
    LAST_PANIC_LOC.with(|c| c.borrow().clone())
}
