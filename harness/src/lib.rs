//! Runtime-verification harness for OxiDD (see /verif/DESIGN.md).
#![allow(clippy::type_complexity, clippy::too_many_arguments)]

pub mod audit;
pub mod canon;
pub mod ctx;
pub mod hist;
pub mod known;
pub mod kinds;
pub mod rng;
pub mod sched;
pub mod tt;
pub mod mon;

pub use ctx::{Ctx, Tier};
