//! Generated operation histories over one manager with a model-checked registry of handles.
//!
//! `World` owns every handle it ever receives, next to the truth table the handle must
//! denote. After every step the new handle is compared with the model (independent
//! interpreter), with all live handles (canonicity: == iff same table; Hash/Ord consistent),
//! and at audit points the structural + reference-count audits run.

use std::collections::HashMap;
use std::hash::{Hash, Hasher};

use oxidd::util::AllocResult;
use oxidd::{BooleanFunction, Edge, Function, HasLevel, HasWorkers, Manager, ManagerRef, NodeID, Subst};
use oxidd_core::function::INodeOfFunc;

use crate::audit;
use crate::canon;
use crate::kinds::*;
use crate::rng::Rng;
use crate::tt::{ALL_BOPS, ALL_QUANTS, BOp, Quant, Tt};
use crate::Ctx;

#[derive(Clone, Debug, PartialEq)]
pub enum Op {
    Const(bool),
    Var(u32),
    NotVar(u32),
    FromTable(u64),
    Not(usize),
    NotOwned(usize),
    NotEdgeOwned(usize),
    EdgeRoundTrip(usize),
    Bin(BOp, usize, usize),
    Ite(usize, usize, usize),
    Quant(Quant, usize, u32),
    ApplyQuant(Quant, BOp, usize, usize, u32),
    Restrict(usize, u32, u32),
    Subst(usize, Vec<(u32, usize)>),
    Cof(usize, bool),
    PickCubeDd(usize, u32),
    /// DDDMP (ascii / binary) or DOT export of up to three handles into memory
    Export(usize, usize, u32),
    /// ZBDD only: kind 0 subset0, 1 subset1, 2 change, 3 union, 4 intsec, 5 diff
    ZSet(u32, usize, usize, u32),
    Clone(usize),
    Drop(usize),
    DropOnThread(usize),
    DropMany(u32),
    Gc,
    AddVars(u32),
    AddNamedVars(u32),
    /// add_named_vars with `k` fresh names followed by a duplicate: the call is rejected, but the
    /// `k` variables before the duplicate have been added (documented: `added_vars`)
    AddNamedVarsRejected(u32),
    /// add_named_vars whose name iterator panics after `k` fresh names; the panic is caught and
    /// the manager used further (the names consumed so far have been added, like on rejection)
    AddNamedVarsPanicking(u32),
    /// `LevelView::gc()` on every level outside a prepared collection ("may be a no-op"): must
    /// not change anything an observer can see
    LevelGc,
    SetOrder(Vec<u32>, bool),
}

impl Op {
    pub fn name(&self) -> &'static str {
        match self {
            Op::Const(_) => "const",
            Op::Var(_) => "var",
            Op::NotVar(_) => "not_var",
            Op::FromTable(_) => "from_table",
            Op::Not(_) => "not",
            Op::NotOwned(_) => "not_owned",
            Op::NotEdgeOwned(_) => "not_edge_owned",
            Op::EdgeRoundTrip(_) => "into_edge/from_edge",
            Op::Bin(op, ..) => op.name(),
            Op::Ite(..) => "ite",
            Op::Quant(Quant::Exists, ..) => "exists",
            Op::Quant(Quant::Forall, ..) => "forall",
            Op::Quant(Quant::Unique, ..) => "unique",
            Op::ApplyQuant(Quant::Exists, ..) => "apply_exists",
            Op::ApplyQuant(Quant::Forall, ..) => "apply_forall",
            Op::ApplyQuant(Quant::Unique, ..) => "apply_unique",
            Op::Restrict(..) => "restrict",
            Op::Subst(..) => "substitute",
            Op::Cof(_, true) => "cofactor_true",
            Op::Cof(_, false) => "cofactor_false",
            Op::PickCubeDd(..) => "pick_cube_dd",
            Op::Export(..) => "export",
            Op::ZSet(0, ..) => "subset0",
            Op::ZSet(1, ..) => "subset1",
            Op::ZSet(2, ..) => "change",
            Op::ZSet(3, ..) => "union",
            Op::ZSet(4, ..) => "intsec",
            Op::ZSet(..) => "diff",
            Op::Clone(_) => "clone",
            Op::Drop(_) => "drop",
            Op::DropOnThread(_) => "drop_on_thread",
            Op::DropMany(_) => "drop_many",
            Op::Gc => "gc",
            Op::AddVars(_) => "add_vars",
            Op::AddNamedVars(_) => "add_named_vars",
            Op::AddNamedVarsRejected(_) => "add_named_vars_rejected",
            Op::AddNamedVarsPanicking(_) => "add_named_vars_panicking_iterator",
            Op::LevelGc => "level_gc",
            Op::SetOrder(_, false) => "set_var_order",
            Op::SetOrder(_, true) => "set_var_order_seq",
        }
    }
}

#[derive(Clone, Debug)]
pub struct Profile {
    pub reorder: bool,
    pub add_vars: bool,
    pub max_vars: u32,
    pub max_live: usize,
    pub gc_weight: u32,
    pub drop_weight: u32,
    pub thread_drop: bool,
    pub pick_cube: bool,
    pub from_table: bool,
    pub export: bool,
    /// generate ZBDD set operations (only meaningful for the ZBDD kind; ignored otherwise)
    pub zset: bool,
}

impl Default for Profile {
    fn default() -> Self {
        Profile {
            reorder: true,
            add_vars: true,
            max_vars: 7,
            max_live: 24,
            gc_weight: 4,
            drop_weight: 14,
            thread_drop: true,
            pick_cube: false,
            from_table: true,
            export: true,
            zset: true,
        }
    }
}

pub fn gen_op(rng: &mut Rng, n: u32, live: usize, has_quant: bool, p: &Profile) -> Op {
    if live == 0 {
        return match rng.below(3) {
            0 => Op::Const(rng.bool()),
            1 => Op::Var(rng.below(n.max(1) as u64) as u32),
            _ => Op::NotVar(rng.below(n.max(1) as u64) as u32),
        };
    }
    let h = |rng: &mut Rng| rng.usize(live.max(1));
    let mask = |rng: &mut Rng| (rng.next() as u32) & ((1u32 << n) - 1);
    loop {
        let w = rng.below(100 + p.gc_weight as u64 + p.drop_weight as u64);
        let op = match w {
            0..=1 => Op::Const(rng.bool()),
            2..=7 => Op::Var(rng.below(n as u64) as u32),
            8..=10 => Op::NotVar(rng.below(n as u64) as u32),
            11..=15 if p.from_table && n <= 6 => Op::FromTable(rng.next()),
            16..=19 => Op::Not(h(rng)),
            20 => Op::NotOwned(h(rng)),
            21 => match rng.below(3) { 0 => Op::NotOwned(h(rng)), 1 => Op::NotEdgeOwned(h(rng)), _ => Op::EdgeRoundTrip(h(rng)) },
            22..=49 => Op::Bin(*rng.pick(&ALL_BOPS), h(rng), h(rng)),
            50..=57 => Op::Ite(h(rng), h(rng), h(rng)),
            58..=63 if has_quant => Op::Quant(*rng.pick(&ALL_QUANTS), h(rng), mask(rng)),
            64..=69 if has_quant => Op::ApplyQuant(*rng.pick(&ALL_QUANTS), *rng.pick(&ALL_BOPS), h(rng), h(rng), mask(rng)),
            70..=74 => {
                let care = mask(rng);
                Op::Restrict(h(rng), care, mask(rng) & care)
            }
            75..=80 if has_quant => {
                let k = rng.range(1, n.min(3) as usize);
                let mut vars = rng.perm(n as usize);
                vars.truncate(k);
                Op::Subst(h(rng), vars.into_iter().map(|v| (v, h(rng))).collect())
            }
            81..=84 => Op::Cof(h(rng), rng.bool()),
            85 if p.export => Op::Export(h(rng), h(rng), rng.next() as u32),
            86..=87 if p.pick_cube => Op::PickCubeDd(h(rng), rng.next() as u32),
            86..=87 if p.zset && !has_quant => Op::ZSet(rng.below(6) as u32, h(rng), h(rng), rng.below(n as u64) as u32),
            88..=92 => Op::Clone(h(rng)),
            93..=94 if p.add_vars && n < p.max_vars => {
                match rng.below(6) {
                    0 | 1 => Op::AddVars(rng.range(1, 2) as u32),
                    2 | 3 => Op::AddNamedVars(rng.range(1, 2) as u32),
                    4 => Op::AddNamedVarsRejected(rng.range(1, 2) as u32),
                    _ => Op::AddNamedVarsPanicking(rng.range(1, 2) as u32),
                }
            }
            95..=99 if p.reorder && n >= 2 => {
                let mut o = rng.perm(n as usize);
                if rng.chance(1, 2) {
                    let k = rng.range(2, n as usize);
                    o.truncate(k);
                }
                Op::SetOrder(o, rng.chance(1, 3))
            }
            x if x >= 100 && x < 100 + p.gc_weight as u64 => {
                if rng.chance(1, 6) {
                    Op::LevelGc
                } else {
                    Op::Gc
                }
            }
            x if x >= 100 + p.gc_weight as u64 => {
                if live > p.max_live || rng.chance(1, 8) {
                    Op::DropMany(rng.next() as u32)
                } else if p.thread_drop && rng.chance(1, 4) {
                    Op::DropOnThread(h(rng))
                } else {
                    Op::Drop(h(rng))
                }
            }
            _ => continue,
        };
        return op;
    }
}

pub struct Entry<K: BoolKind> {
    pub f: K::F,
    pub t: Tt,
}

pub struct World<K: BoolKind> {
    pub mref: MRefOf<K>,
    pub n: u32,
    pub hs: Vec<Entry<K>>,
    pub trace: Vec<String>,
    pub label: String,
    pub ooms: u64,
    pub steps: u64,
    pub seq_only: bool,
    /// expected OutOfMemory is fine (C14 sweeps); otherwise OOM is reported
    pub oom_ok: bool,
    /// the manager's background collector may run (capacity >= 100)
    pub bg_gc: bool,
    pub name_counter: u32,
    pub explicit_gcs: u64,
    /// when Some: per produced handle (table hash, node_count, index of first equal live handle)
    pub digest: Option<Vec<(u64, usize, usize)>>,
}

pub fn hash_of<T: Hash>(t: &T) -> u64 {
    let mut h = std::collections::hash_map::DefaultHasher::new();
    t.hash(&mut h);
    h.finish()
}

impl<K: BoolKind> World<K>
where
    for<'id> MgrOf<'id, K>: HasWorkers,
    for<'x> INodeOfFunc<'x, K::F>: HasLevel,
{
    pub fn new(nodes: usize, cache: usize, threads: u32, nvars: u32, label: String) -> Self {
        let mref = setup::<K>(nodes, cache, threads, nvars);
        World { mref, n: nvars, hs: Vec::new(), trace: Vec::new(), label, ooms: 0, steps: 0, seq_only: false, oom_ok: false, bg_gc: nodes >= 100, name_counter: 0, explicit_gcs: 0, digest: None }
    }

    /// A world on an existing manager (several worlds may share one manager: concurrent scripts)
    pub fn attach(mref: MRefOf<K>, nvars: u32, nodes: usize, label: String) -> Self {
        World { mref, n: nvars, hs: Vec::new(), trace: Vec::new(), label, ooms: 0, steps: 0, seq_only: false, oom_ok: false, bg_gc: nodes >= 100, name_counter: 0, explicit_gcs: 0, digest: None }
    }

    pub fn sig(&self, clause: &str) -> String {
        format!("{}:{}", K::NAME, clause)
    }

    pub fn witness(&self, detail: &str) -> String {
        let k = self.trace.len().saturating_sub(14);
        format!(
            "{} | {detail} | order {:?} | last ops: {}",
            self.label,
            current_order(&self.mref),
            self.trace[k..].join("; ")
        )
    }

    /// handle index of an operand; `usize::MAX` names the newest handle
    fn idx(&self, i: usize) -> usize {
        if i == usize::MAX { self.hs.len() - 1 } else { i % self.hs.len() }
    }

    fn var_set(&self, mask: u32) -> (AllocResult<K::F>, Vec<u32>) {
        let vars: Vec<u32> = (0..self.n).filter(|v| (mask >> v) & 1 == 1).collect();
        let r = self.mref.with_manager_shared(|m| {
            let mut s = K::F::t(m);
            for &v in &vars {
                s = s.and(&K::F::var(m, v)?)?;
            }
            Ok(s)
        });
        (r, vars)
    }

    fn cube(&self, care: u32, vals: u32) -> (AllocResult<K::F>, Vec<(u32, bool)>) {
        let lits: Vec<(u32, bool)> =
            (0..self.n).filter(|v| (care >> v) & 1 == 1).map(|v| (v, (vals >> v) & 1 == 1)).collect();
        let r = self.mref.with_manager_shared(|m| {
            let mut s = K::F::t(m);
            for &(v, b) in &lits {
                let l = if b { K::F::var(m, v)? } else { K::F::not_var(m, v)? };
                s = s.and(&l)?;
            }
            Ok(s)
        });
        (r, lits)
    }

    /// Execute one op on OxiDD and on the model; check the result.
    pub fn step(&mut self, ctx: &mut Ctx, op: &Op) {
        self.steps += 1;
        self.trace.push(format!("{op:?}"));
        if std::env::var_os("VH_TRACE").is_some() {
            eprintln!("[trace] {} #{} {op:?}", self.label, self.steps);
        }
        let n = self.n;
        let needs_handle = !matches!(
            op,
            Op::Const(_) | Op::Var(_) | Op::NotVar(_) | Op::FromTable(_) | Op::Gc | Op::LevelGc | Op::AddVars(_) | Op::AddNamedVars(_) | Op::AddNamedVarsRejected(_) | Op::AddNamedVarsPanicking(_) | Op::SetOrder(..) | Op::DropMany(_)
        );
        if needs_handle && self.hs.is_empty() {
            return;
        }
        // (result, model table) for ops producing a handle
        let mut produced: Option<(AllocResult<K::F>, Tt)> = None;
        match op {
            Op::Const(b) => {
                let f = self.mref.with_manager_shared(|m| if *b { K::F::t(m) } else { K::F::f(m) });
                produced = Some((Ok(f), Tt::constant(n, *b)));
            }
            Op::Var(v) | Op::NotVar(v) => {
                if n == 0 {
                    return;
                }
                let v = v % n;
                let neg = matches!(op, Op::NotVar(_));
                let r = self.mref.with_manager_shared(|m| if neg { K::F::not_var(m, v) } else { K::F::var(m, v) });
                let t = if neg { Tt::var(n, v).not() } else { Tt::var(n, v) };
                produced = Some((r, t));
            }
            Op::FromTable(bits) => {
                if n > 6 {
                    return;
                }
                let t = Tt::from_u64(n, *bits);
                produced = Some((try_build_shannon::<K>(&self.mref, &t), t));
            }
            Op::Not(i) => {
                let e = &self.hs[self.idx(*i)];
                produced = Some((e.f.not(), e.t.not()));
            }
            Op::NotOwned(i) => {
                let e = &self.hs[self.idx(*i)];
                produced = Some((e.f.clone().not_owned(), e.t.not()));
            }
            Op::NotEdgeOwned(i) => {
                let e = &self.hs[self.idx(*i)];
                let r = e.f.with_manager_shared(|m, edge| {
                    let owned = m.clone_edge(edge);
                    K::F::not_edge_owned(m, owned).map(|r| K::F::from_edge(m, r))
                });
                produced = Some((r, e.t.not()));
            }
            Op::EdgeRoundTrip(i) => {
                let e = &self.hs[self.idx(*i)];
                let f2 = e.f.clone();
                let r = self.mref.with_manager_shared(|m| {
                    let edge = f2.into_edge(m);
                    K::F::from_edge(m, edge)
                });
                produced = Some((Ok(r), e.t.clone()));
            }
            Op::Bin(bop, i, j) => {
                let (a, b) = (&self.hs[self.idx(*i)], &self.hs[self.idx(*j)]);
                let r = match bop {
                    BOp::And => a.f.and(&b.f),
                    BOp::Or => a.f.or(&b.f),
                    BOp::Xor => a.f.xor(&b.f),
                    BOp::Equiv => a.f.equiv(&b.f),
                    BOp::Nand => a.f.nand(&b.f),
                    BOp::Nor => a.f.nor(&b.f),
                    BOp::Imp => a.f.imp(&b.f),
                    BOp::ImpStrict => a.f.imp_strict(&b.f),
                };
                produced = Some((r, a.t.bop(*bop, &b.t)));
            }
            Op::Ite(i, j, k) => {
                let (a, b, c) = (&self.hs[self.idx(*i)], &self.hs[self.idx(*j)], &self.hs[self.idx(*k)]);
                produced = Some((a.f.ite(&b.f, &c.f), a.t.ite(&b.t, &c.t)));
            }
            Op::Quant(q, i, mask) => {
                if !K::HAS_QUANT {
                    return;
                }
                let (vs, vars) = self.var_set(*mask);
                let Ok(vs) = vs else {
                    self.ooms += 1;
                    return;
                };
                let a = &self.hs[self.idx(*i)];
                produced = Some((K::quant(*q, &a.f, &vs), a.t.quant(*q, &vars)));
            }
            Op::ApplyQuant(q, bop, i, j, mask) => {
                if !K::HAS_QUANT {
                    return;
                }
                let (vs, vars) = self.var_set(*mask);
                let Ok(vs) = vs else {
                    self.ooms += 1;
                    return;
                };
                let (a, b) = (&self.hs[self.idx(*i)], &self.hs[self.idx(*j)]);
                produced = Some((K::apply_quant(*q, *bop, &a.f, &b.f, &vs), a.t.bop(*bop, &b.t).quant(*q, &vars)));
            }
            Op::Restrict(i, care, vals) => {
                let (c, lits) = self.cube(*care, *vals);
                let Ok(c) = c else {
                    self.ooms += 1;
                    return;
                };
                let a = &self.hs[self.idx(*i)];
                let model = match K::SEM {
                    Sem::ZeroSup => {
                        // documented as "conjunction with vars, then existential quantification";
                        // for the Boolean view over all manager variables this is the cofactor as well
                        a.t.restrict(&lits)
                    }
                    _ => a.t.restrict(&lits),
                };
                produced = Some((a.f.restrict(&c), model));
            }
            Op::Subst(i, pairs) => {
                if !K::HAS_QUANT {
                    return;
                }
                let mut vars = Vec::new();
                let mut reps = Vec::new();
                let mut model: Vec<Option<Tt>> = vec![None; n as usize];
                for (v, h) in pairs {
                    let v = v % n;
                    if vars.contains(&v) {
                        continue;
                    }
                    let e = &self.hs[self.idx(*h)];
                    vars.push(v);
                    reps.push(e.f.clone());
                    model[v as usize] = Some(e.t.clone());
                }
                let s = Subst::new(vars, reps);
                let a = &self.hs[self.idx(*i)];
                produced = Some((K::substitute(&a.f, &s), a.t.compose(&model)));
            }
            Op::Cof(i, which) => {
                let a = &self.hs[self.idx(*i)];
                let order = current_order(&self.mref);
                let mc = crate::mon::c02::model_cofactors(K::SEM, &a.t, &order);
                let r = if *which { a.f.cofactor_true() } else { a.f.cofactor_false() };
                ctx.eval();
                match (mc, r) {
                    (None, None) => {}
                    (Some((_, t1, t0)), Some(f)) => produced = Some((Ok(f), if *which { t1 } else { t0 })),
                    (mc, r) => {
                        let w = self.witness(&format!("f={} model terminal={} got none={}", a.t, mc.is_none(), r.is_none()));
                        ctx.violation(&self.sig("cofactor:none-iff-terminal"), w);
                    }
                }
            }
            Op::PickCubeDd(i, bits) => {
                let a = &self.hs[self.idx(*i)];
                let bits = *bits;
                let r = a.f.pick_cube_dd(|_, _, l| (bits >> (l % 32)) & 1 == 1);
                ctx.eval();
                match r {
                    Ok(c) => {
                        let ct = interp_tt::<K>(&c);
                        let ok = if a.t.is_zero() { ct.is_zero() } else { !ct.is_zero() && ct.implies(&a.t) };
                        if !ok {
                            let w = self.witness(&format!("f={} cube={}", a.t, ct));
                            ctx.violation(&self.sig("pick_cube_dd:not-an-implicant"), w);
                        }
                        let t = ct.clone();
                        produced = Some((Ok(c), t));
                    }
                    Err(_) => {
                        self.ooms += 1;
                    }
                }
            }
            Op::Export(i, j, how) => {
                let (a, b) = (&self.hs[self.idx(*i)], &self.hs[self.idx(*j)]);
                ctx.eval();
                if K::export(&self.mref, &[&a.f, &b.f, &a.f], *how).is_none() {
                    let w = self.witness("export reported an error");
                    ctx.violation(&self.sig("export:error"), w);
                }
            }
            Op::ZSet(kind, i, j, var) => {
                if K::SEM != Sem::ZeroSup {
                    return;
                }
                let (a, b) = (&self.hs[self.idx(*i)], &self.hs[self.idx(*j)]);
                let v = var % n;
                let bit = 1usize << v;
                let model = match kind {
                    0 => Tt::from_fn(n, |x| x & bit == 0 && a.t.get(x)),
                    1 => Tt::from_fn(n, |x| x & bit == 0 && a.t.get(x | bit)),
                    2 => Tt::from_fn(n, |x| a.t.get(x ^ bit)),
                    3 => a.t.or(&b.t),
                    4 => a.t.and(&b.t),
                    _ => a.t.diff(&b.t),
                };
                produced = Some((K::zset(*kind, &a.f, &b.f, v), model));
            }
            Op::Clone(i) => {
                let a = &self.hs[self.idx(*i)];
                produced = Some((Ok(a.f.clone()), a.t.clone()));
            }
            Op::Drop(i) => {
                let k = self.idx(*i);
                self.hs.swap_remove(k);
            }
            Op::DropOnThread(i) => {
                let k = self.idx(*i);
                let e = self.hs.swap_remove(k);
                let f = e.f;
                std::thread::spawn(move || drop(f)).join().unwrap();
            }
            Op::DropMany(seed) => {
                let mut r = Rng::new(*seed as u64);
                let keep = r.range(0, 4.min(self.hs.len()));
                while self.hs.len() > keep {
                    let k = r.usize(self.hs.len());
                    self.hs.swap_remove(k);
                }
            }
            Op::Gc => self.gc(ctx),
            Op::LevelGc => {
                use oxidd_core::LevelView;
                self.mref.with_manager_shared(|m| {
                    for mut level in m.levels() {
                        level.gc();
                    }
                });
                self.check_all_tables(ctx, "level_gc");
            }
            Op::AddVars(k) | Op::AddNamedVars(k) | Op::AddNamedVarsRejected(k) | Op::AddNamedVarsPanicking(k) => {
                let k = *k;
                let r = if matches!(op, Op::AddVars(_)) {
                    self.mref.with_manager_exclusive(|m| m.add_vars(k))
                } else if matches!(op, Op::AddNamedVarsPanicking(_)) {
                    let names: Vec<String> = (0..k).map(|i| format!("p{}_{}", self.name_counter, i)).collect();
                    self.name_counter += 1;
                    let it = names.clone().into_iter().chain(std::iter::once_with(|| -> String { panic!("name iterator gives up (deliberate, part of the workload)") }));
                    let r = crate::ctx::catch(|| self.mref.with_manager_exclusive(|m| m.add_named_vars(it)));
                    ctx.check(r.is_err(), &format!("{}:add_named_vars:panicking-iterator-not-propagated", K::NAME), || format!("{names:?}: {r:?}"));
                    self.mref.with_manager_shared(|m| {
                        ctx.check(m.num_vars() == n + k && m.num_levels() == n + k, &format!("{}:add_named_vars:after-panic:counts", K::NAME), || {
                            format!("{names:?}: num_vars {} num_levels {} (had {n}, {k} names consumed before the panic)", m.num_vars(), m.num_levels())
                        });
                        for (i, nm) in names.iter().enumerate() {
                            let v = n + i as u32;
                            let got = m.name_to_var(nm);
                            ctx.check(got == Some(v) && (v >= m.num_vars() || m.var_name(v) == nm), &format!("{}:add_named_vars:after-panic:name-lookup", K::NAME), || format!("name {nm}: name_to_var = {got:?}, want {v}"));
                        }
                    });
                    n..n + k
                } else if matches!(op, Op::AddNamedVarsRejected(_)) {
                    let mut names: Vec<String> = (0..k).map(|i| format!("r{}_{}", self.name_counter, i)).collect();
                    names.push(names[0].clone()); // duplicate within the batch: everything before it stays
                    names.push(format!("r{}_never", self.name_counter));
                    self.name_counter += 1;
                    let r = self.mref.with_manager_exclusive(|m| m.add_named_vars(names.clone()));
                    match r {
                        Ok(r) => {
                            ctx.violation(&format!("{}:add_named_vars:duplicate-accepted", K::NAME), format!("{names:?} -> Ok({r:?})"));
                            r
                        }
                        Err(e) => {
                            ctx.check(e.present_var == n && e.name == names[0], &format!("{}:add_named_vars:rejected:error-fields", K::NAME), || format!("{names:?}: {e:?}"));
                            self.mref.with_manager_shared(|m| {
                                ctx.check(m.num_vars() == n + k && m.num_levels() == n + k, &format!("{}:add_named_vars:rejected:counts", K::NAME), || {
                                    format!("{names:?}: num_vars {} num_levels {} (had {n}, {k} added before the duplicate)", m.num_vars(), m.num_levels())
                                });
                            });
                            e.added_vars
                        }
                    }
                } else {
                    let names: Vec<String> = (0..k).map(|i| format!("v{}_{}", self.name_counter, i)).collect();
                    self.name_counter += 1;
                    let r = self.mref.with_manager_exclusive(|m| m.add_named_vars(names.clone()).expect("fresh names"));
                    self.mref.with_manager_shared(|m| {
                        for (i, nm) in names.iter().enumerate() {
                            let v = n + i as u32;
                            ctx.check(m.var_name(v) == nm && m.name_to_var(nm) == Some(v), &format!("{}:add_named_vars:name-lookup", K::NAME), || format!("var {v} name {nm}"));
                        }
                    });
                    r
                };
                ctx.check(r == (n..n + k), &self.sig("add_vars:range"), || format!("{r:?}"));
                self.n += k;
                let n2 = self.n;
                for e in self.hs.iter_mut() {
                    e.t = if K::SEM == Sem::ZeroSup { e.t.extend_zero(n2) } else { e.t.extend(n2) };
                }
                // every existing handle must denote the (extended) function
                self.check_all_tables(ctx, "add_vars");
            }
            Op::SetOrder(o, seq) => {
                let o: Vec<u32> = o.iter().copied().filter(|&v| v < n).collect();
                let before = current_order(&self.mref);
                let seq = *seq || self.seq_only;
                self.mref.with_manager_exclusive(|m| {
                    if seq {
                        oxidd_reorder::set_var_order_seq(m, &o)
                    } else {
                        oxidd_reorder::set_var_order(m, &o)
                    }
                });
                let after = current_order(&self.mref);
                let pos: HashMap<u32, usize> = after.iter().enumerate().map(|(l, &v)| (v, l)).collect();
                let ok = o.len() <= 1 || o.windows(2).all(|w| pos[&w[0]] < pos[&w[1]]);
                ctx.eval();
                if !ok {
                    let w = self.witness(&format!("request {o:?} before {before:?} after {after:?}"));
                    ctx.violation(&self.sig("set_var_order:requested-relative-order"), w);
                }
                self.check_all_tables(ctx, "set_var_order");
            }
            _ => unreachable!(),
        }
        if let Some((r, model)) = produced {
            match r {
                Ok(f) => self.admit(ctx, op, f, model),
                Err(_) => {
                    self.ooms += 1;
                    if !self.oom_ok {
                        let w = self.witness("unexpected OutOfMemory with ample capacity");
                        ctx.violation(&self.sig(&format!("{}:unexpected-oom", op.name())), w);
                    }
                }
            }
        }
    }

    /// Compare a new handle against the model and all live handles, then register it
    pub fn admit(&mut self, ctx: &mut Ctx, op: &Op, f: K::F, model: Tt) {
        ctx.eval();
        let it = interp_tt::<K>(&f);
        if it != model {
            let w = self.witness(&format!("{} returned {} expected {}", op.name(), it, model));
            ctx.violation(&self.sig(&format!("{}:wrong-table", op.name())), w);
        } else if !model.is_const() {
            ctx.distinct((K::NAME, op.name(), &model, self.n));
        }
        // canonicity against all live handles (use the *model* tables: that is what the handle must denote)
        let hf = hash_of(&f);
        for e in &self.hs {
            let same_fn = e.t == model;
            let eq = e.f == f;
            ctx.eval();
            if same_fn != eq {
                let w = self.witness(&format!(
                    "{}: handles {} for tables {} / {}",
                    op.name(),
                    if eq { "equal" } else { "unequal" },
                    e.t,
                    model
                ));
                ctx.violation(
                    &self.sig(if eq { "canonicity:equal-handles-different-functions" } else { "canonicity:same-function-unequal-handles" }),
                    w,
                );
            }
            let ord = e.f.cmp(&f);
            if eq && (hash_of(&e.f) != hf || ord != std::cmp::Ordering::Equal) {
                let w = self.witness("equal handles with different hash or cmp != Equal");
                ctx.violation(&self.sig("canonicity:hash-ord-inconsistent"), w);
            }
            if !eq && ord == std::cmp::Ordering::Equal {
                let w = self.witness("unequal handles with cmp == Equal");
                ctx.violation(&self.sig("canonicity:hash-ord-inconsistent"), w);
            }
        }
        if self.digest.is_some() {
            let nc = f.node_count();
            let first_eq = self.hs.iter().position(|e| e.f == f).unwrap_or(usize::MAX);
            let th = hash_of(&interp_tt::<K>(&f));
            self.digest.as_mut().unwrap().push((th, nc, first_eq));
        }
        self.hs.push(Entry { f, t: model });
    }

    /// every live handle still denotes its table (interp and eval)
    pub fn check_all_tables(&self, ctx: &mut Ctx, when: &str) {
        for e in &self.hs {
            ctx.eval();
            let it = interp_tt::<K>(&e.f);
            if it != e.t {
                let w = self.witness(&format!("after {when}: handle for {} now denotes {}", e.t, it));
                ctx.violation(&self.sig(&format!("{when}:handle-changed-function")), w);
                continue;
            }
            if self.n <= 6 {
                let et = eval_tt::<K>(&e.f);
                if et != it {
                    let w = self.witness(&format!("after {when}: eval {} interp {}", et, it));
                    ctx.violation(&self.sig("eval-vs-interp"), w);
                }
            }
        }
    }

    /// ids of the nodes external references point to: live handles (+1 each) and the ZBDD
    /// tautology chain (+1 each, held by the manager's ZBDD cache)
    fn external_refs(&self, s: &audit::Structure) -> HashMap<NodeID, usize> {
        let mut ext: HashMap<NodeID, usize> = HashMap::new();
        for e in &self.hs {
            let id = e.f.with_manager_shared(|_, edge| edge.node_id());
            if s.node_children.contains_key(&id) {
                *ext.entry(id).or_insert(0) += 1;
            }
        }
        if K::SEM == Sem::ZeroSup {
            let t = self.mref.with_manager_shared(|m| K::F::t(m));
            let mut id = t.with_manager_shared(|_, edge| edge.node_id());
            drop(t);
            while let Some((_, ch)) = s.node_children.get(&id) {
                *ext.entry(id).or_insert(0) += 1;
                id = ch[0].0;
            }
        }
        ext
    }

    /// Snapshot of the stored diagram. Taken under the *exclusive* manager lock: OxiDD's
    /// background collector only holds the shared lock, so this is a quiescent point.
    pub fn structure(&self) -> audit::Structure {
        self.mref.with_manager_exclusive(|m| {
            audit::structural(&*m, K::rule(), &|t| K::SEM == Sem::ZeroSup && !K::term(t))
        })
    }

    /// Full audit at a quiescent point: structure, ref counts, tables, node counts
    pub fn audit(&self, ctx: &mut Ctx, when: &str) -> audit::Structure {
        let s = self.structure();
        ctx.count("audits", 1);
        ctx.count("nodes_audited", s.nodes as u64);
        ctx.evals(1 + s.nodes as u64);
        for (clause, detail) in &s.errs {
            let w = self.witness(&format!("{when}: {detail}"));
            ctx.violation(&self.sig(&format!("structure:{clause}")), w);
        }
        let ext = self.external_refs(&s);
        for (clause, detail) in audit::refcounts(&s, &ext) {
            let w = self.witness(&format!("{when}: {detail}"));
            ctx.violation(&self.sig(&format!("refcount:{clause}")), w);
        }
        self.check_all_tables(ctx, when);
        let order = current_order(&self.mref);
        if self.n <= 8 {
            for e in &self.hs {
                ctx.eval();
                let want = canon::node_count(K::SEM, &e.t, &order);
                let got = e.f.node_count();
                if want != got {
                    let w = self.witness(&format!("{when}: node_count of {} is {got}, reduced diagram has {want}", e.t));
                    ctx.violation(&self.sig("structure:node_count-not-minimal"), w);
                }
            }
        }
        s
    }

    pub fn gc(&mut self, ctx: &mut Ctx) {
        let before = self.mref.with_manager_exclusive(|m| m.num_inner_nodes());
        let mut collected = self.mref.with_manager_shared(|m| m.gc());
        self.explicit_gcs += 1;
        let mut s = self.audit(ctx, "after gc");
        ctx.count("gcs", 1);
        // exactly the reachable nodes remain
        let mut ext = self.external_refs(&s);
        let mut reach = audit::reachable(&s, ext.keys().copied());
        if self.bg_gc {
            // gc() returns 0 without collecting while the background collector is at work:
            // retry (bounded) before judging
            let mut tries = 0;
            while reach.len() != s.nodes && tries < 200 {
                std::thread::sleep(std::time::Duration::from_millis(1));
                collected += self.mref.with_manager_shared(|m| m.gc());
                self.explicit_gcs += 1;
                s = self.structure();
                ext = self.external_refs(&s);
                reach = audit::reachable(&s, ext.keys().copied());
                tries += 1;
            }
        }
        let after = s.nodes;
        ctx.eval();
        if !self.bg_gc && (before < after || collected != before - after) {
            let w = self.witness(&format!("gc() returned {collected}, nodes before {before} after {after}"));
            ctx.violation(&self.sig("gc:return-value"), w);
        }
        ctx.eval();
        if reach.len() != after {
            let w = self.witness(&format!("after gc {after} nodes stored but {} reachable from live handles", reach.len()));
            ctx.violation(&self.sig("gc:unreachable-node-survived"), w);
        }
        if collected > 0 {
            ctx.count("gcs_that_freed", 1);
        }
    }

    /// number of collections that were not requested by the harness (background collector)
    pub fn background_gcs(&self) -> u64 {
        let (gc, reo) = self.mref.with_manager_shared(|m| (m.gc_count(), m.reorder_count()));
        gc.saturating_sub(self.explicit_gcs + reo)
    }

    /// Drop everything, collect, and require the initial node count
    pub fn teardown(&mut self, ctx: &mut Ctx) {
        self.hs.clear();
        let _ = self.mref.with_manager_shared(|m| m.gc());
        self.explicit_gcs += 1;
        if self.bg_gc {
            // a background collection may have been in progress (gc() then returns 0 at once)
            for _ in 0..200 {
                let want = if K::SEM == Sem::ZeroSup { self.n as usize } else { 0 };
                if self.mref.with_manager_exclusive(|m| m.num_inner_nodes()) == want {
                    break;
                }
                std::thread::sleep(std::time::Duration::from_millis(1));
                let _ = self.mref.with_manager_shared(|m| m.gc());
                self.explicit_gcs += 1;
            }
        }
        let left = self.mref.with_manager_shared(|m| m.num_inner_nodes());
        let want = if K::SEM == Sem::ZeroSup { self.n as usize } else { 0 };
        ctx.eval();
        if left != want {
            let w = self.witness(&format!("after dropping all handles + gc: {left} inner nodes, initial count {want}"));
            ctx.violation(&self.sig("gc:nodes-left-after-dropping-everything"), w);
        }
    }
}
