//! Switches that keep histories away from recorded known findings (see known_findings.json),
//! so that one known defect does not mask everything else in long histories. The dedicated
//! monitor of the affected property still exercises the defect and reports it as KNOWN-FINDING.

/// ZBDD reordering (level_swap is kind-agnostic): exercised by C08 only.
pub const ZBDD_REORDER_IN_HISTORIES: bool = false;
