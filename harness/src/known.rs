//! Switches that keep histories away from recorded known findings (see known_findings.json),
//! so that one known defect does not mask everything else in long histories. The dedicated
//! monitor of the affected property still exercises the defect and reports it as KNOWN-FINDING.

/// ZBDD reordering used to be a known finding (level_swap was kind-agnostic); repaired, so ZBDD
/// histories reorder like the other kinds.
pub const ZBDD_REORDER_IN_HISTORIES: bool = true;
