//! Small deterministic PRNG (SplitMix64 seeding a xoshiro256**); no external crate.

#[derive(Clone, Debug)]
pub struct Rng {
    s: [u64; 4],
}

fn splitmix(x: &mut u64) -> u64 {
    *x = x.wrapping_add(0x9E37_79B9_7F4A_7C15);
    let mut z = *x;
    z = (z ^ (z >> 30)).wrapping_mul(0xBF58_476D_1CE4_E5B9);
    z = (z ^ (z >> 27)).wrapping_mul(0x94D0_49BB_1331_11EB);
    z ^ (z >> 31)
}

impl Rng {
    pub fn new(seed: u64) -> Self {
        let mut x = seed ^ 0xD6E8_FEB8_6659_FD93;
        let s = [
            splitmix(&mut x),
            splitmix(&mut x),
            splitmix(&mut x),
            splitmix(&mut x),
        ];
        Rng { s }
    }
    /// Derive an independent stream
    pub fn fork(&mut self, tag: u64) -> Rng {
        Rng::new(self.next() ^ tag.wrapping_mul(0x9E37_79B9_7F4A_7C15))
    }
    #[allow(clippy::should_implement_trait)]
    pub fn next(&mut self) -> u64 {
        let s = &mut self.s;
        let r = s[1].wrapping_mul(5).rotate_left(7).wrapping_mul(9);
        let t = s[1] << 17;
        s[2] ^= s[0];
        s[3] ^= s[1];
        s[1] ^= s[2];
        s[0] ^= s[3];
        s[2] ^= t;
        s[3] = s[3].rotate_left(45);
        r
    }
    /// uniform in 0..n (n > 0)
    pub fn below(&mut self, n: u64) -> u64 {
        debug_assert!(n > 0);
        // multiply-shift; bias negligible for our n
        ((self.next() as u128 * n as u128) >> 64) as u64
    }
    pub fn usize(&mut self, n: usize) -> usize {
        self.below(n as u64) as usize
    }
    pub fn range(&mut self, lo: usize, hi_incl: usize) -> usize {
        lo + self.usize(hi_incl - lo + 1)
    }
    pub fn bool(&mut self) -> bool {
        self.next() & 1 == 1
    }
    /// true with probability num/den
    pub fn chance(&mut self, num: u64, den: u64) -> bool {
        self.below(den) < num
    }
    pub fn pick<'a, T>(&mut self, xs: &'a [T]) -> &'a T {
        &xs[self.usize(xs.len())]
    }
    pub fn shuffle<T>(&mut self, xs: &mut [T]) {
        for i in (1..xs.len()).rev() {
            let j = self.usize(i + 1);
            xs.swap(i, j);
        }
    }
    pub fn perm(&mut self, n: usize) -> Vec<u32> {
        let mut p: Vec<u32> = (0..n as u32).collect();
        self.shuffle(&mut p);
        p
    }
    pub fn f64(&mut self) -> f64 {
        (self.next() >> 11) as f64 / (1u64 << 53) as f64
    }
}

/// All permutations of 0..n (lexicographic)
pub fn all_perms(n: usize) -> Vec<Vec<u32>> {
    fn rec(cur: &mut Vec<u32>, used: &mut Vec<bool>, n: usize, out: &mut Vec<Vec<u32>>) {
        if cur.len() == n {
            out.push(cur.clone());
            return;
        }
        for i in 0..n {
            if !used[i] {
                used[i] = true;
                cur.push(i as u32);
                rec(cur, used, n, out);
                cur.pop();
                used[i] = false;
            }
        }
    }
    let mut out = Vec::new();
    rec(&mut Vec::new(), &mut vec![false; n], n, &mut out);
    out
}

/// FNV-1a style 64-bit hash for evidence keys
pub fn hash64(bytes: &[u8]) -> u64 {
    let mut h: u64 = 0xcbf2_9ce4_8422_2325;
    for &b in bytes {
        h ^= b as u64;
        h = h.wrapping_mul(0x0000_0100_0000_01B3);
    }
    h ^ (h >> 29)
}

pub fn mix(a: u64, b: u64) -> u64 {
    let mut x = a ^ b.wrapping_mul(0x9E37_79B9_7F4A_7C15);
    splitmix(&mut x)
}
