//! Adapter over the Boolean DD kinds (BDD, BCDD, ZBDD) + an independent interpreter.

use oxidd::{BooleanFunction, Edge, Function, HasLevel, HasWorkers, InnerNode, Manager, ManagerRef, Node};
use oxidd_core::Countable;
use oxidd_core::function::{EdgeOfFunc, INodeOfFunc, TermOfFunc};

use crate::tt::{BOp, Quant, Tt};
use oxidd::Subst;
use oxidd::util::AllocResult;

#[derive(Clone, Copy, PartialEq, Eq, Debug)]
pub enum Sem {
    /// plain BDD: node = ite(var, child0, child1)
    Plain,
    /// complement edges: tag 1 on an edge negates
    Complement,
    /// zero-suppressed: skipped level = variable must be 0; domain = all manager variables
    ZeroSup,
}

pub type MRefOf<K> = <<K as BoolKind>::F as Function>::ManagerRef;
pub type MgrOf<'id, K> = <<K as BoolKind>::F as Function>::Manager<'id>;

pub trait BoolKind: Sized + 'static {
    const NAME: &'static str;
    const SEM: Sem;
    type F: BooleanFunction + Send + Sync + 'static;
    fn new_manager(nodes: usize, cache: usize, threads: u32) -> MRefOf<Self>;
    /// Boolean value of a terminal node (ignoring edge tags)
    fn term<'id>(t: &TermOfFunc<'id, Self::F>) -> bool;

    /// quantification / substitution (BDD, BCDD only)
    const HAS_QUANT: bool = false;
    fn quant(_q: Quant, _f: &Self::F, _vars: &Self::F) -> AllocResult<Self::F> {
        unreachable!()
    }
    fn apply_quant(_q: Quant, _op: BOp, _f: &Self::F, _g: &Self::F, _vars: &Self::F) -> AllocResult<Self::F> {
        unreachable!()
    }
    fn substitute(_f: &Self::F, _s: &Subst<Self::F>) -> AllocResult<Self::F> {
        unreachable!()
    }
    fn rule() -> crate::audit::Rule;

    /// DDDMP / DOT export of the given roots into memory (exercises the exporters' edge bookkeeping)
    fn export(mref: &MRefOf<Self>, roots: &[&Self::F], how: u32) -> Option<Vec<u8>>;

    /// DDDMP import of `bytes` (same variable numbering as the exporting manager)
    fn import(mref: &MRefOf<Self>, bytes: &[u8]) -> std::io::Result<Vec<Self::F>>;
    /// DDDMP import with every support variable v of the file mapped to v + `shift`
    fn import_shifted(mref: &MRefOf<Self>, bytes: &[u8], shift: u32) -> std::io::Result<Vec<Self::F>>;

    /// ZBDD set operations (ZBDD only): kind 0 subset0, 1 subset1, 2 change (with `var`); 3 union, 4 intsec, 5 diff
    fn zset(_kind: u32, _f: &Self::F, _g: &Self::F, _var: u32) -> AllocResult<Self::F> {
        unreachable!()
    }
}

macro_rules! export_impl {
    () => {
        fn import(mref: &MRefOf<Self>, bytes: &[u8]) -> std::io::Result<Vec<Self::F>> {
            let mut cur: &[u8] = bytes;
            let header = oxidd_dump::dddmp::DumpHeader::load(&mut cur)?;
            let support: Vec<u32> = header.support_var_order().to_vec();
            mref.with_manager_shared(|m| {
                oxidd_dump::dddmp::import::<Self::F>(&mut cur, &header, m, support.iter().copied(), <Self::F as BooleanFunction>::not_edge_owned)
            })
        }
        fn import_shifted(mref: &MRefOf<Self>, bytes: &[u8], shift: u32) -> std::io::Result<Vec<Self::F>> {
            let mut cur: &[u8] = bytes;
            let header = oxidd_dump::dddmp::DumpHeader::load(&mut cur)?;
            let support: Vec<u32> = header.support_var_order().iter().map(|&v| v + shift).collect();
            mref.with_manager_shared(|m| {
                oxidd_dump::dddmp::import::<Self::F>(&mut cur, &header, m, support.iter().copied(), <Self::F as BooleanFunction>::not_edge_owned)
            })
        }
        fn export(mref: &MRefOf<Self>, roots: &[&Self::F], how: u32) -> Option<Vec<u8>> {
            use oxidd_dump::dddmp::ExportSettings;
            mref.with_manager_shared(|m| {
                let mut buf: Vec<u8> = Vec::new();
                let ok = match how % 3 {
                    0 => ExportSettings::default().ascii().export(&mut buf, m, roots.iter().copied()).is_ok(),
                    1 => ExportSettings::default().export(&mut buf, m, roots.iter().copied()).is_ok(),
                    _ => oxidd_dump::dot::dump_all(&mut buf, m, roots.iter().map(|f| (*f, "f"))).is_ok(),
                };
                ok.then_some(buf)
            })
        }
    };
}

macro_rules! quant_impl {
    () => {
        const HAS_QUANT: bool = true;
        fn quant(q: Quant, f: &Self::F, vars: &Self::F) -> AllocResult<Self::F> {
            use oxidd::BooleanFunctionQuant;
            match q {
                Quant::Exists => f.exists(vars),
                Quant::Forall => f.forall(vars),
                Quant::Unique => f.unique(vars),
            }
        }
        fn apply_quant(q: Quant, op: BOp, f: &Self::F, g: &Self::F, vars: &Self::F) -> AllocResult<Self::F> {
            use oxidd::BooleanFunctionQuant;
            match q {
                Quant::Exists => f.apply_exists(op.to_oxidd(), g, vars),
                Quant::Forall => f.apply_forall(op.to_oxidd(), g, vars),
                Quant::Unique => f.apply_unique(op.to_oxidd(), g, vars),
            }
        }
        fn substitute(f: &Self::F, s: &Subst<Self::F>) -> AllocResult<Self::F> {
            use oxidd::FunctionSubst;
            f.substitute(s)
        }
    };
}

pub struct Bdd;
pub struct Bcdd;
pub struct Zbdd;

impl BoolKind for Bdd {
    const NAME: &'static str = "bdd";
    const SEM: Sem = Sem::Plain;
    type F = oxidd::bdd::BDDFunction;
    fn new_manager(nodes: usize, cache: usize, threads: u32) -> MRefOf<Self> {
        oxidd::bdd::new_manager(nodes, cache, threads)
    }
    fn term<'id>(t: &TermOfFunc<'id, Self::F>) -> bool {
        *t == oxidd_rules_bdd::simple::BDDTerminal::True
    }
    quant_impl!();
    export_impl!();
    fn rule() -> crate::audit::Rule {
        crate::audit::Rule::Bdd
    }
}
impl BoolKind for Bcdd {
    const NAME: &'static str = "bcdd";
    const SEM: Sem = Sem::Complement;
    type F = oxidd::bcdd::BCDDFunction;
    fn new_manager(nodes: usize, cache: usize, threads: u32) -> MRefOf<Self> {
        oxidd::bcdd::new_manager(nodes, cache, threads)
    }
    fn term<'id>(_t: &TermOfFunc<'id, Self::F>) -> bool {
        true
    }
    quant_impl!();
    export_impl!();
    fn rule() -> crate::audit::Rule {
        crate::audit::Rule::Bcdd
    }
}
impl BoolKind for Zbdd {
    const NAME: &'static str = "zbdd";
    const SEM: Sem = Sem::ZeroSup;
    type F = oxidd::zbdd::ZBDDFunction;
    fn new_manager(nodes: usize, cache: usize, threads: u32) -> MRefOf<Self> {
        oxidd::zbdd::new_manager(nodes, cache, threads)
    }
    fn term<'id>(t: &TermOfFunc<'id, Self::F>) -> bool {
        *t == oxidd_rules_zbdd::ZBDDTerminal::Base
    }
    export_impl!();
    fn zset(kind: u32, f: &Self::F, g: &Self::F, var: u32) -> AllocResult<Self::F> {
        use oxidd::BooleanVecSet;
        match kind {
            0 => f.subset0(var),
            1 => f.subset1(var),
            2 => f.change(var),
            3 => f.union(g),
            4 => f.intsec(g),
            _ => f.diff(g),
        }
    }
    fn rule() -> crate::audit::Rule {
        crate::audit::Rule::Zbdd
    }
}

/// Create a manager with `nvars` variables; split depth MAX if threads > 1 so that the
/// parallel recursion is really exercised on small diagrams.
pub fn setup<K: BoolKind>(nodes: usize, cache: usize, threads: u32, nvars: u32) -> MRefOf<K>
where
    for<'id> MgrOf<'id, K>: HasWorkers,
{
    use oxidd::WorkerPool;
    let mref = K::new_manager(nodes, cache, threads);
    mref.with_manager_exclusive(|m| {
        if threads > 1 {
            m.workers().set_split_depth(Some(u32::MAX));
        }
        m.add_vars(nvars);
    });
    mref
}

/// Independent node-by-node interpretation under assignment `a` (bit v = value of variable v).
/// Never calls OxiDD's `eval`.
pub fn interp_edge<'id, K: BoolKind>(m: &MgrOf<'id, K>, root: &EdgeOfFunc<'id, K::F>, a: usize) -> bool
where
    for<'x> INodeOfFunc<'x, K::F>: HasLevel,
{
    let nlev = m.num_levels();
    let mut neg = false;
    let mut next_level = 0u32; // for ZeroSup: first level not yet accounted for
    // We only hold borrowed edges; walk with raw references obtained from children().
    // To keep lifetimes simple we clone nothing: recursion over `Borrowed` edges.
    fn val_of(a: usize, v: u32) -> bool {
        (a >> v) & 1 == 1
    }
    // iterative walk using a small recursive helper because Borrowed<'_, E> derefs to E
    fn walk<'id, K: BoolKind>(
        m: &MgrOf<'id, K>,
        e: &EdgeOfFunc<'id, K::F>,
        a: usize,
        neg: &mut bool,
        next_level: &mut u32,
        nlev: u32,
    ) -> bool
    where
        for<'x> INodeOfFunc<'x, K::F>: HasLevel,
    {
        if K::SEM == Sem::Complement && e.tag().as_usize() == 1 {
            *neg = !*neg;
        }
        match m.get_node(e) {
            Node::Inner(n) => {
                let l = n.level();
                if K::SEM == Sem::ZeroSup {
                    for s in *next_level..l {
                        if val_of(a, m.level_to_var(s)) {
                            return false;
                        }
                    }
                    *next_level = l + 1;
                }
                let v = m.level_to_var(l);
                let c = n.child(if val_of(a, v) { 0 } else { 1 });
                walk::<K>(m, &c, a, neg, next_level, nlev)
            }
            Node::Terminal(t) => {
                use std::borrow::Borrow;
                if K::SEM == Sem::ZeroSup {
                    for s in *next_level..nlev {
                        if val_of(a, m.level_to_var(s)) {
                            return false;
                        }
                    }
                }
                K::term(t.borrow()) ^ *neg
            }
        }
    }
    walk::<K>(m, root, a, &mut neg, &mut next_level, nlev)
}

/// Truth table of `f` by the independent interpreter over all manager variables (n <= 20)
pub fn interp_tt<K: BoolKind>(f: &K::F) -> Tt
where
    for<'x> INodeOfFunc<'x, K::F>: HasLevel,
{
    f.with_manager_shared(|m, e| {
        let n = m.num_vars();
        Tt::from_fn(n, |a| interp_edge::<K>(m, e, a))
    })
}

/// Truth table of `f` through OxiDD's own `eval`
pub fn eval_tt<K: BoolKind>(f: &K::F) -> Tt {
    let n = f.with_manager_shared(|m, _| m.num_vars());
    Tt::from_fn(n, |a| f.eval((0..n).map(|v| (v, (a >> v) & 1 == 1))))
}

/// Build the function with truth table `t` by minterm expansion (or of cubes)
pub fn build_minterms<K: BoolKind>(mref: &MRefOf<K>, t: &Tt) -> K::F {
    mref.with_manager_shared(|m| {
        let n = m.num_vars();
        assert_eq!(n, t.n);
        let mut f = K::F::f(m);
        for a in 0..(1usize << n) {
            if !t.get(a) {
                continue;
            }
            let mut cube = K::F::t(m);
            for v in 0..n {
                let lit = if (a >> v) & 1 == 1 {
                    K::F::var(m, v).unwrap()
                } else {
                    K::F::not_var(m, v).unwrap()
                };
                cube = cube.and(&lit).unwrap();
            }
            f = f.or(&cube).unwrap();
        }
        f
    })
}

/// Build by Shannon expansion along variable numbers using ite (different route)
pub fn build_shannon<K: BoolKind>(mref: &MRefOf<K>, t: &Tt) -> K::F {
    fn rec<K: BoolKind>(m: &MgrOf<'_, K>, t: &Tt, v: u32) -> K::F {
        if t.is_zero() {
            return K::F::f(m);
        }
        if t.is_one() {
            return K::F::t(m);
        }
        // find next variable >= v the function depends on
        let mut v = v;
        while !t.depends_on(v) {
            v += 1;
        }
        let hi = rec::<K>(m, &t.cofactor(v, true), v + 1);
        let lo = rec::<K>(m, &t.cofactor(v, false), v + 1);
        K::F::var(m, v).unwrap().ite(&hi, &lo).unwrap()
    }
    mref.with_manager_shared(|m| {
        assert_eq!(m.num_vars(), t.n);
        rec::<K>(m, t, 0)
    })
}

/// Fallible Shannon construction (for runs with small capacities)
pub fn try_build_shannon<K: BoolKind>(mref: &MRefOf<K>, t: &Tt) -> AllocResult<K::F> {
    fn rec<K: BoolKind>(m: &MgrOf<'_, K>, t: &Tt, v: u32) -> AllocResult<K::F> {
        if t.is_zero() {
            return Ok(K::F::f(m));
        }
        if t.is_one() {
            return Ok(K::F::t(m));
        }
        let mut v = v;
        while !t.depends_on(v) {
            v += 1;
        }
        let hi = rec::<K>(m, &t.cofactor(v, true), v + 1)?;
        let lo = rec::<K>(m, &t.cofactor(v, false), v + 1)?;
        K::F::var(m, v)?.ite(&hi, &lo)
    }
    mref.with_manager_shared(|m| rec::<K>(m, t, 0))
}

/// Current order as level -> var
pub fn current_order<MR: ManagerRef>(mref: &MR) -> Vec<u32> {
    mref.with_manager_shared(|m| (0..m.num_levels()).map(|l| m.level_to_var(l)).collect())
}

pub fn set_order<MR: ManagerRef>(mref: &MR, order: &[u32])
where
    for<'id> MR::Manager<'id>: HasWorkers,
    for<'id> <MR::Manager<'id> as Manager>::InnerNode: HasLevel,
{
    mref.with_manager_exclusive(|m| oxidd_reorder::set_var_order(m, order));
}
