//! Size of the unique reduced diagram of a function under a given order, computed from the
//! truth table alone (a tiny hash-consing reference implementation per kind). Used for the
//! "node_count equals the size of the unique reduced diagram" clause of C03.

use std::collections::HashMap;

use crate::kinds::Sem;
use crate::tt::Tt;

#[derive(Clone, PartialEq, Eq, Hash, Debug)]
enum N {
    Term(bool),
    Inner(u32, usize, bool, usize, bool), // level, hi id, hi neg, lo id, lo neg
}

struct Builder<'a> {
    order: &'a [u32],
    sem: Sem,
    nodes: HashMap<N, usize>,
    memo: HashMap<(Tt, u32), (usize, bool)>,
}

impl Builder<'_> {
    fn mk(&mut self, n: N) -> usize {
        let next = self.nodes.len();
        *self.nodes.entry(n).or_insert(next)
    }
    /// returns (node id, complemented)
    fn build(&mut self, g: &Tt, level: u32) -> (usize, bool) {
        if let Some(r) = self.memo.get(&(g.clone(), level)) {
            return *r;
        }
        let nlev = self.order.len() as u32;
        let r = match self.sem {
            Sem::Plain => {
                if g.is_const() {
                    (self.mk(N::Term(g.is_one())), false)
                } else {
                    let v = self.order[level as usize];
                    if !g.depends_on(v) {
                        self.build(g, level + 1)
                    } else {
                        let hi = self.build(&g.cofactor(v, true), level + 1);
                        let lo = self.build(&g.cofactor(v, false), level + 1);
                        (self.mk(N::Inner(level, hi.0, false, lo.0, false)), false)
                    }
                }
            }
            Sem::Complement => {
                if g.is_const() {
                    // single terminal; ⊥ is its complement
                    (self.mk(N::Term(true)), g.is_zero())
                } else {
                    let v = self.order[level as usize];
                    if !g.depends_on(v) {
                        self.build(g, level + 1)
                    } else {
                        let hi = self.build(&g.cofactor(v, true), level + 1);
                        let lo = self.build(&g.cofactor(v, false), level + 1);
                        // normalise: then-edge uncomplemented
                        if hi.1 {
                            (self.mk(N::Inner(level, hi.0, false, lo.0, !lo.1)), true)
                        } else {
                            (self.mk(N::Inner(level, hi.0, false, lo.0, lo.1)), false)
                        }
                    }
                }
            }
            Sem::ZeroSup => {
                if g.is_zero() {
                    (self.mk(N::Term(false)), false)
                } else if level == nlev {
                    (self.mk(N::Term(true)), false)
                } else {
                    let v = self.order[level as usize];
                    let nv = Tt::var(g.n, v).not();
                    let hi_f = g.cofactor(v, true).and(&nv);
                    let lo_f = g.cofactor(v, false).and(&nv);
                    // g restricted to "v must not be free": members with v are hi, without are lo;
                    // g itself may claim members with v=1 only through hi
                    if hi_f.is_zero() {
                        self.build(&lo_f, level + 1)
                    } else {
                        let hi = self.build(&hi_f, level + 1);
                        let lo = self.build(&lo_f, level + 1);
                        (self.mk(N::Inner(level, hi.0, false, lo.0, false)), false)
                    }
                }
            }
        };
        self.memo.insert((g.clone(), level), r);
        r
    }
}

/// Number of nodes (inner + terminals) of the reduced diagram of `t` under `order`
/// (level -> var). For ZeroSup the function is read over all `order.len()` variables.
pub fn node_count(sem: Sem, t: &Tt, order: &[u32]) -> usize {
    assert_eq!(t.n as usize, order.len());
    let mut b = Builder { order, sem, nodes: HashMap::new(), memo: HashMap::new() };
    let g = if sem == Sem::ZeroSup {
        // normalise so that memo keys are functions independent of variables already decided
        t.clone()
    } else {
        t.clone()
    };
    let (root, _) = b.build(&g, 0);
    // count nodes reachable from root
    let by_id: HashMap<usize, N> = b.nodes.iter().map(|(n, &i)| (i, n.clone())).collect();
    let mut seen = std::collections::HashSet::new();
    let mut stack = vec![root];
    while let Some(i) = stack.pop() {
        if !seen.insert(i) {
            continue;
        }
        if let N::Inner(_, h, _, l, _) = &by_id[&i] {
            stack.push(*h);
            stack.push(*l);
        }
    }
    seen.len()
}
