//! Reference model: Boolean functions as explicit truth tables.
//!
//! Assignment `a` (an integer) gives variable `v` the value `(a >> v) & 1`. Bit `a` of the
//! table is the function value under `a`. Everything is defined pointwise on assignments
//! (no Shannon recursion), independent of any OxiDD code.

#[derive(Clone, PartialEq, Eq, Hash, PartialOrd, Ord, Debug)]
pub struct Tt {
    pub n: u32,
    pub w: Vec<u64>,
}

#[derive(Clone, Copy, PartialEq, Eq, Hash, Debug, PartialOrd, Ord)]
pub enum BOp {
    And,
    Or,
    Xor,
    Equiv,
    Nand,
    Nor,
    Imp,
    ImpStrict,
}
pub const ALL_BOPS: [BOp; 8] = [
    BOp::And,
    BOp::Or,
    BOp::Xor,
    BOp::Equiv,
    BOp::Nand,
    BOp::Nor,
    BOp::Imp,
    BOp::ImpStrict,
];

impl BOp {
    /// the propositional connective on values
    pub fn on(self, a: bool, b: bool) -> bool {
        match self {
            BOp::And => a && b,
            BOp::Or => a || b,
            BOp::Xor => a != b,
            BOp::Equiv => a == b,
            BOp::Nand => !(a && b),
            BOp::Nor => !(a || b),
            BOp::Imp => !a || b,
            BOp::ImpStrict => !a && b,
        }
    }
    pub fn name(self) -> &'static str {
        match self {
            BOp::And => "and",
            BOp::Or => "or",
            BOp::Xor => "xor",
            BOp::Equiv => "equiv",
            BOp::Nand => "nand",
            BOp::Nor => "nor",
            BOp::Imp => "imp",
            BOp::ImpStrict => "imp_strict",
        }
    }
    pub fn to_oxidd(self) -> oxidd::BooleanOperator {
        use oxidd::BooleanOperator as O;
        match self {
            BOp::And => O::And,
            BOp::Or => O::Or,
            BOp::Xor => O::Xor,
            BOp::Equiv => O::Equiv,
            BOp::Nand => O::Nand,
            BOp::Nor => O::Nor,
            BOp::Imp => O::Imp,
            BOp::ImpStrict => O::ImpStrict,
        }
    }
}

#[derive(Clone, Copy, PartialEq, Eq, Hash, Debug)]
pub enum Quant {
    Exists,
    Forall,
    Unique,
}
pub const ALL_QUANTS: [Quant; 3] = [Quant::Exists, Quant::Forall, Quant::Unique];

fn words(n: u32) -> usize {
    if n <= 6 { 1 } else { 1usize << (n - 6) }
}
fn mask(n: u32) -> u64 {
    if n >= 6 { !0 } else { (1u64 << (1u32 << n)) - 1 }
}

impl Tt {
    pub fn zero(n: u32) -> Tt {
        Tt { n, w: vec![0; words(n)] }
    }
    pub fn one(n: u32) -> Tt {
        Tt { n, w: vec![mask(n); words(n)] }
    }
    pub fn constant(n: u32, b: bool) -> Tt {
        if b { Tt::one(n) } else { Tt::zero(n) }
    }
    pub fn size(&self) -> usize {
        1usize << self.n
    }
    #[inline]
    pub fn get(&self, a: usize) -> bool {
        (self.w[a >> 6] >> (a & 63)) & 1 == 1
    }
    #[inline]
    pub fn set(&mut self, a: usize, b: bool) {
        if b {
            self.w[a >> 6] |= 1 << (a & 63);
        } else {
            self.w[a >> 6] &= !(1 << (a & 63));
        }
    }
    pub fn from_fn(n: u32, mut f: impl FnMut(usize) -> bool) -> Tt {
        let mut t = Tt::zero(n);
        for a in 0..(1usize << n) {
            if f(a) {
                t.w[a >> 6] |= 1 << (a & 63);
            }
        }
        t
    }
    /// from the low 2^n bits of `bits` (n <= 6)
    pub fn from_u64(n: u32, bits: u64) -> Tt {
        assert!(n <= 6);
        Tt { n, w: vec![bits & mask(n)] }
    }
    pub fn as_u64(&self) -> u64 {
        assert!(self.n <= 6);
        self.w[0]
    }
    pub fn var(n: u32, v: u32) -> Tt {
        assert!(v < n);
        Tt::from_fn(n, |a| (a >> v) & 1 == 1)
    }
    pub fn random(n: u32, rng: &mut crate::rng::Rng) -> Tt {
        let mut t = Tt::zero(n);
        for w in t.w.iter_mut() {
            *w = rng.next();
        }
        t.w[0] &= if n < 6 { mask(n) } else { !0 };
        if n < 6 {
            t.w[0] &= mask(n);
        }
        t
    }
    /// random with a structure bias (sparse / dense / depends on few variables)
    pub fn random_biased(n: u32, rng: &mut crate::rng::Rng) -> Tt {
        match rng.below(6) {
            0 => Tt::random(n, rng),
            1 => Tt::random(n, rng).and(&Tt::random(n, rng)),
            2 => Tt::random(n, rng).or(&Tt::random(n, rng)),
            3 => {
                // depends only on a random subset of the variables
                let keep: u32 = rng.next() as u32 & ((1u32 << n) - 1);
                let base = Tt::random(n, rng);
                Tt::from_fn(n, |a| base.get(a & keep as usize))
            }
            4 => {
                // a few random cubes
                let mut t = Tt::zero(n);
                for _ in 0..rng.range(1, 3) {
                    let care = rng.next() as usize & ((1usize << n) - 1);
                    let val = rng.next() as usize & care;
                    t = t.or(&Tt::from_fn(n, |a| a & care == val));
                }
                t
            }
            _ => {
                let t = Tt::random(n, rng);
                t.and(&Tt::random(n, rng)).and(&Tt::random(n, rng))
            }
        }
    }
    pub fn is_zero(&self) -> bool {
        self.w.iter().all(|&x| x == 0)
    }
    pub fn is_one(&self) -> bool {
        *self == Tt::one(self.n)
    }
    pub fn is_const(&self) -> bool {
        self.is_zero() || self.is_one()
    }
    pub fn count_ones(&self) -> u64 {
        self.w.iter().map(|x| x.count_ones() as u64).sum()
    }
    pub fn not(&self) -> Tt {
        let m = mask(self.n);
        Tt { n: self.n, w: self.w.iter().map(|x| !x & m).collect() }
    }
    fn zip(&self, o: &Tt, f: impl Fn(u64, u64) -> u64) -> Tt {
        assert_eq!(self.n, o.n);
        let m = mask(self.n);
        Tt {
            n: self.n,
            w: self.w.iter().zip(&o.w).map(|(&a, &b)| f(a, b) & m).collect(),
        }
    }
    pub fn and(&self, o: &Tt) -> Tt {
        self.zip(o, |a, b| a & b)
    }
    pub fn or(&self, o: &Tt) -> Tt {
        self.zip(o, |a, b| a | b)
    }
    pub fn xor(&self, o: &Tt) -> Tt {
        self.zip(o, |a, b| a ^ b)
    }
    pub fn diff(&self, o: &Tt) -> Tt {
        self.zip(o, |a, b| a & !b)
    }
    /// pointwise application of the connective (definition by cases on values)
    pub fn bop(&self, op: BOp, o: &Tt) -> Tt {
        assert_eq!(self.n, o.n);
        // compute through the 4-entry value table of the connective
        let t00 = op.on(false, false);
        let t01 = op.on(false, true);
        let t10 = op.on(true, false);
        let t11 = op.on(true, true);
        let sel = |b: bool| if b { !0u64 } else { 0 };
        self.zip(o, |a, b| {
            (sel(t00) & !a & !b) | (sel(t01) & !a & b) | (sel(t10) & a & !b) | (sel(t11) & a & b)
        })
    }
    pub fn ite(&self, t: &Tt, e: &Tt) -> Tt {
        assert!(self.n == t.n && self.n == e.n);
        let m = mask(self.n);
        Tt {
            n: self.n,
            w: (0..self.w.len())
                .map(|i| ((self.w[i] & t.w[i]) | (!self.w[i] & e.w[i])) & m)
                .collect(),
        }
    }
    pub fn implies(&self, o: &Tt) -> bool {
        self.diff(o).is_zero()
    }
    /// cofactor w.r.t. v := val (result still has n variables, independent of v)
    pub fn cofactor(&self, v: u32, val: bool) -> Tt {
        let bit = 1usize << v;
        Tt::from_fn(self.n, |a| self.get(if val { a | bit } else { a & !bit }))
    }
    pub fn depends_on(&self, v: u32) -> bool {
        self.cofactor(v, false) != self.cofactor(v, true)
    }
    pub fn support(&self) -> Vec<u32> {
        (0..self.n).filter(|&v| self.depends_on(v)).collect()
    }
    pub fn quant(&self, q: Quant, vars: &[u32]) -> Tt {
        let mut r = self.clone();
        for &v in vars {
            let c0 = r.cofactor(v, false);
            let c1 = r.cofactor(v, true);
            r = match q {
                Quant::Exists => c0.or(&c1),
                Quant::Forall => c0.and(&c1),
                Quant::Unique => c0.xor(&c1),
            };
        }
        r
    }
    /// restrict by a partial assignment: list of (var, value)
    pub fn restrict(&self, lits: &[(u32, bool)]) -> Tt {
        let mut r = self.clone();
        for &(v, b) in lits {
            r = r.cofactor(v, b);
        }
        r
    }
    /// simultaneous substitution: variable v is replaced by subst[v] if Some
    pub fn compose(&self, subst: &[Option<Tt>]) -> Tt {
        let n = self.n;
        Tt::from_fn(n, |a| {
            let mut a2 = 0usize;
            for v in 0..n as usize {
                let val = match subst.get(v).and_then(|s| s.as_ref()) {
                    Some(r) => r.get(a),
                    None => (a >> v) & 1 == 1,
                };
                if val {
                    a2 |= 1 << v;
                }
            }
            self.get(a2)
        })
    }
    /// same function over more variables (new variables are don't cares)
    pub fn extend(&self, n2: u32) -> Tt {
        assert!(n2 >= self.n);
        let m = (1usize << self.n) - 1;
        Tt::from_fn(n2, |a| self.get(a & m))
    }
    /// ZBDD reading of adding variables: the family is unchanged, i.e. every new variable
    /// must be 0 for membership.
    pub fn extend_zero(&self, n2: u32) -> Tt {
        assert!(n2 >= self.n);
        let m = (1usize << self.n) - 1;
        Tt::from_fn(n2, |a| (a & !m) == 0 && self.get(a & m))
    }
    /// conjunction of literals
    pub fn cube(n: u32, lits: &[(u32, bool)]) -> Tt {
        Tt::from_fn(n, |a| lits.iter().all(|&(v, b)| ((a >> v) & 1 == 1) == b))
    }
    /// If self is a (satisfiable) cube, return for each variable Some(polarity) / None
    pub fn as_cube(&self) -> Option<Vec<Option<bool>>> {
        if self.is_zero() {
            return None;
        }
        let mut lits = Vec::new();
        let mut res = vec![None; self.n as usize];
        for v in 0..self.n {
            if self.depends_on(v) {
                let pos = !self.cofactor(v, true).is_zero();
                let neg = !self.cofactor(v, false).is_zero();
                if pos && neg {
                    return None;
                }
                lits.push((v, pos));
                res[v as usize] = Some(pos);
            }
        }
        if Tt::cube(self.n, &lits) == *self { Some(res) } else { None }
    }
    pub fn hex(&self) -> String {
        let mut s = String::new();
        for w in self.w.iter().rev() {
            if self.n >= 6 {
                s.push_str(&format!("{w:016x}"));
            } else {
                let digits = ((1usize << self.n) + 3) / 4;
                s.push_str(&format!("{:0width$x}", w, width = digits));
            }
        }
        format!("{}v:0x{}", self.n, s)
    }
}

impl std::fmt::Display for Tt {
    fn fmt(&self, f: &mut std::fmt::Formatter<'_>) -> std::fmt::Result {
        f.write_str(&self.hex())
    }
}
