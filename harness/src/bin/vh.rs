use vh::{Ctx, Tier};

fn main() {
    let args: Vec<String> = std::env::args().collect();
    if args.len() < 2 || args[1] == "list" {
        for (name, prop, _) in vh::mon::registry() {
            println!("{name} {prop}");
        }
        return;
    }
    let name = &args[1];
    let mut tier = Tier::Quick;
    let mut seed = 1u64;
    let mut shard = 0usize;
    let mut nshards = 1usize;
    let mut param = None;
    let mut i = 2;
    while i < args.len() {
        match args[i].as_str() {
            "--tier" => {
                tier = if args[i + 1] == "thorough" { Tier::Thorough } else { Tier::Quick };
                i += 1;
            }
            "--seed" => {
                seed = args[i + 1].parse().expect("seed");
                i += 1;
            }
            "--shard" => {
                let (a, b) = args[i + 1].split_once('/').expect("i/n");
                shard = a.parse().unwrap();
                nshards = b.parse().unwrap();
                i += 1;
            }
            "--param" => {
                param = Some(args[i + 1].clone());
                i += 1;
            }
            x => panic!("unknown arg {x}"),
        }
        i += 1;
    }
    let reg = vh::mon::registry();
    let Some((_, prop, f)) = reg.iter().find(|(n, _, _)| n == name) else {
        eprintln!("unknown monitor {name}");
        std::process::exit(3);
    };
    vh::ctx::install_panic_hook();
    let mut ctx = Ctx::new(prop, name, tier, seed, shard, nshards);
    ctx.param = param;
    f(&mut ctx);
    // scratch files of the C19 monitors (DDDMP / DOT exports through the C API)
    let _ = std::fs::remove_dir_all(format!("/tmp/ag19-{}", std::process::id()));
    ctx.finish();
}
