use oxidd::{BooleanFunction, Manager, ManagerRef};
fn main() {
    type F = oxidd::bdd::BDDFunction;
    for cap in [100usize, 1000, 65535, 65536, 65537, 70000, 131072, 131080, 150000] {
        let mref = oxidd::bdd::new_manager(cap, 1 << 12, 1);
        mref.with_manager_exclusive(|m| { m.add_vars(24); });
        let mut keep: Vec<F> = Vec::new();
        // pool: functions over variables 8..24
        let pool: Vec<F> = mref.with_manager_shared(|m| {
            let mut p = Vec::new();
            for a in 8..24u32 { for b in (a+1)..24u32 {
                if let Ok(f) = F::var(m, a).and_then(|x| x.and(&F::var(m, b)?)) { p.push(f); }
                if let Ok(f) = F::var(m, a).and_then(|x| x.or(&F::var(m, b)?)) { p.push(f); }
            }}
            p
        });
        let mut rounds = Vec::new();
        let mut k = 0usize;
        for _round in 0..3 {
            mref.with_manager_shared(|m| {
                m.gc();
                loop {
                    let top = (k / (pool.len() * pool.len())) as u32;
                    if top >= 8 { break; }
                    let i = k % pool.len(); let j = (k / pool.len()) % pool.len();
                    k += 1;
                    if i == j { continue; }
                    let Ok(x) = F::var(m, top) else { if cap <= 1000 { println!("  var({top}) failed with {} stored", m.num_inner_nodes()); } break };
                    match x.ite(&pool[i], &pool[j]) { Ok(f) => keep.push(f), Err(_) => { if cap <= 1000 { println!("  ite failed with {} stored (approx {})", m.num_inner_nodes(), m.approx_num_inner_nodes()); } break } }
                }
            });
            let stored = mref.with_manager_shared(|m| { m.gc(); m.num_inner_nodes() });
            rounds.push(stored);
        }
        println!("cap {cap}: pool {} stored after rounds {rounds:?}", pool.len());
    }
}
