use oxidd::{BooleanFunction, Manager, ManagerRef};
use vh::kinds::*;
fn main() {
    type F = <Zbdd as BoolKind>::F;
    for cache in [1usize, 1024] {
        let mref = setup::<Zbdd>(1 << 12, cache, 1, 2);
        let f = mref.with_manager_shared(|m| F::t(m));
        let c1 = mref.with_manager_shared(|m| F::var(m, 0).unwrap());
        let r1 = f.restrict(&c1).unwrap();
        println!("cache={cache} before: f={} restrict(f, x0) = {}", interp_tt::<Zbdd>(&f), interp_tt::<Zbdd>(&r1));
        mref.with_manager_exclusive(|m| m.add_vars(1));
        let c2 = mref.with_manager_shared(|m| F::var(m, 0).unwrap().and(&F::not_var(m, 2).unwrap()).unwrap());
        let r2 = f.restrict(&c2).unwrap();
        println!("cache={cache} after add_vars(1): f={} restrict(f, x0 & !x2) = {} (want 3v:0xff)", interp_tt::<Zbdd>(&f), interp_tt::<Zbdd>(&r2));
    }
}
