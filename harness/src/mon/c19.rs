//! C19 — C API: handle ownership balanced, results equal the Rust API's.
//! (`lifecycle`: a manager is destroyed once its last reference is gone — observed through
//! the LIVE_STORES hook counter; the FFI monitors live in `ffi` below.)

use oxidd::{BooleanFunction, ManagerRef};

use crate::Ctx;

#[cfg(oxidd_verif)]
fn live_stores() -> i64 {
    oxidd_core::verif::LIVE_STORES.load(std::sync::atomic::Ordering::SeqCst)
}
#[cfg(not(oxidd_verif))]
fn live_stores() -> i64 {
    0
}

fn wait_for(baseline: i64, ms: u64) -> i64 {
    let t0 = std::time::Instant::now();
    loop {
        let l = live_stores();
        if l <= baseline || t0.elapsed().as_millis() as u64 > ms {
            return l;
        }
        std::thread::sleep(std::time::Duration::from_millis(2));
    }
}

/// Managers (with and without functions outliving the manager reference) must be freed after
/// the last reference is dropped, however short-lived they are.
pub fn lifecycle(ctx: &mut Ctx) {
    // small worker stacks: thousands of managers are created
    // SAFETY: single-threaded at this point
    unsafe { std::env::set_var("OXIDD_STACK_SIZE", "1048576") };
    let rounds = ctx.by_tier(300, 3000);
    let base = live_stores();
    let mut rng = ctx.rng(0xC19);
    for i in 0..rounds {
        let pattern = rng.below(4);
        let label = format!("lifecycle round={i} pattern={pattern}");
        if i % 64 == 0 {
            println!("@@{{\"t\":\"case\",\"case\":{}}}", crate::ctx::json_str(&label));
        }
        match pattern {
            0 => drop(oxidd::bdd::new_manager(64, 16, 1)), // dropped at once
            1 => {
                let m = oxidd::bcdd::new_manager(64, 16, 2);
                m.with_manager_exclusive(|m| {
                    oxidd::Manager::add_vars(m, 2);
                });
                let f = m.with_manager_shared(|m| oxidd::bcdd::BCDDFunction::var(m, 0).unwrap());
                drop(m); // the function keeps the manager alive
                let g = f.not().unwrap();
                drop(f);
                drop(g);
            }
            2 => {
                let m = oxidd::zbdd::new_manager(64, 16, 1);
                let m2 = m.clone();
                drop(m);
                drop(m2);
            }
            _ => {
                let m = oxidd::bdd::new_manager(64, 16, 1);
                let h = std::thread::spawn(move || drop(m));
                h.join().unwrap();
            }
        }
        ctx.eval();
        if i % 50 == 49 {
            let l = wait_for(base, 3000);
            if l > base {
                ctx.violation(
                    "lifecycle:manager-not-freed-after-last-reference",
                    format!("{} of {} managers still alive 3 s after their last reference was dropped (round {i})", l - base, i + 1),
                );
                return;
            }
            ctx.distinct(("lifecycle", i));
        }
    }
    ctx.count("managers_created_and_dropped", rounds as u64);
    ctx.sample(|| "create a manager and drop it at once / drop the ManagerRef before its functions / clone+drop / drop on another thread; LIVE_STORES must return to the baseline".into());
}
