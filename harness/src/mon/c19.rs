//! C19 — C API: handle ownership balanced, results equal the Rust API's.
//! (`lifecycle`: a manager is destroyed once its last reference is gone — observed through
//! the LIVE_STORES hook counter; the FFI monitors live in `ffi` below.)

use oxidd::{BooleanFunction, ManagerRef};

use crate::Ctx;

#[cfg(oxidd_verif)]
fn live_stores() -> i64 {
    oxidd_core::verif::LIVE_STORES.load(std::sync::atomic::Ordering::SeqCst)
}
#[cfg(not(oxidd_verif))]
fn live_stores() -> i64 {
    0
}

fn wait_for(baseline: i64, ms: u64) -> i64 {
    let t0 = std::time::Instant::now();
    loop {
        let l = live_stores();
        if l <= baseline || t0.elapsed().as_millis() as u64 > ms {
            return l;
        }
        std::thread::sleep(std::time::Duration::from_millis(2));
    }
}

/// Managers (with and without functions outliving the manager reference) must be freed after
/// the last reference is dropped, however short-lived they are.
pub fn lifecycle(ctx: &mut Ctx) {
    // small worker stacks: thousands of managers are created
    // SAFETY: single-threaded at this point
    unsafe { std::env::set_var("OXIDD_STACK_SIZE", "1048576") };
    let rounds = ctx.by_tier(300, 3000);
    let base = live_stores();
    let mut rng = ctx.rng(0xC19);
    for i in 0..rounds {
        let pattern = rng.below(4);
        let label = format!("lifecycle round={i} pattern={pattern}");
        if i % 64 == 0 {
            println!("@@{{\"t\":\"case\",\"case\":{}}}", crate::ctx::json_str(&label));
        }
        match pattern {
            0 => drop(oxidd::bdd::new_manager(64, 16, 1)), // dropped at once
            1 => {
                let m = oxidd::bcdd::new_manager(64, 16, 2);
                m.with_manager_exclusive(|m| {
                    oxidd::Manager::add_vars(m, 2);
                });
                let f = m.with_manager_shared(|m| oxidd::bcdd::BCDDFunction::var(m, 0).unwrap());
                drop(m); // the function keeps the manager alive
                let g = f.not().unwrap();
                drop(f);
                drop(g);
            }
            2 => {
                let m = oxidd::zbdd::new_manager(64, 16, 1);
                let m2 = m.clone();
                drop(m);
                drop(m2);
            }
            _ => {
                let m = oxidd::bdd::new_manager(64, 16, 1);
                let h = std::thread::spawn(move || drop(m));
                h.join().unwrap();
            }
        }
        ctx.eval();
        if i % 50 == 49 {
            let l = wait_for(base, 3000);
            if l > base {
                ctx.violation(
                    "lifecycle:manager-not-freed-after-last-reference",
                    format!("{} of {} managers still alive 3 s after their last reference was dropped (round {i})", l - base, i + 1),
                );
                return;
            }
            ctx.distinct(("lifecycle", i));
        }
    }
    ctx.count("managers_created_and_dropped", rounds as u64);
    ctx.sample(|| "create a manager and drop it at once / drop the ManagerRef before its functions / clone+drop / drop on another thread; LIVE_STORES must return to the baseline".into());
}

// =================================================================================================
// FFI monitors: the real `oxidd-ffi-c` sources (package `ffi_rlib`, built as an rlib) are called
// in-process through `extern "C"` declarations with `#[repr(C)]` mirrors of the C types.
// Compiled out for the pointer-based manager (the FFI package is built for the index manager).
// =================================================================================================

#[cfg(not(feature = "pointer"))]
pub use ffi::{c19_ffi, c19_ffi_enum};

#[cfg(not(feature = "pointer"))]
#[allow(non_camel_case_types, clippy::missing_safety_doc, dead_code)]
mod ffi {
    use std::collections::{BTreeSet, HashMap, HashSet};
    use std::ffi::{CString, c_char, c_void};
    use std::mem::{ManuallyDrop, MaybeUninit};
    use std::path::{Path, PathBuf};
    use std::ptr::{null, null_mut};
    use std::sync::Mutex;

    use oxidd::util::OptBool;
    use oxidd::{
        BooleanFunction, BooleanVecSet, Edge, Function, HasLevel, HasWorkers, Manager, ManagerRef, Node, NodeID,
        RawFunction, RawManagerRef, Subst,
    };
    use oxidd_core::function::INodeOfFunc;
    use oxidd_dump::dddmp::{self, DumpHeader};

    use super::{live_stores, wait_for};
    use crate::kinds::*;
    use crate::rng::Rng;
    use crate::tt::{ALL_BOPS, ALL_QUANTS, BOp, Quant, Tt};
    use crate::{Ctx, audit};

    // link the object code of the FFI crate
    extern crate oxidd_ffi_rlib;

    // ---------------------------------------------------------------------------------------------
    // C types (layouts copied from oxidd-ffi-c/src/{bdd,bcdd,zbdd}.rs, util/mod.rs, util/interop.rs,
    // util/dddmp.rs, util/num.rs)
    // ---------------------------------------------------------------------------------------------

    /// `oxidd_{bdd,bcdd,zbdd}_manager_t`
    #[repr(C)]
    #[derive(Clone, Copy, PartialEq, Eq, Hash, Debug)]
    pub struct CMgr {
        p: *const c_void,
    }
    /// `oxidd_{bdd,bcdd,zbdd}_t`
    #[repr(C)]
    #[derive(Clone, Copy, PartialEq, Eq, Hash, Debug)]
    pub struct CFn {
        p: *const c_void,
        i: usize,
    }
    const INVALID: CFn = CFn { p: null(), i: 0 };
    /// `oxidd_*_pair_t`
    #[repr(C)]
    pub struct CPair {
        first: CFn,
        second: CFn,
    }
    #[repr(C)]
    #[derive(Clone, Copy, Debug)]
    pub struct CRange {
        start: u32,
        end: u32,
    }
    #[repr(C)]
    #[derive(Clone, Copy, Debug)]
    pub struct CDup {
        added: CRange,
        present_var: u32,
    }
    #[repr(C)]
    #[derive(Clone, Copy)]
    pub struct CVarBool {
        var: u32,
        val: bool,
    }
    #[repr(C)]
    pub struct CAssign {
        data: *mut i8,
        len: usize,
    }
    #[repr(C)]
    pub struct CNat {
        ptr: *mut u64,
        len: u64,
        shl: u64,
    }
    /// `oxidd_str_t` (borrowed)
    #[repr(C)]
    #[derive(Clone, Copy)]
    pub struct CStrT {
        ptr: *const c_char,
        len: usize,
    }
    /// `oxidd_string_t` (owned)
    #[repr(C)]
    pub struct CStringT {
        data: *const c_char,
        len: usize,
        cap: usize,
    }
    #[repr(C)]
    pub struct CErr {
        msg: CStringT,
    }
    #[repr(C)]
    #[derive(Clone, Copy)]
    pub struct COpt<T: Copy> {
        is_some: bool,
        value: MaybeUninit<T>,
    }
    #[repr(C)]
    pub struct CSizeHint {
        lower: usize,
        upper: usize,
    }
    #[repr(C)]
    pub struct CIter<T: Copy> {
        next: extern "C" fn(*mut c_void) -> COpt<T>,
        size_hint: Option<extern "C" fn(*mut c_void) -> CSizeHint>,
        context: *mut c_void,
    }
    #[repr(C)]
    #[derive(Clone, Copy)]
    pub struct CNamed<T: Copy> {
        func: T,
        name: CStrT,
    }
    #[repr(C)]
    #[derive(Clone, Copy)]
    pub struct CSlice<T> {
        ptr: *const T,
        len: usize,
    }
    #[repr(C)]
    pub struct CDddmpSettings {
        version: u8,
        ascii: bool,
        strict: bool,
        diagram_name: CStrT,
    }

    type PoolCb = extern "C" fn(*mut c_void) -> *mut c_void;
    type NameCb = extern "C" fn(*mut c_void, *const c_char, usize) -> *mut c_void;

    // ---------------------------------------------------------------------------------------------
    // extern declarations, generated once per kind from one list
    // ---------------------------------------------------------------------------------------------

    macro_rules! lname {
        ($k:literal, $f:ident) => {
            concat!("oxidd_", $k, "_", stringify!($f))
        };
        ($k:literal, $f:ident, $l:literal) => {
            concat!("oxidd_", $k, "_", $l)
        };
    }
    macro_rules! def_struct {
        ($name:ident; $( $f:ident $(= $l:literal)? ( $($a:ident : $t:ty),* ) $(-> $r:ty)? ; )* ) => {
            pub struct $name { $( pub $f: unsafe extern "C" fn($($t),*) $(-> $r)?, )* }
        };
    }
    macro_rules! def_mod {
        ($m:ident $k:literal $st:ident; $( $f:ident $(= $l:literal)? ( $($a:ident : $t:ty),* ) $(-> $r:ty)? ; )* ) => {
            pub mod $m {
                use super::*;
                unsafe extern "C" {
                    $( #[link_name = lname!($k, $f $(, $l)?)] pub fn $f($($a: $t),*) $(-> $r)?; )*
                }
                pub static API: $st = $st { $( $f, )* };
            }
        };
    }
    macro_rules! common_fns {
        ($cb:ident; $($pre:tt)*) => { $cb!{ $($pre)*
            manager_new(inner: usize, cache: usize, threads: u32) -> CMgr;
            manager_ref(m: CMgr) -> CMgr;
            manager_unref(m: CMgr);
            ref_ = "ref"(f: CFn) -> CFn;
            unref(f: CFn);
            manager_run_in_worker_pool(m: CMgr, cb: PoolCb, data: *mut c_void) -> *mut c_void;
            containing_manager(f: CFn) -> CMgr;
            manager_num_inner_nodes(m: CMgr) -> usize;
            manager_approx_num_inner_nodes(m: CMgr) -> usize;
            manager_num_vars(m: CMgr) -> u32;
            manager_num_named_vars(m: CMgr) -> u32;
            manager_add_vars(m: CMgr, additional: u32) -> CRange;
            manager_add_named_vars(m: CMgr, names: *const *const c_char, count: u32) -> CDup;
            manager_add_named_vars_iter(m: CMgr, iter: CIter<CStrT>) -> CDup;
            manager_var_name(m: CMgr, var: u32, len: *mut usize) -> *const c_char;
            manager_with_var_name(m: CMgr, var: u32, cb: NameCb, data: *mut c_void) -> *mut c_void;
            manager_set_var_name(m: CMgr, var: u32, name: *const c_char, len: usize) -> u32;
            manager_name_to_var(m: CMgr, name: *const c_char, len: usize) -> u32;
            manager_var_to_level(m: CMgr, var: u32) -> u32;
            manager_level_to_var(m: CMgr, level: u32) -> u32;
            manager_gc(m: CMgr) -> usize;
            manager_gc_count(m: CMgr) -> u64;
            manager_set_var_order(m: CMgr, order: *const u32, len: usize);
            manager_import_dddmp(m: CMgr, file: *mut c_void, support_vars: *const u32, roots: *mut CFn, error: *mut CErr) -> bool;
            manager_export_dddmp(m: CMgr, path: *const c_char, path_len: usize, functions: *const CFn, num: usize, names: *const *const c_char, settings: *const CDddmpSettings, error: *mut CErr) -> bool;
            manager_export_dddmp_iter(m: CMgr, path: *const c_char, path_len: usize, functions: CIter<CFn>, settings: *const CDddmpSettings, error: *mut CErr) -> bool;
            manager_export_dddmp_with_names_iter(m: CMgr, path: *const c_char, path_len: usize, functions: CIter<CNamed<CFn>>, settings: *const CDddmpSettings, error: *mut CErr) -> bool;
            manager_visualize(m: CMgr, name: *const c_char, name_len: usize, functions: *const CFn, num: usize, names: *const *const c_char, port: u16, error: *mut CErr) -> bool;
            manager_visualize_iter(m: CMgr, name: *const c_char, name_len: usize, functions: CIter<CFn>, port: u16, error: *mut CErr) -> bool;
            manager_visualize_with_names_iter(m: CMgr, name: *const c_char, name_len: usize, functions: CIter<CNamed<CFn>>, port: u16, error: *mut CErr) -> bool;
            manager_dump_all_dot_path(m: CMgr, path: *const c_char, path_len: usize, functions: *const CFn, names: *const *const c_char, num: usize, error: *mut CErr) -> bool;
            manager_dump_all_dot_path_iter(m: CMgr, path: *const c_char, path_len: usize, functions: CIter<CNamed<CFn>>, error: *mut CErr) -> bool;
            var(m: CMgr, v: u32) -> CFn;
            not_var(m: CMgr, v: u32) -> CFn;
            false_ = "false"(m: CMgr) -> CFn;
            true_ = "true"(m: CMgr) -> CFn;
            cofactors(f: CFn) -> CPair;
            cofactor_true(f: CFn) -> CFn;
            cofactor_false(f: CFn) -> CFn;
            node_level(f: CFn) -> u32;
            node_var(f: CFn) -> u32;
            not(f: CFn) -> CFn;
            and(a: CFn, b: CFn) -> CFn;
            or(a: CFn, b: CFn) -> CFn;
            nand(a: CFn, b: CFn) -> CFn;
            nor(a: CFn, b: CFn) -> CFn;
            xor(a: CFn, b: CFn) -> CFn;
            equiv(a: CFn, b: CFn) -> CFn;
            imp(a: CFn, b: CFn) -> CFn;
            imp_strict(a: CFn, b: CFn) -> CFn;
            ite(a: CFn, b: CFn, c: CFn) -> CFn;
            node_count(f: CFn) -> usize;
            satisfiable(f: CFn) -> bool;
            valid(f: CFn) -> bool;
            sat_count(f: CFn, vars: u32) -> CNat;
            sat_count_double(f: CFn, vars: u32) -> f64;
            pick_cube(f: CFn) -> CAssign;
            pick_cube_dd(f: CFn) -> CFn;
            pick_cube_dd_set(f: CFn, lits: CFn) -> CFn;
            eval(f: CFn, args: *const CVarBool, n: usize) -> bool;
            print_stats();
        }};
    }
    macro_rules! quant_fns {
        ($cb:ident; $($pre:tt)*) => { $cb!{ $($pre)*
            substitute(f: CFn, s: *const c_void) -> CFn;
            substitution_new(capacity: usize) -> *mut c_void;
            substitution_add_pair(s: *mut c_void, var: u32, replacement: CFn);
            substitution_free(s: *mut c_void);
            restrict(f: CFn, vars: CFn) -> CFn;
            forall(f: CFn, vars: CFn) -> CFn;
            exists(f: CFn, vars: CFn) -> CFn;
            unique(f: CFn, vars: CFn) -> CFn;
            apply_forall(op: u8, a: CFn, b: CFn, vars: CFn) -> CFn;
            apply_exists(op: u8, a: CFn, b: CFn, vars: CFn) -> CFn;
            apply_unique(op: u8, a: CFn, b: CFn, vars: CFn) -> CFn;
        }};
    }
    macro_rules! zbdd_fns {
        ($cb:ident; $($pre:tt)*) => { $cb!{ $($pre)*
            singleton(m: CMgr, v: u32) -> CFn;
            make_node(var: CFn, hi: CFn, lo: CFn) -> CFn;
            empty(m: CMgr) -> CFn;
            base(m: CMgr) -> CFn;
            subset0(f: CFn, v: u32) -> CFn;
            subset1(f: CFn, v: u32) -> CFn;
            change(f: CFn, v: u32) -> CFn;
            union_ = "union"(a: CFn, b: CFn) -> CFn;
            intsec(a: CFn, b: CFn) -> CFn;
            diff(a: CFn, b: CFn) -> CFn;
        }};
    }
    common_fns!(def_struct; CommonApi;);
    quant_fns!(def_struct; QuantApi;);
    zbdd_fns!(def_struct; ZbddApi;);
    common_fns!(def_mod; bdd_c "bdd" CommonApi;);
    common_fns!(def_mod; bcdd_c "bcdd" CommonApi;);
    common_fns!(def_mod; zbdd_c "zbdd" CommonApi;);
    quant_fns!(def_mod; bdd_q "bdd" QuantApi;);
    quant_fns!(def_mod; bcdd_q "bcdd" QuantApi;);
    zbdd_fns!(def_mod; zbdd_z "zbdd" ZbddApi;);

    // kind-independent entry points (util/mod.rs, util/interop.rs, util/num.rs, util/dddmp.rs)
    unsafe extern "C" {
        fn oxidd_error_clone(e: *const CErr) -> CErr;
        fn oxidd_error_free(e: CErr);
        fn oxidd_assignment_free(a: CAssign);
        fn oxidd_string_clone(s: *const CStringT) -> CStringT;
        fn oxidd_string_free(s: CStringT);
        fn oxidd_natural_free(n: CNat);
        fn oxidd_natural_eq(a: *const CNat, b: *const CNat) -> bool;
        fn oxidd_natural_cmp(a: *const CNat, b: *const CNat) -> i8;
        fn oxidd_natural_to_string(n: *const CNat) -> CStringT;
        fn oxidd_natural_clone(n: *const CNat) -> CNat;
        fn oxidd_dddmp_open(path: *const c_char, path_len: usize, error: *mut CErr) -> *mut c_void;
        fn oxidd_dddmp_close(file: *mut c_void);
        fn oxidd_dddmp_diagram_name(file: *const c_void) -> CStrT;
        fn oxidd_dddmp_num_nodes(file: *const c_void) -> usize;
        fn oxidd_dddmp_num_vars(file: *const c_void) -> u32;
        fn oxidd_dddmp_num_support_vars(file: *const c_void) -> u32;
        fn oxidd_dddmp_support_vars(file: *const c_void) -> CSlice<u32>;
        fn oxidd_dddmp_support_var_order(file: *const c_void) -> CSlice<u32>;
        fn oxidd_dddmp_support_var_to_level(file: *const c_void) -> CSlice<u32>;
        fn oxidd_dddmp_has_var_names(file: *const c_void) -> bool;
        fn oxidd_dddmp_var_name(file: *const c_void, i: u32) -> CStrT;
        fn oxidd_dddmp_num_roots(file: *const c_void) -> usize;
        fn oxidd_dddmp_has_root_names(file: *const c_void) -> bool;
        fn oxidd_dddmp_root_name(file: *const c_void, i: usize) -> CStrT;
        // libc
        fn free(p: *mut c_void);
    }

    // ---------------------------------------------------------------------------------------------
    // small helpers around the C types
    // ---------------------------------------------------------------------------------------------

    /// every `oxidd_*` symbol called at least once in this process
    static COVERED: Mutex<BTreeSet<String>> = Mutex::new(BTreeSet::new());
    fn cover(name: &str) {
        COVERED.lock().unwrap().insert(name.to_string());
    }

    struct SendPtr<T>(T);
    unsafe impl<T> Send for SendPtr<T> {}

    unsafe fn str_of(s: CStrT) -> String {
        if s.ptr.is_null() || s.len == 0 {
            return String::new();
        }
        String::from_utf8_lossy(unsafe { std::slice::from_raw_parts(s.ptr.cast::<u8>(), s.len) }).into_owned()
    }
    unsafe fn string_of(s: &CStringT) -> String {
        if s.data.is_null() {
            return "<null>".into();
        }
        String::from_utf8_lossy(unsafe { std::slice::from_raw_parts(s.data.cast::<u8>(), s.len) }).into_owned()
    }
    fn strt(s: &str) -> CStrT {
        CStrT { ptr: s.as_ptr().cast(), len: s.len() }
    }

    const POISON_LEN: usize = 0xDEAD_0001;
    /// an error slot the callee must overwrite ("guaranteed to be initialized on return")
    fn poison_err() -> CErr {
        CErr { msg: CStringT { data: 1 as *const c_char, len: POISON_LEN, cap: 0 } }
    }
    /// (initialized?, message); frees the error (also exercises oxidd_error_clone)
    unsafe fn take_err(e: CErr) -> (bool, String) {
        if e.msg.len == POISON_LEN {
            return (false, String::new());
        }
        let msg = unsafe { string_of(&e.msg) };
        let c = unsafe { oxidd_error_clone(&e) };
        cover("oxidd_error_clone");
        let msg2 = unsafe { string_of(&c.msg) };
        unsafe { oxidd_error_free(c) };
        unsafe { oxidd_error_free(e) };
        cover("oxidd_error_free");
        if msg2 != msg {
            return (true, format!("<error clone differs: {msg:?} vs {msg2:?}>"));
        }
        (true, msg)
    }

    struct IterCtx<T: Copy> {
        items: Vec<T>,
        pos: usize,
    }
    extern "C" fn iter_next<T: Copy>(ctx: *mut c_void) -> COpt<T> {
        let c = unsafe { &mut *(ctx as *mut IterCtx<T>) };
        if c.pos < c.items.len() {
            c.pos += 1;
            COpt { is_some: true, value: MaybeUninit::new(c.items[c.pos - 1]) }
        } else {
            COpt { is_some: false, value: MaybeUninit::uninit() }
        }
    }
    extern "C" fn iter_hint<T: Copy>(ctx: *mut c_void) -> CSizeHint {
        let c = unsafe { &*(ctx as *mut IterCtx<T>) };
        let r = c.items.len() - c.pos;
        CSizeHint { lower: r, upper: r }
    }
    fn c_iter<T: Copy>(ctx: &mut IterCtx<T>, with_hint: bool) -> CIter<T> {
        CIter {
            next: iter_next::<T>,
            size_hint: if with_hint { Some(iter_hint::<T>) } else { None },
            context: (ctx as *mut IterCtx<T>).cast(),
        }
    }

    /// value of a `natural_t` if it is stored inline and fits u128
    fn nat_small(n: &CNat) -> Option<u128> {
        if !n.ptr.is_null() || n.shl == u64::MAX || n.shl > 60 {
            return None;
        }
        Some((n.len as u128) << n.shl)
    }

    #[derive(Debug, Clone)]
    pub struct DumpInfo {
        nvars: u32,
        nroots: usize,
        nnodes: usize,
        support_vars: Vec<u32>,
        root_names: Option<Vec<String>>,
        var_names: Option<Vec<String>>,
        diagram_name: Option<String>,
    }

    #[derive(Clone, Copy, Debug, PartialEq, Eq, Hash)]
    pub enum ZOp {
        Singleton,
        Subset0,
        Subset1,
        Change,
        Union,
        Intsec,
        Diff,
        MakeNode,
        Empty,
        Base,
    }

    // ---------------------------------------------------------------------------------------------
    // kinds
    // ---------------------------------------------------------------------------------------------

    pub trait FfiKind: BoolKind {
        fn api() -> &'static CommonApi;
        fn qapi() -> Option<&'static QuantApi> {
            None
        }
        fn zapi() -> Option<&'static ZbddApi> {
            None
        }
        /// view a C manager handle as the Rust manager reference it was made from (no count change)
        unsafe fn mgr_of(c: CMgr) -> ManuallyDrop<MRefOf<Self>>;
        /// view a C function handle as the Rust function it was made from (no count change)
        unsafe fn func_of(c: CFn) -> ManuallyDrop<Self::F>;
        /// `oxidd_dump` import of a DDDMP file into `mref` (identity variable mapping)
        fn import_file(mref: &MRefOf<Self>, path: &Path) -> Result<(Vec<Self::F>, DumpInfo), String>;
        /// `oxidd_dump` export of `roots` (Rust side) with the settings the C call was given
        fn export_bytes(mref: &MRefOf<Self>, roots: &[Self::F], names: Option<&[String]>, settings: Option<(u8, bool, &str)>) -> Result<Vec<u8>, String>;
        /// Rust API counterpart of the ZBDD-only entry points
        fn z_mirror(_op: ZOp, _m: &MRefOf<Self>, _a: &[Self::F], _v: u32) -> Self::F {
            unreachable!()
        }
    }

    macro_rules! impl_ffikind {
        ($K:ty, $api:expr, $q:expr, $z:expr, $MR:ty, $F:ty $(, $zm:item)?) => {
            impl FfiKind for $K {
                fn api() -> &'static CommonApi {
                    $api
                }
                fn qapi() -> Option<&'static QuantApi> {
                    $q
                }
                fn zapi() -> Option<&'static ZbddApi> {
                    $z
                }
                unsafe fn mgr_of(c: CMgr) -> ManuallyDrop<$MR> {
                    ManuallyDrop::new(unsafe { <$MR as RawManagerRef>::from_raw(c.p) })
                }
                unsafe fn func_of(c: CFn) -> ManuallyDrop<$F> {
                    ManuallyDrop::new(unsafe { <$F as RawFunction>::from_raw(c.p, c.i) })
                }
                fn import_file(mref: &$MR, path: &Path) -> Result<(Vec<$F>, DumpInfo), String> {
                    let file = std::fs::File::open(path).map_err(|e| format!("open: {e}"))?;
                    let mut reader = std::io::BufReader::new(file);
                    let header = DumpHeader::load(&mut reader).map_err(|e| format!("DumpHeader::load: {e}"))?;
                    let sv: Vec<u32> = header.support_vars().to_vec();
                    let fs = mref
                        .with_manager_shared(|m| {
                            dddmp::import::<$F>(&mut reader, &header, m, sv.iter().copied(), <$F as BooleanFunction>::not_edge_owned)
                        })
                        .map_err(|e| format!("import: {e}"))?;
                    let info = DumpInfo {
                        nvars: header.num_vars(),
                        nroots: header.num_roots(),
                        nnodes: header.num_nodes(),
                        support_vars: sv,
                        root_names: header.root_names().map(|x| x.to_vec()),
                        var_names: header.var_names().map(|x| x.to_vec()),
                        diagram_name: header.diagram_name().map(String::from),
                    };
                    Ok((fs, info))
                }
                fn export_bytes(mref: &$MR, roots: &[$F], names: Option<&[String]>, settings: Option<(u8, bool, &str)>) -> Result<Vec<u8>, String> {
                    let mut set = dddmp::ExportSettings::default();
                    if let Some((version, ascii, dname)) = settings {
                        if ascii {
                            set = set.ascii();
                        }
                        set = set
                            .version(if version == 0 { dddmp::DDDMPVersion::V2_0 } else { dddmp::DDDMPVersion::V3_0 })
                            .strict(false)
                            .diagram_name(dname);
                    }
                    let mut buf: Vec<u8> = Vec::new();
                    mref.with_manager_shared(|m| match names {
                        None => set.export(&mut buf, m, roots.iter()),
                        Some(ns) => set.export_with_names(&mut buf, m, roots.iter().zip(ns.iter().map(|n| n.as_str()))),
                    })
                    .map_err(|e| e.to_string())?;
                    Ok(buf)
                }
                $($zm)?
            }
        };
    }
    impl_ffikind!(Bdd, &bdd_c::API, Some(&bdd_q::API), None, oxidd::bdd::BDDManagerRef, oxidd::bdd::BDDFunction);
    impl_ffikind!(Bcdd, &bcdd_c::API, Some(&bcdd_q::API), None, oxidd::bcdd::BCDDManagerRef, oxidd::bcdd::BCDDFunction);
    impl_ffikind!(
        Zbdd,
        &zbdd_c::API,
        None,
        Some(&zbdd_z::API),
        oxidd::zbdd::ZBDDManagerRef,
        oxidd::zbdd::ZBDDFunction,
        fn z_mirror(op: ZOp, mref: &oxidd::zbdd::ZBDDManagerRef, a: &[oxidd::zbdd::ZBDDFunction], v: u32) -> oxidd::zbdd::ZBDDFunction {
            use oxidd::zbdd::ZBDDFunction as ZF;
            match op {
                ZOp::Singleton => mref.with_manager_shared(|m| ZF::singleton(m, v)).unwrap(),
                ZOp::Empty => mref.with_manager_shared(|m| ZF::empty(m)),
                ZOp::Base => mref.with_manager_shared(|m| ZF::base(m)),
                ZOp::Subset0 => a[0].subset0(v).unwrap(),
                ZOp::Subset1 => a[0].subset1(v).unwrap(),
                ZOp::Change => a[0].change(v).unwrap(),
                ZOp::Union => a[0].union(&a[1]).unwrap(),
                ZOp::Intsec => a[0].intsec(&a[1]).unwrap(),
                ZOp::Diff => a[0].diff(&a[1]).unwrap(),
                ZOp::MakeNode => a[0].with_manager_shared(|m, ve| {
                    let hi = m.clone_edge(a[1].as_edge(m));
                    let lo = m.clone_edge(a[2].as_edge(m));
                    let e = oxidd::zbdd::make_node(m, ve, hi, lo).unwrap();
                    ZF::from_edge(m, e)
                }),
            }
        }
    );

    // ---------------------------------------------------------------------------------------------
    // a session: one C manager, its mirror on the Rust API, and the ownership model
    // ---------------------------------------------------------------------------------------------

    struct Ent<K: FfiKind> {
        /// serial number used in the call log ("h7")
        id: u32,
        c: CFn,
        /// references the harness owns through this handle (0 for invalid handles)
        owned: u32,
        /// mirror on the Rust manager; `None` iff `c` is invalid
        r: Option<K::F>,
        /// truth table at admission (refreshed when the variable set / order changes)
        tt: Option<Tt>,
        /// conjunction of literals / of positive literals (usable as `vars` operand)
        cube: bool,
        pos_cube: bool,
    }

    struct SubSt<K: FfiKind> {
        c: *mut c_void,
        vars: Vec<u32>,
        /// C handles whose node the substitution holds one reference to
        holds: Vec<CFn>,
        repl: Vec<K::F>,
        used: bool,
    }

    struct Sess<K: FfiKind> {
        cm: CMgr,
        /// manager references owned by the harness (function handles hold their own)
        mgr_refs: u32,
        rm: Option<MRefOf<K>>,
        ents: Vec<Ent<K>>,
        subs: Vec<SubSt<K>>,
        log: Vec<String>,
        next_id: u32,
        nvars: u32,
        /// tiny node capacity on the C side: operations may run out of memory
        small: bool,
        cfg: String,
        /// independent model of the variable names
        names: Vec<String>,
        identity_order: bool,
        base_live: i64,
        dir: PathBuf,
        file_no: u32,
        /// handles already owned by the caller but not yet registered in `ents` (multi-result calls)
        pending: Vec<CFn>,
        /// a call after which terminal operands may have been leaked / over-released (not visible in node counts)
        suspect: Option<String>,
        trace: bool,
        explicit_gcs: u64,
        /// switched off after the first ownership violation of a session (everything after it is a consequence)
        audits: std::cell::Cell<bool>,
    }

    fn fq<K: FfiKind>(f: &str) -> String {
        format!("oxidd_{}_{f}", K::NAME)
    }

    fn tmp_dir() -> PathBuf {
        let d = PathBuf::from(format!("/tmp/ag19-{}", std::process::id()));
        let _ = std::fs::create_dir_all(&d);
        d
    }

    impl<K: FfiKind> Sess<K>
    where
        for<'id> MgrOf<'id, K>: HasWorkers,
        for<'x> INodeOfFunc<'x, K::F>: HasLevel,
    {
        fn new(ctx: &mut Ctx, nvars: u32, cap: usize, small: bool, threads: u32, label: &str) -> Self {
            let api = K::api();
            let base_live = live_stores();
            let cm = unsafe { (api.manager_new)(cap, 1 << 10, threads) };
            cover(&fq::<K>("manager_new"));
            let rm = K::new_manager(1 << 14, 1 << 10, threads);
            let mut s = Sess {
                cm,
                mgr_refs: 1,
                rm: Some(rm),
                ents: Vec::new(),
                subs: Vec::new(),
                log: Vec::new(),
                next_id: 1,
                nvars: 0,
                small,
                cfg: format!("{} {label}: oxidd_{}_manager_new({cap}, 1024, {threads})", K::NAME, K::NAME),
                names: Vec::new(),
                identity_order: true,
                base_live,
                dir: tmp_dir(),
                file_no: 0,
                pending: Vec::new(),
                suspect: None,
                trace: std::env::var_os("VH_C19_TRACE").is_some(),
                explicit_gcs: 0,
                audits: std::cell::Cell::new(true),
            };
            ctx.eval();
            if cm.p.is_null() {
                s.viol(ctx, "null-manager-returned", "manager_new", String::new());
            }
            // entry 0: the invalid handle (documented representation: `_p == NULL`)
            s.ents.push(Ent { id: 0, c: INVALID, owned: 0, r: None, tt: None, cube: false, pos_cube: false });
            if nvars > 0 {
                s.add_vars(ctx, nvars);
            }
            s
        }

        /// append to the call log (echoed to stderr with VH_C19_TRACE=1: the log of an aborting run)
        fn logp(&mut self, line: String) {
            if self.trace {
                eprintln!("[c19] {line}");
            }
            self.log.push(line);
        }

        fn rm(&self) -> &MRefOf<K> {
            self.rm.as_ref().unwrap()
        }

        fn witness(&self, detail: &str) -> String {
            let skip = self.log.len().saturating_sub(40);
            let mut w = format!("{} ; ", self.cfg);
            if skip > 0 {
                w.push_str(&format!("[{skip} earlier calls] ; "));
            }
            w.push_str(&self.log[skip..].join(" ; "));
            w.push_str(" => ");
            w.push_str(detail);
            w
        }
        fn viol(&self, ctx: &mut Ctx, clause: &str, fname: &str, detail: String) {
            let sig = format!("{}:ffi:{clause}:{fname}", K::NAME);
            ctx.violation(&sig, self.witness(&detail));
        }
        /// one C call: coverage + evidence
        fn called(&self, ctx: &mut Ctx, fname: &str, shape: &str) {
            cover(&fq::<K>(fname));
            ctx.count("ffi_calls", 1);
            ctx.distinct((K::NAME, fname.to_string(), shape.to_string()));
        }
        fn hname(&self, i: usize) -> String {
            let e = &self.ents[i];
            if e.id == 0 { "INVALID".into() } else if e.c.p.is_null() { format!("h{}(invalid)", e.id) } else { format!("h{}", e.id) }
        }
        /// I = invalid, T = terminal, N = inner node
        fn shape1(&self, i: usize) -> char {
            match &self.ents[i].r {
                None => 'I',
                Some(f) => {
                    if f.with_manager_shared(|m, e| matches!(m.get_node(e), Node::Terminal(_))) { 'T' } else { 'N' }
                }
            }
        }
        fn shape(&self, ops: &[usize]) -> String {
            let mut s = String::new();
            for (k, &i) in ops.iter().enumerate() {
                if ops[..k].contains(&i) {
                    s.push('=');
                }
                s.push(self.shape1(i));
            }
            s
        }

        /// truth table of a valid C handle through `oxidd_*_eval`
        fn c_table(&self, c: CFn) -> Tt {
            let n = self.nvars;
            let eval = K::api().eval;
            cover(&fq::<K>("eval"));
            Tt::from_fn(n, |a| {
                let args: Vec<CVarBool> = (0..n).map(|v| CVarBool { var: v, val: (a >> v) & 1 == 1 }).collect();
                unsafe { eval(c, args.as_ptr(), args.len()) }
            })
        }

        /// exact reference-count audit of the C manager against the ownership model
        fn audit(&self, ctx: &mut Ctx, fname: &str) {
            if !self.audits.get() {
                return;
            }
            let m = unsafe { K::mgr_of(self.cm) };
            let s = m.with_manager_exclusive(|m| audit::structural(&*m, K::rule(), &|t| K::SEM == Sem::ZeroSup && !K::term(t)));
            let mut ext: HashMap<NodeID, usize> = HashMap::new();
            let mut term_ids: HashSet<NodeID> = HashSet::new();
            m.with_manager_shared(|mm| {
                let f = K::F::f(mm);
                let t = K::F::t(mm);
                term_ids.insert(f.as_edge(mm).node_id());
                let mut id = t.as_edge(mm).node_id();
                while let Some((_, ch)) = s.node_children.get(&id) {
                    // ZBDD tautology chain: one reference each held by the manager
                    *ext.entry(id).or_insert(0) += 1;
                    id = ch[0].0;
                }
                term_ids.insert(id);
            });
            ctx.count("refcount_audits", 1);
            ctx.eval();
            let add = |c: CFn, n: usize, what: String, ext: &mut HashMap<NodeID, usize>, ctx: &mut Ctx| {
                let id = unsafe { K::func_of(c) }.with_manager_shared(|_, e| e.node_id());
                if s.node_children.contains_key(&id) {
                    *ext.entry(id).or_insert(0) += n;
                } else if !term_ids.contains(&id) {
                    self.viol(ctx, "handle-to-freed-node-after", fname, format!("{what} (node id {id}) is owned by the caller but its node is not stored in the manager any more"));
                    self.audits.set(false);
                }
            };
            for (i, e) in self.ents.iter().enumerate() {
                if !e.c.p.is_null() && e.owned > 0 {
                    add(e.c, e.owned as usize, self.hname(i), &mut ext, ctx);
                }
            }
            for h in &self.pending {
                if !h.p.is_null() {
                    add(*h, 1, "pending result".into(), &mut ext, ctx);
                }
            }
            for sb in &self.subs {
                for h in &sb.holds {
                    add(*h, 1, "substitution replacement".into(), &mut ext, ctx);
                }
            }
            let errs = audit::refcounts(&s, &ext);
            if let Some((clause, detail)) = errs.first() {
                let owned: Vec<String> = (1..self.ents.len()).filter(|&i| self.ents[i].owned > 0).map(|i| format!("{}x{}", self.hname(i), self.ents[i].owned)).collect();
                self.viol(ctx, &format!("{clause}-after"), fname, format!("{detail} ({} inexact nodes; references owned by the caller: {owned:?})", errs.len()));
                self.audits.set(false);
            }
            let live = live_stores();
            if cfg!(oxidd_verif) && live < self.base_live + 1 + self.rm.is_some() as i64 {
                self.viol(ctx, "manager-freed-early-after", fname, format!("LIVE_STORES {live}, baseline {} + C manager + mirror", self.base_live));
            }
        }

        /// Register the handle returned by `fname(ops…)`; `rust` computes the mirror result from the
        /// operands' mirrors (`None` = the docs promise an invalid handle). Returns the entry index.
        fn admit(&mut self, ctx: &mut Ctx, fname: &str, ops: &[usize], extra: &str, c: CFn, rust: impl FnOnce(&[K::F]) -> Option<K::F>) -> usize {
            let shape = self.shape(ops);
            self.called(ctx, fname, &shape);
            let all_valid = ops.iter().all(|&i| self.ents[i].r.is_some());
            let exp = if all_valid {
                let rs: Vec<K::F> = ops.iter().map(|&i| self.ents[i].r.clone().unwrap()).collect();
                rust(&rs)
            } else {
                None
            };
            let id = self.next_id;
            self.next_id += 1;
            let args: Vec<String> = ops.iter().map(|&i| self.hname(i)).collect();
            let valid = !c.p.is_null();
            self.logp(format!(
                "h{id}{} = {}({}{}{extra})",
                if valid { "" } else { "(invalid)" },
                fq::<K>(fname),
                args.join(", "),
                if !args.is_empty() && !extra.is_empty() { ", " } else { "" }
            ));
            let mut ent = Ent { id, c, owned: valid as u32, r: None, tt: None, cube: false, pos_cube: false };
            ctx.eval();
            match (valid, exp) {
                (false, None) => ctx.count("invalid_handles_returned", 1),
                (false, Some(_)) => {
                    if self.small {
                        ctx.count("invalid_handles_returned", 1);
                        ctx.count("out_of_memory_results", 1);
                    } else {
                        self.viol(ctx, "unexpected-invalid-result", fname, format!("operands {shape}: invalid handle although the Rust API succeeds and the capacity is ample"));
                    }
                }
                (true, None) => {
                    let clause = if all_valid { "valid-result-where-invalid-documented" } else { "invalid-operand-not-propagated" };
                    self.viol(ctx, clause, fname, format!("operands {shape}: got a valid handle {c:?}"));
                    // keep the books balanced: give the unexpected reference back
                    unsafe { (K::api().unref)(c) };
                    ent.c = INVALID;
                    ent.owned = 0;
                }
                (true, Some(r)) => {
                    let ct = self.c_table(c);
                    let rt = interp_tt::<K>(&r);
                    ctx.eval();
                    if ct != rt {
                        self.viol(ctx, "result-differs-from-rust", fname, format!("operands {shape}: C result denotes {ct}, Rust result {rt}"));
                    }
                    let cn = unsafe { (K::api().node_count)(c) };
                    cover(&fq::<K>("node_count"));
                    let rn = r.node_count();
                    ctx.eval();
                    if cn != rn {
                        self.viol(ctx, "node_count-differs-from-rust", fname, format!("result {ct}: oxidd_{}_node_count {cn}, Rust {rn}", K::NAME));
                    }
                    ent.tt = Some(ct);
                    ent.r = Some(r);
                }
            }
            self.ents.push(ent);
            self.audit(ctx, fname);
            self.check_operands(ctx, fname, ops);
            self.ents.len() - 1
        }

        /// operands are not consumed and still denote what they denoted
        fn check_operands(&self, ctx: &mut Ctx, fname: &str, ops: &[usize]) {
            for &i in ops {
                if let Some(tt) = &self.ents[i].tt {
                    if self.ents[i].owned == 0 {
                        continue; // consumed by documented ownership transfer
                    }
                    ctx.eval();
                    let now = self.c_table(self.ents[i].c);
                    if now != *tt {
                        self.viol(ctx, "operand-changed-by", fname, format!("{} denoted {tt}, now {now}", self.hname(i)));
                    }
                }
            }
        }

        /// recompute every table from both sides (after add_vars / set_var_order) and compare
        fn refresh_tables(&mut self, ctx: &mut Ctx, fname: &str, must_be_unchanged: bool) {
            for i in 1..self.ents.len() {
                let Some(r) = self.ents[i].r.clone() else { continue };
                let ct = self.c_table(self.ents[i].c);
                let rt = interp_tt::<K>(&r);
                ctx.eval();
                if ct != rt {
                    self.viol(ctx, "handle-differs-from-rust-after", fname, format!("{}: C handle denotes {ct}, Rust mirror {rt}", self.hname(i)));
                }
                if must_be_unchanged && K::SEM != Sem::ZeroSup {
                    if let Some(old) = &self.ents[i].tt {
                        if *old != ct {
                            self.viol(ctx, "handle-changed-function-after", fname, format!("{}: denoted {old}, now {ct}", self.hname(i)));
                        }
                    }
                }
                self.ents[i].tt = Some(ct);
            }
        }

        // ------------------------------------------------------------------ manager-level calls

        fn add_vars(&mut self, ctx: &mut Ctx, k: u32) {
            let r = unsafe { (K::api().manager_add_vars)(self.cm, k) };
            self.called(ctx, "manager_add_vars", &k.to_string());
            self.logp(format!("{}(m, {k})", fq::<K>("manager_add_vars")));
            let rr = self.rm().with_manager_exclusive(|m| m.add_vars(k));
            ctx.eval();
            if (r.start, r.end) != (self.nvars, self.nvars + k) || (r.start, r.end) != (rr.start, rr.end) {
                self.viol(ctx, "result-differs-from-rust", "manager_add_vars", format!("returned {r:?}, Rust {rr:?}, expected {}..{}", self.nvars, self.nvars + k));
            }
            self.nvars += k;
            for _ in 0..k {
                self.names.push(String::new());
            }
            self.refresh_tables(ctx, "manager_add_vars", false);
            self.audit(ctx, "manager_add_vars");
        }

        /// model of `add_named_vars`: (first new var, number added, present_var)
        fn model_add_named(&mut self, names: &[String]) -> (u32, u32, u32) {
            let start = self.names.len() as u32;
            let mut added = 0;
            for n in names {
                if !n.is_empty() {
                    if let Some(p) = self.names.iter().position(|x| x == n) {
                        return (start, added, p as u32);
                    }
                }
                self.names.push(n.clone());
                added += 1;
            }
            (start, added, u32::MAX)
        }

        /// `variant`: 0 = array of C strings, 1 = iterator with size hint, 2 = iterator without,
        /// 3 = `names == NULL` (documented: same as add_vars)
        fn add_named_vars(&mut self, ctx: &mut Ctx, names: &[String], variant: u8) {
            let api = K::api();
            let cs: Vec<CString> = names.iter().map(|n| CString::new(n.as_str()).unwrap()).collect();
            let (fname, res) = match variant {
                0 => {
                    // empty names are passed as NULL or "" alternately
                    let ptrs: Vec<*const c_char> = cs.iter().enumerate().map(|(i, c)| if names[i].is_empty() && i % 2 == 0 { null() } else { c.as_ptr() }).collect();
                    ("manager_add_named_vars", unsafe { (api.manager_add_named_vars)(self.cm, ptrs.as_ptr(), ptrs.len() as u32) })
                }
                3 => ("manager_add_named_vars", unsafe { (api.manager_add_named_vars)(self.cm, null(), names.len() as u32) }),
                v => {
                    let mut ic = IterCtx { items: names.iter().map(|n| strt(n)).collect::<Vec<CStrT>>(), pos: 0 };
                    let it = c_iter(&mut ic, v == 1);
                    ("manager_add_named_vars_iter", unsafe { (api.manager_add_named_vars_iter)(self.cm, it) })
                }
            };
            self.called(ctx, fname, &format!("v{variant} n{}", names.len()));
            self.logp(format!("{}(m, {:?}{})", fq::<K>(fname), names, if variant == 3 { " passed as NULL" } else { "" }));
            let eff: Vec<String> = if variant == 3 { names.iter().map(|_| String::new()).collect() } else { names.to_vec() };
            let (start, added, present) = self.model_add_named(&eff);
            let rr = self.rm().with_manager_exclusive(|m| m.add_named_vars(eff.iter().cloned()));
            let (rs, re, rp) = match &rr {
                Ok(r) => (r.start, r.end, u32::MAX),
                Err(e) => (e.added_vars.start, e.added_vars.end, e.present_var),
            };
            ctx.eval();
            if (res.added.start, res.added.end, res.present_var) != (start, start + added, present) || (rs, re, rp) != (start, start + added, present) {
                self.viol(ctx, "result-differs-from-rust", fname, format!("C returned {res:?}, Rust ({rs}..{re}, {rp}), model ({start}..{}, {present})", start + added));
            }
            self.nvars += added;
            self.refresh_tables(ctx, fname, false);
            self.check_names(ctx, fname);
            self.audit(ctx, fname);
        }

        fn set_var_name(&mut self, ctx: &mut Ctx, v: u32, name: &str) {
            let api = K::api();
            let ptr = if name.is_empty() { null() } else { name.as_ptr().cast::<c_char>() };
            let res = unsafe { (api.manager_set_var_name)(self.cm, v, ptr, name.len()) };
            self.called(ctx, "manager_set_var_name", if name.is_empty() { "empty" } else { "name" });
            self.logp(format!("{}(m, {v}, {name:?})", fq::<K>("manager_set_var_name")));
            let other = if name.is_empty() { None } else { self.names.iter().position(|x| x == name).filter(|&p| p != v as usize) };
            let want = match other {
                Some(p) => p as u32,
                None => {
                    self.names[v as usize] = name.to_string();
                    u32::MAX
                }
            };
            let rr = self.rm().with_manager_exclusive(|m| m.set_var_name(v, name)).map_or_else(|e| e.present_var, |_| u32::MAX);
            ctx.eval();
            if res != want || rr != want {
                self.viol(ctx, "result-differs-from-rust", "manager_set_var_name", format!("C returned {res}, Rust {rr}, model {want}"));
            }
            self.check_names(ctx, "manager_set_var_name");
        }

        /// var_name / with_var_name / name_to_var / num_named_vars against the model and the mirror
        fn check_names(&mut self, ctx: &mut Ctx, after: &str) {
            let api = K::api();
            extern "C" fn grab(data: *mut c_void, p: *const c_char, len: usize) -> *mut c_void {
                let out = unsafe { &mut *(data as *mut Option<String>) };
                *out = Some(if len == 0 { String::new() } else { String::from_utf8_lossy(unsafe { std::slice::from_raw_parts(p.cast::<u8>(), len) }).into_owned() });
                data
            }
            let nn = unsafe { (api.manager_num_named_vars)(self.cm) };
            self.called(ctx, "manager_num_named_vars", "");
            let want_nn = self.names.iter().filter(|n| !n.is_empty()).count() as u32;
            let r_nn = self.rm().with_manager_shared(|m| m.num_named_vars());
            ctx.eval();
            if nn != want_nn || r_nn != want_nn {
                self.viol(ctx, "result-differs-from-rust", "manager_num_named_vars", format!("after {after}: C {nn}, Rust {r_nn}, model {want_nn} (names {:?})", self.names));
            }
            for v in 0..self.nvars {
                let want = self.names[v as usize].clone();
                let mut len = usize::MAX;
                let p = unsafe { (api.manager_var_name)(self.cm, v, if v % 2 == 0 { &mut len } else { null_mut() }) };
                self.called(ctx, "manager_var_name", if want.is_empty() { "unnamed" } else { "named" });
                let got = if p.is_null() { String::new() } else { unsafe { std::ffi::CStr::from_ptr(p) }.to_string_lossy().into_owned() };
                if !p.is_null() {
                    unsafe { free(p as *mut c_void) };
                }
                let mut got2: Option<String> = None;
                let d = (&mut got2 as *mut Option<String>).cast::<c_void>();
                let ret = unsafe { (api.manager_with_var_name)(self.cm, v, grab, d) };
                self.called(ctx, "manager_with_var_name", if want.is_empty() { "unnamed" } else { "named" });
                let rn = self.rm().with_manager_shared(|m| m.var_name(v).to_string());
                ctx.eval();
                if got != want || rn != want || (v % 2 == 0 && len != want.len()) || (want.is_empty() != p.is_null()) {
                    self.viol(ctx, "result-differs-from-rust", "manager_var_name", format!("after {after}: var {v}: C {got:?} (len out {len}), Rust {rn:?}, model {want:?}"));
                }
                ctx.eval();
                if got2.as_deref() != Some(want.as_str()) || ret != d {
                    self.viol(ctx, "result-differs-from-rust", "manager_with_var_name", format!("after {after}: var {v}: callback got {got2:?}, model {want:?}, returned data pointer ok: {}", ret == d));
                }
                // name -> var
                let probe = if want.is_empty() { format!("no-such-{v}") } else { want.clone() };
                let nv = unsafe { (api.manager_name_to_var)(self.cm, probe.as_ptr().cast(), probe.len()) };
                self.called(ctx, "manager_name_to_var", if want.is_empty() { "absent" } else { "present" });
                let want_v = if want.is_empty() { u32::MAX } else { v };
                let r_v = self.rm().with_manager_shared(|m| m.name_to_var(&probe)).unwrap_or(u32::MAX);
                ctx.eval();
                if nv != want_v || r_v != want_v {
                    self.viol(ctx, "result-differs-from-rust", "manager_name_to_var", format!("after {after}: {probe:?}: C {nv}, Rust {r_v}, model {want_v}"));
                }
            }
            let e = unsafe { (api.manager_name_to_var)(self.cm, null(), 0) };
            ctx.eval();
            if e != u32::MAX {
                self.viol(ctx, "result-differs-from-rust", "manager_name_to_var", format!("empty name (NULL, 0) -> {e}, documented (oxidd_var_no_t) -1"));
            }
        }

        /// num_vars, var/level maps, node counters, gc_count
        fn mgr_queries(&mut self, ctx: &mut Ctx) {
            let api = K::api();
            let n = unsafe { (api.manager_num_vars)(self.cm) };
            self.called(ctx, "manager_num_vars", "");
            let rn = self.rm().with_manager_shared(|m| m.num_vars());
            ctx.eval();
            if n != self.nvars || rn != n {
                self.viol(ctx, "result-differs-from-rust", "manager_num_vars", format!("C {n}, Rust {rn}, model {}", self.nvars));
                return;
            }
            let mut seen = vec![false; n as usize];
            for v in 0..n {
                let l = unsafe { (api.manager_var_to_level)(self.cm, v) };
                self.called(ctx, "manager_var_to_level", "");
                let rl = self.rm().with_manager_shared(|m| m.var_to_level(v));
                ctx.eval();
                if l != rl || l >= n || seen[l as usize] {
                    self.viol(ctx, "result-differs-from-rust", "manager_var_to_level", format!("var {v}: C level {l}, Rust {rl} (num_vars {n})"));
                    continue;
                }
                seen[l as usize] = true;
                let back = unsafe { (api.manager_level_to_var)(self.cm, l) };
                self.called(ctx, "manager_level_to_var", "");
                ctx.eval();
                if back != v {
                    self.viol(ctx, "result-differs-from-rust", "manager_level_to_var", format!("level {l} -> var {back}, but var {v} -> level {l}"));
                }
                if self.identity_order && l != v {
                    self.viol(ctx, "result-differs-from-rust", "manager_var_to_level", format!("no reordering yet, var {v} at level {l}"));
                }
            }
            let exact = unsafe { (api.manager_num_inner_nodes)(self.cm) };
            self.called(ctx, "manager_num_inner_nodes", "");
            let approx = unsafe { (api.manager_approx_num_inner_nodes)(self.cm) };
            self.called(ctx, "manager_approx_num_inner_nodes", "");
            let m = unsafe { K::mgr_of(self.cm) };
            let direct = m.with_manager_exclusive(|m| m.num_inner_nodes());
            ctx.eval();
            if !self.small && (exact != direct || approx > exact + 4096) {
                self.viol(ctx, "result-differs-from-rust", "manager_num_inner_nodes", format!("C {exact} (approx {approx}), Rust view of the same manager {direct}"));
            }
            let gc = unsafe { (api.manager_gc_count)(self.cm) };
            self.called(ctx, "manager_gc_count", "");
            let rgc = self.rm().with_manager_shared(|m| m.gc_count());
            ctx.eval();
            if !self.small && gc != rgc {
                self.viol(ctx, "result-differs-from-rust", "manager_gc_count", format!("C {gc}, Rust mirror after the same calls {rgc}"));
            }
        }

        /// explicit collection on both sides; afterwards both managers hold the same number of nodes
        fn gc(&mut self, ctx: &mut Ctx) {
            let api = K::api();
            let before = unsafe { (api.manager_num_inner_nodes)(self.cm) };
            let freed = unsafe { (api.manager_gc)(self.cm) };
            self.called(ctx, "manager_gc", "");
            self.logp(format!("{}(m)", fq::<K>("manager_gc")));
            self.explicit_gcs += 1;
            let after = unsafe { (api.manager_num_inner_nodes)(self.cm) };
            self.rm().with_manager_shared(|m| m.gc());
            let rafter = self.rm().with_manager_shared(|m| m.num_inner_nodes());
            ctx.eval();
            if !self.small {
                // same live functions on both sides => same reduced diagrams => same node count
                let all_mirrored = self.ents.iter().all(|e| e.c.p.is_null() == e.r.is_none());
                let clean = self.audits.get(); // after an ownership violation the node counts are off by construction
                if before < after || freed != before - after || (clean && all_mirrored && after != rafter) {
                    self.viol(ctx, "result-differs-from-rust", "manager_gc", format!("gc returned {freed}; nodes before {before}, after {after}; Rust mirror after gc {rafter}"));
                }
            }
            self.audit(ctx, "manager_gc");
            self.refresh_tables(ctx, "manager_gc", true);
        }

        fn set_var_order(&mut self, ctx: &mut Ctx, order: &[u32]) {
            let api = K::api();
            unsafe { (api.manager_set_var_order)(self.cm, if order.is_empty() { null() } else { order.as_ptr() }, order.len()) };
            self.called(ctx, "manager_set_var_order", &format!("{} of {}", order.len(), self.nvars));
            self.logp(format!("{}(m, {order:?})", fq::<K>("manager_set_var_order")));
            if order.len() >= 2 {
                // documented: no-op for len < 2
                set_order(self.rm(), order);
                self.identity_order = false;
            }
            // documented: x before y in `order` => x above y
            let lv: Vec<u32> = order.iter().map(|&v| unsafe { (api.manager_var_to_level)(self.cm, v) }).collect();
            ctx.eval();
            if order.len() >= 2 && !lv.windows(2).all(|w| w[0] < w[1]) {
                self.viol(ctx, "order-not-established", "manager_set_var_order", format!("levels of {order:?} afterwards: {lv:?}"));
            }
            self.mgr_queries(ctx);
            self.refresh_tables(ctx, "manager_set_var_order", true);
            self.audit(ctx, "manager_set_var_order");
        }

        // ------------------------------------------------------------------ function-level calls

        fn c(&self, i: usize) -> CFn {
            self.ents[i].c
        }

        /// constructors taking the manager: 0 var, 1 not_var, 2 false, 3 true
        fn leaf(&mut self, ctx: &mut Ctx, which: u8, v: u32) -> usize {
            let api = K::api();
            let rm = self.rm().clone();
            match which {
                0 => {
                    let c = unsafe { (api.var)(self.cm, v) };
                    let i = self.admit(ctx, "var", &[], &format!("m, {v}"), c, |_| Some(rm.with_manager_shared(|m| K::F::var(m, v)).unwrap()));
                    self.ents[i].cube = true;
                    self.ents[i].pos_cube = true;
                    i
                }
                1 => {
                    let c = unsafe { (api.not_var)(self.cm, v) };
                    let i = self.admit(ctx, "not_var", &[], &format!("m, {v}"), c, |_| Some(rm.with_manager_shared(|m| K::F::not_var(m, v)).unwrap()));
                    self.ents[i].cube = true;
                    i
                }
                2 => {
                    let c = unsafe { (api.false_)(self.cm) };
                    self.admit(ctx, "false", &[], "m", c, |_| Some(rm.with_manager_shared(|m| K::F::f(m))))
                }
                _ => {
                    let c = unsafe { (api.true_)(self.cm) };
                    let i = self.admit(ctx, "true", &[], "m", c, |_| Some(rm.with_manager_shared(|m| K::F::t(m))));
                    self.ents[i].cube = true;
                    self.ents[i].pos_cube = true;
                    i
                }
            }
        }

        fn not(&mut self, ctx: &mut Ctx, a: usize) -> usize {
            let c = unsafe { (K::api().not)(self.c(a)) };
            self.admit(ctx, "not", &[a], "", c, |r| Some(r[0].not().unwrap()))
        }

        fn bin(&mut self, ctx: &mut Ctx, op: BOp, a: usize, b: usize) -> usize {
            let api = K::api();
            let f = match op {
                BOp::And => api.and,
                BOp::Or => api.or,
                BOp::Xor => api.xor,
                BOp::Equiv => api.equiv,
                BOp::Nand => api.nand,
                BOp::Nor => api.nor,
                BOp::Imp => api.imp,
                BOp::ImpStrict => api.imp_strict,
            };
            let c = unsafe { f(self.c(a), self.c(b)) };
            let i = self.admit(ctx, op.name(), &[a, b], "", c, |r| Some(crate::mon::c02::apply_bop(op, &r[0], &r[1])));
            if op == BOp::And && self.ents[i].r.is_some() {
                self.ents[i].cube = self.ents[a].cube && self.ents[b].cube;
                self.ents[i].pos_cube = self.ents[a].pos_cube && self.ents[b].pos_cube;
            }
            i
        }

        fn ite(&mut self, ctx: &mut Ctx, a: usize, b: usize, c3: usize) -> usize {
            let c = unsafe { (K::api().ite)(self.c(a), self.c(b), self.c(c3)) };
            self.admit(ctx, "ite", &[a, b, c3], "", c, |r| Some(r[0].ite(&r[1], &r[2]).unwrap()))
        }

        /// which: 0 cofactors (pair), 1 cofactor_true, 2 cofactor_false
        fn cofactor(&mut self, ctx: &mut Ctx, which: u8, a: usize) {
            let api = K::api();
            match which {
                0 => {
                    let p = unsafe { (api.cofactors)(self.c(a)) };
                    ctx.eval();
                    if p.first.p.is_null() != p.second.p.is_null() {
                        self.viol(ctx, "half-valid-pair", "cofactors", format!("{:?} / {:?}", p.first, p.second));
                    }
                    self.pending = vec![p.second];
                    self.admit(ctx, "cofactors", &[a], ".first", p.first, |r| r[0].cofactors().map(|x| x.0));
                    self.pending.clear();
                    self.admit(ctx, "cofactors", &[a], ".second", p.second, |r| r[0].cofactors().map(|x| x.1));
                }
                1 => {
                    let c = unsafe { (api.cofactor_true)(self.c(a)) };
                    self.admit(ctx, "cofactor_true", &[a], "", c, |r| r[0].cofactor_true());
                }
                _ => {
                    let c = unsafe { (api.cofactor_false)(self.c(a)) };
                    self.admit(ctx, "cofactor_false", &[a], "", c, |r| r[0].cofactor_false());
                }
            }
            // node_level / node_var (documented: -1 for terminals and invalid functions)
            let lvl = unsafe { (api.node_level)(self.c(a)) };
            self.called(ctx, "node_level", &self.shape(&[a]));
            let var = unsafe { (api.node_var)(self.c(a)) };
            self.called(ctx, "node_var", &self.shape(&[a]));
            let (wl, wv) = match &self.ents[a].r {
                None => (u32::MAX, u32::MAX),
                Some(f) => f.with_manager_shared(|m, e| match m.get_node(e) {
                    Node::Inner(n) => (n.level(), m.level_to_var(n.level())),
                    Node::Terminal(_) => (u32::MAX, u32::MAX),
                }),
            };
            ctx.eval();
            if lvl != wl {
                self.viol(ctx, if self.ents[a].r.is_none() { "invalid-operand-not-propagated" } else { "result-differs-from-rust" }, "node_level", format!("{}: C {lvl}, Rust {wl}", self.hname(a)));
            }
            ctx.eval();
            if var != wv {
                self.viol(ctx, if self.ents[a].r.is_none() { "invalid-operand-not-propagated" } else { "result-differs-from-rust" }, "node_var", format!("{}: C {var}, Rust {wv}", self.hname(a)));
            }
        }

        /// read-only queries on a *valid* function
        fn queries(&mut self, ctx: &mut Ctx, a: usize, rng: &mut Rng) {
            let api = K::api();
            let Some(r) = self.ents[a].r.clone() else { return };
            let c = self.c(a);
            let tt = self.ents[a].tt.clone().unwrap();
            let n = self.nvars;
            let shape = self.shape(&[a]);
            self.logp(format!("queries({})", self.hname(a)));
            // node_count
            let cn = unsafe { (api.node_count)(c) };
            self.called(ctx, "node_count", &shape);
            ctx.eval();
            if cn != r.node_count() {
                self.viol(ctx, "result-differs-from-rust", "node_count", format!("{tt}: C {cn}, Rust {}", r.node_count()));
            }
            // satisfiable / valid
            let (cs, cv) = unsafe { ((api.satisfiable)(c), (api.valid)(c)) };
            self.called(ctx, "satisfiable", &shape);
            self.called(ctx, "valid", &shape);
            ctx.eval();
            if cs != !tt.is_zero() || cs != r.satisfiable() {
                self.viol(ctx, "result-differs-from-rust", "satisfiable", format!("{tt}: C {cs}, Rust {}", r.satisfiable()));
            }
            ctx.eval();
            if cv != tt.is_one() || cv != r.valid() {
                self.viol(ctx, "result-differs-from-rust", "valid", format!("{tt}: C {cv}, Rust {}", r.valid()));
            }
            // sat_count (exact and double); BDD/BCDD also with a larger domain
            let extra = if K::SEM == Sem::ZeroSup { 0 } else { rng.below(3) as u32 * 7 };
            let vars = n + extra;
            let want = (tt.count_ones() as u128) << extra;
            let nat = unsafe { (api.sat_count)(c, vars) };
            self.called(ctx, "sat_count", &shape);
            let dbl = unsafe { (api.sat_count_double)(c, vars) };
            self.called(ctx, "sat_count_double", &shape);
            type H = std::hash::BuildHasherDefault<oxidd::util::FxHasher>;
            let rnat = r.sat_count::<oxidd::util::num::Natural, H>(vars, &mut Default::default());
            let rdbl = r.sat_count::<oxidd::util::num::F64, H>(vars, &mut Default::default()).0;
            let s = unsafe { oxidd_natural_to_string(&nat) };
            cover("oxidd_natural_to_string");
            let text = unsafe { string_of(&s) };
            ctx.eval();
            if nat_small(&nat) != Some(want) || text != want.to_string() || text != rnat.to_string() {
                self.viol(ctx, "result-differs-from-rust", "sat_count", format!("{tt} over {vars} variables: C {text} (raw len {} shl {}), Rust {rnat}, table {want}", nat.len, nat.shl));
            }
            ctx.eval();
            if dbl != want as f64 || dbl != rdbl {
                self.viol(ctx, "result-differs-from-rust", "sat_count_double", format!("{tt} over {vars} variables: C {dbl}, Rust {rdbl}, table {want}"));
            }
            // natural / string utilities
            let nat2 = unsafe { oxidd_natural_clone(&nat) };
            cover("oxidd_natural_clone");
            let (eq, cmp) = unsafe { (oxidd_natural_eq(&nat, &nat2), oxidd_natural_cmp(&nat, &nat2)) };
            cover("oxidd_natural_eq");
            cover("oxidd_natural_cmp");
            let s2 = unsafe { oxidd_string_clone(&s) };
            cover("oxidd_string_clone");
            ctx.eval();
            if !eq || cmp != 0 || unsafe { string_of(&s2) } != text {
                ctx.violation("ffi:natural-utils", format!("clone of {text}: eq {eq}, cmp {cmp}, string clone {:?}", unsafe { string_of(&s2) }));
            }
            unsafe {
                oxidd_string_free(s2);
                oxidd_string_free(s);
                oxidd_natural_free(nat2);
                oxidd_natural_free(nat);
            }
            cover("oxidd_string_free");
            cover("oxidd_natural_free");
            // pick_cube (same choice function on both sides: always `false`)
            let asg = unsafe { (api.pick_cube)(c) };
            self.called(ctx, "pick_cube", &shape);
            let got: Option<Vec<i8>> = if asg.data.is_null() { None } else { Some(unsafe { std::slice::from_raw_parts(asg.data, asg.len) }.to_vec()) };
            let rc = r.pick_cube(|_, _, _| false).map(|v| v.iter().map(|o| match o { OptBool::None => -1i8, OptBool::False => 0, OptBool::True => 1 }).collect::<Vec<i8>>());
            ctx.eval();
            if got != rc || (got.is_none() && asg.len != 0) {
                self.viol(ctx, "result-differs-from-rust", "pick_cube", format!("{tt}: C {got:?} (len {}), Rust {rc:?}", asg.len));
            } else if let Some(cube) = &got {
                let lits: Vec<(u32, bool)> = cube.iter().enumerate().filter(|(_, x)| **x >= 0).map(|(v, x)| (v as u32, *x == 1)).collect();
                ctx.eval();
                if cube.len() != n as usize || !Tt::cube(n, &lits).implies(&tt) {
                    self.viol(ctx, "result-not-an-implicant", "pick_cube", format!("{tt}: {cube:?}"));
                }
            }
            unsafe { oxidd_assignment_free(asg) };
            cover("oxidd_assignment_free");
            // eval with shuffled, duplicated arguments (documented: the last value counts)
            let a_ = rng.usize(1usize << n);
            let mut args: Vec<CVarBool> = Vec::new();
            let mut order = rng.perm(n as usize);
            for &v in &order {
                args.push(CVarBool { var: v, val: rng.bool() });
            }
            rng.shuffle(&mut order);
            for &v in &order {
                args.push(CVarBool { var: v, val: (a_ >> v) & 1 == 1 });
            }
            let ev = unsafe { (api.eval)(c, args.as_ptr(), args.len()) };
            self.called(ctx, "eval", "dup-args");
            ctx.eval();
            if ev != tt.get(a_) {
                self.viol(ctx, "result-differs-from-rust", "eval", format!("{tt} at assignment {a_:#b} with overridden duplicates: {ev}"));
            }
            // no arguments at all: every variable is false
            let ev0 = unsafe { (api.eval)(c, null(), 0) };
            self.called(ctx, "eval", "no-args");
            ctx.eval();
            if ev0 != tt.get(0) {
                // documented (C and Rust): "Should there be a decision node for a variable not part of the domain,
                // then `false` is used as the decision value"
                let rs = r.eval(std::iter::empty());
                self.viol(ctx, "unassigned-variable-not-false", "eval", format!("{tt} with args == NULL, num_args == 0: C {ev0}, Rust eval([]) {rs}, value at the all-false assignment {}", tt.get(0)));
            }
            self.check_operands(ctx, "queries", &[a]);
            self.audit(ctx, "queries");
        }

        fn pick_cube_dd(&mut self, ctx: &mut Ctx, a: usize, set: Option<usize>) -> usize {
            let api = K::api();
            match set {
                None => {
                    let c = unsafe { (api.pick_cube_dd)(self.c(a)) };
                    self.admit(ctx, "pick_cube_dd", &[a], "", c, |r| Some(r[0].pick_cube_dd(|_, _, _| false).unwrap()))
                }
                Some(s) => {
                    let c = unsafe { (api.pick_cube_dd_set)(self.c(a), self.c(s)) };
                    self.admit(ctx, "pick_cube_dd_set", &[a, s], "", c, |r| Some(r[0].pick_cube_dd_set(&r[1]).unwrap()))
                }
            }
        }

        fn ref_(&mut self, ctx: &mut Ctx, a: usize) {
            let c = self.c(a);
            let r = unsafe { (K::api().ref_)(c) };
            self.called(ctx, "ref", &self.shape(&[a]));
            self.logp(format!("{}({})", fq::<K>("ref"), self.hname(a)));
            ctx.eval();
            if r != c {
                self.viol(ctx, "returns-other-handle", "ref", format!("{c:?} -> {r:?} (documented: returns f)"));
            }
            if !c.p.is_null() {
                self.ents[a].owned += 1;
            }
            self.audit(ctx, "ref");
        }

        /// returns true if the entry is gone
        fn unref(&mut self, ctx: &mut Ctx, a: usize) -> bool {
            let c = self.c(a);
            self.logp(format!("{}({})", fq::<K>("unref"), self.hname(a)));
            unsafe { (K::api().unref)(c) };
            self.called(ctx, "unref", &self.shape(&[a]));
            if c.p.is_null() {
                // documented no-op
                self.audit(ctx, "unref");
                if a != 0 {
                    self.ents.remove(a);
                    return true;
                }
                return false;
            }
            self.ents[a].owned -= 1;
            let gone = self.ents[a].owned == 0;
            if gone {
                self.ents.remove(a);
            }
            self.audit(ctx, "unref");
            gone
        }

        /// which: 0 containing_manager (needs valid `a`), 1 manager_ref, 2 manager_unref (keeps >= 1)
        fn mgr_ref_ops(&mut self, ctx: &mut Ctx, which: u8, a: usize) {
            let api = K::api();
            match which {
                0 => {
                    if self.ents[a].r.is_none() {
                        return; // documented precondition: valid function
                    }
                    let m = unsafe { (api.containing_manager)(self.c(a)) };
                    self.called(ctx, "containing_manager", &self.shape(&[a]));
                    self.logp(format!("m = {}({})", fq::<K>("containing_manager"), self.hname(a)));
                    ctx.eval();
                    if m != self.cm {
                        self.viol(ctx, "returns-other-manager", "containing_manager", format!("{m:?} vs {:?}", self.cm));
                    }
                    self.mgr_refs += 1;
                }
                1 => {
                    let m = unsafe { (api.manager_ref)(self.cm) };
                    self.called(ctx, "manager_ref", "");
                    self.logp(format!("{}(m)", fq::<K>("manager_ref")));
                    ctx.eval();
                    if m != self.cm {
                        self.viol(ctx, "returns-other-manager", "manager_ref", format!("{m:?} vs {:?}", self.cm));
                    }
                    self.mgr_refs += 1;
                }
                _ => {
                    if self.mgr_refs < 2 {
                        return;
                    }
                    unsafe { (api.manager_unref)(self.cm) };
                    self.called(ctx, "manager_unref", "");
                    self.logp(format!("{}(m)", fq::<K>("manager_unref")));
                    self.mgr_refs -= 1;
                }
            }
            self.audit(ctx, "manager_ref/unref");
        }

        /// `and`/`or`… executed inside the manager's worker pool
        fn run_in_pool(&mut self, ctx: &mut Ctx, a: usize, b: usize) -> usize {
            struct Data {
                f: unsafe extern "C" fn(CFn, CFn) -> CFn,
                a: CFn,
                b: CFn,
                out: CFn,
                ran: bool,
            }
            extern "C" fn cb(d: *mut c_void) -> *mut c_void {
                let d2 = unsafe { &mut *(d as *mut Data) };
                d2.out = unsafe { (d2.f)(d2.a, d2.b) };
                d2.ran = true;
                d
            }
            let api = K::api();
            let mut d = Data { f: api.xor, a: self.c(a), b: self.c(b), out: INVALID, ran: false };
            let p = (&mut d as *mut Data).cast::<c_void>();
            let ret = unsafe { (api.manager_run_in_worker_pool)(self.cm, cb, p) };
            self.called(ctx, "manager_run_in_worker_pool", "");
            ctx.eval();
            if ret != p || !d.ran {
                self.viol(ctx, "callback-result-lost", "manager_run_in_worker_pool", format!("returned {ret:?}, data {p:?}, callback ran: {}", d.ran));
            }
            self.admit(ctx, "xor", &[a, b], " [inside oxidd_*_manager_run_in_worker_pool]", d.out, |r| Some(r[0].xor(&r[1]).unwrap()))
        }

        /// conjunction of literals built through the C API (intermediate handles are released)
        fn build_cube(&mut self, ctx: &mut Ctx, lits: &[(u32, bool)]) -> usize {
            let mut acc = self.leaf(ctx, 3, 0);
            for &(v, pos) in lits {
                let l = self.leaf(ctx, if pos { 0 } else { 1 }, v);
                let n = self.bin(ctx, BOp::And, acc, l);
                // n > l > acc: remove the higher index first
                self.unref(ctx, l);
                self.unref(ctx, acc);
                acc = n - 2;
            }
            acc
        }

        // ------------------------------------------------------------------ BDD / BCDD only

        fn restrict(&mut self, ctx: &mut Ctx, a: usize, vars: usize) -> usize {
            let q = K::qapi().unwrap();
            let c = unsafe { (q.restrict)(self.c(a), self.c(vars)) };
            self.admit(ctx, "restrict", &[a, vars], "", c, |r| Some(r[0].restrict(&r[1]).unwrap()))
        }

        fn quant(&mut self, ctx: &mut Ctx, qt: Quant, a: usize, vars: usize) -> usize {
            let q = K::qapi().unwrap();
            let (name, f) = match qt {
                Quant::Forall => ("forall", q.forall),
                Quant::Exists => ("exists", q.exists),
                Quant::Unique => ("unique", q.unique),
            };
            let c = unsafe { f(self.c(a), self.c(vars)) };
            self.admit(ctx, name, &[a, vars], "", c, |r| Some(K::quant(qt, &r[0], &r[1]).unwrap()))
        }

        fn apply_quant(&mut self, ctx: &mut Ctx, qt: Quant, op: BOp, a: usize, b: usize, vars: usize) -> usize {
            let q = K::qapi().unwrap();
            let (name, f) = match qt {
                Quant::Forall => ("apply_forall", q.apply_forall),
                Quant::Exists => ("apply_exists", q.apply_exists),
                Quant::Unique => ("apply_unique", q.apply_unique),
            };
            let c = unsafe { f(op.to_oxidd() as u8, self.c(a), self.c(b), self.c(vars)) };
            self.admit(ctx, name, &[a, b, vars], &format!("op={}", op.name()), c, |r| Some(K::apply_quant(qt, op, &r[0], &r[1], &r[2]).unwrap()))
        }

        /// substitution_new + add_pair* (+ substitute once or twice) + free; `null`: pass NULL instead
        fn substitute(&mut self, ctx: &mut Ctx, a: usize, pairs: &[(u32, usize)], null_subst: bool, keep: bool) {
            let q = K::qapi().unwrap();
            if null_subst {
                let c = unsafe { (q.substitute)(self.c(a), null()) };
                // documented in the code path: NULL substitution -> invalid
                self.admit(ctx, "substitute", &[a], "NULL", c, |_| None);
                return;
            }
            let s = unsafe { (q.substitution_new)(pairs.len()) };
            self.called(ctx, "substitution_new", "");
            self.logp(format!("s = {}({})", fq::<K>("substitution_new"), pairs.len()));
            let mut sb = SubSt::<K> { c: s, vars: vec![], holds: vec![], repl: vec![], used: false };
            for &(v, i) in pairs {
                let Some(r) = self.ents[i].r.clone() else { continue }; // documented: replacement must be valid
                unsafe { (q.substitution_add_pair)(s, v, self.c(i)) };
                self.called(ctx, "substitution_add_pair", &self.shape(&[i]));
                self.logp(format!("{}(s, {v}, {})", fq::<K>("substitution_add_pair"), self.hname(i)));
                sb.vars.push(v);
                sb.holds.push(self.c(i));
                sb.repl.push(r);
            }
            self.subs.push(sb);
            self.audit(ctx, "substitution_add_pair");
            let ops: Vec<usize> = std::iter::once(a).chain(pairs.iter().map(|p| p.1)).collect();
            self.check_operands(ctx, "substitution_add_pair", &ops);
            let si = self.subs.len() - 1;
            let subst = Subst::new(self.subs[si].vars.clone(), self.subs[si].repl.clone());
            for _ in 0..(1 + keep as usize) {
                let c = unsafe { (q.substitute)(self.c(a), self.subs[si].c) };
                let desc = format!("s={:?}", self.subs[si].vars);
                self.admit(ctx, "substitute", &[a], &desc, c, |r| Some(K::substitute(&r[0], &subst).unwrap()));
            }
            if !keep {
                self.free_subst(ctx, si);
            }
        }

        fn free_subst(&mut self, ctx: &mut Ctx, si: usize) {
            let q = K::qapi().unwrap();
            let sb = self.subs.remove(si);
            unsafe { (q.substitution_free)(sb.c) };
            self.called(ctx, "substitution_free", "");
            self.logp(format!("{}(s)", fq::<K>("substitution_free")));
            drop(sb);
            self.audit(ctx, "substitution_free");
        }

        // ------------------------------------------------------------------ ZBDD only

        fn z_leaf(&mut self, ctx: &mut Ctx, op: ZOp, v: u32) -> usize {
            let z = K::zapi().unwrap();
            let rm = self.rm().clone();
            let (name, c) = match op {
                ZOp::Singleton => ("singleton", unsafe { (z.singleton)(self.cm, v) }),
                ZOp::Empty => ("empty", unsafe { (z.empty)(self.cm) }),
                _ => ("base", unsafe { (z.base)(self.cm) }),
            };
            self.admit(ctx, name, &[], &format!("m, {v}"), c, |_| Some(K::z_mirror(op, &rm, &[], v)))
        }

        fn z_var_op(&mut self, ctx: &mut Ctx, op: ZOp, a: usize, v: u32) -> usize {
            let z = K::zapi().unwrap();
            let rm = self.rm().clone();
            let (name, f) = match op {
                ZOp::Subset0 => ("subset0", z.subset0),
                ZOp::Subset1 => ("subset1", z.subset1),
                _ => ("change", z.change),
            };
            let c = unsafe { f(self.c(a), v) };
            self.admit(ctx, name, &[a], &format!("{v}"), c, |r| Some(K::z_mirror(op, &rm, r, v)))
        }

        fn z_bin(&mut self, ctx: &mut Ctx, op: ZOp, a: usize, b: usize) -> usize {
            let z = K::zapi().unwrap();
            let rm = self.rm().clone();
            let (name, f) = match op {
                ZOp::Union => ("union", z.union_),
                ZOp::Intsec => ("intsec", z.intsec),
                _ => ("diff", z.diff),
            };
            let c = unsafe { f(self.c(a), self.c(b)) };
            self.admit(ctx, name, &[a, b], "", c, |r| Some(K::z_mirror(op, &rm, r, 0)))
        }

        /// `make_node(var, hi, lo)`: documented to take ownership of `hi` and `lo` (not of `var`).
        /// `hi`/`lo` must be owned often enough by the caller (one reference each is given away).
        fn z_make_node(&mut self, ctx: &mut Ctx, var: usize, hi: usize, lo: usize) -> usize {
            let z = K::zapi().unwrap();
            let rm = self.rm().clone();
            let c = unsafe { (z.make_node)(self.c(var), self.c(hi), self.c(lo)) };
            if self.ents[var].r.is_none() || self.ents[hi].r.is_none() || self.ents[lo].r.is_none() {
                self.suspect.get_or_insert_with(|| "make_node-with-invalid-operand".into());
            }
            // ownership transfer first, so that the audit inside `admit` sees the documented state
            for i in [hi, lo] {
                if self.ents[i].owned > 0 {
                    self.ents[i].owned -= 1;
                }
            }
            let i = self.admit(ctx, "make_node", &[var, hi, lo], "", c, |r| Some(K::z_mirror(ZOp::MakeNode, &rm, r, 0)));
            // entries whose last reference was given away disappear (higher index first)
            let mut dead: Vec<usize> = [hi, lo].into_iter().filter(|&j| j != 0 && !self.ents[j].c.p.is_null() && self.ents[j].owned == 0).collect();
            dead.sort_unstable();
            dead.dedup();
            let mut res = i;
            for j in dead.into_iter().rev() {
                self.ents.remove(j);
                if j < res {
                    res -= 1;
                }
            }
            res
        }

        // ------------------------------------------------------------------ files

        fn path(&mut self, ext: &str) -> (PathBuf, String) {
            self.file_no += 1;
            let p = self.dir.join(format!("{}-{}.{ext}", K::NAME, self.file_no));
            let s = p.to_string_lossy().into_owned();
            (p, s)
        }

        /// DDDMP export through one of the three C entry points, then import through oxidd_dump (Rust)
        /// into the mirror manager and through the C import functions into the C manager.
        /// `variant`: 0 array, 1 array + names, 2 iterator, 3 iterator with names.
        fn dddmp_roundtrip(&mut self, ctx: &mut Ctx, which: &[usize], variant: u8, settings: Option<(u8, bool)>) {
            let api = K::api();
            let (path, ps) = self.path("dddmp");
            let fns: Vec<CFn> = which.iter().map(|&i| self.c(i)).collect();
            let all_valid = which.iter().all(|&i| self.ents[i].r.is_some());
            let names: Vec<String> = (0..which.len()).map(|i| format!("fn{i}")).collect();
            let cnames: Vec<CString> = names.iter().map(|n| CString::new(n.as_str()).unwrap()).collect();
            let name_ptrs: Vec<*const c_char> = cnames.iter().map(|c| c.as_ptr()).collect();
            let dname = "c19 diagram";
            let set = settings.map(|(version, ascii)| CDddmpSettings { version, ascii, strict: false, diagram_name: strt(dname) });
            let setp = set.as_ref().map_or(null(), |s| s as *const CDddmpSettings);
            let mut err = poison_err();
            let (fname, ok) = match variant {
                0 | 1 => (
                    "manager_export_dddmp",
                    unsafe { (api.manager_export_dddmp)(self.cm, ps.as_ptr().cast(), ps.len(), fns.as_ptr(), fns.len(), if variant == 1 { name_ptrs.as_ptr() } else { null() }, setp, &mut err) },
                ),
                2 => {
                    let mut ic = IterCtx { items: fns.clone(), pos: 0 };
                    let it = c_iter(&mut ic, true);
                    ("manager_export_dddmp_iter", unsafe { (api.manager_export_dddmp_iter)(self.cm, ps.as_ptr().cast(), ps.len(), it, setp, &mut err) })
                }
                _ => {
                    let mut ic = IterCtx { items: fns.iter().zip(&names).map(|(f, n)| CNamed { func: *f, name: strt(n) }).collect::<Vec<_>>(), pos: 0 };
                    let it = c_iter(&mut ic, false);
                    ("manager_export_dddmp_with_names_iter", unsafe { (api.manager_export_dddmp_with_names_iter)(self.cm, ps.as_ptr().cast(), ps.len(), it, setp, &mut err) })
                }
            };
            self.called(ctx, fname, &format!("{} settings {settings:?}", self.shape(which)));
            let hs: Vec<String> = which.iter().map(|&i| self.hname(i)).collect();
            self.logp(format!("{}(m, path, [{}], settings {settings:?}) -> {ok}", fq::<K>(fname), hs.join(", ")));
            let (init, msg) = unsafe { take_err(err) };
            ctx.eval();
            if !init {
                self.viol(ctx, "error-not-initialized-by", fname, format!("returned {ok}"));
            }
            self.audit(ctx, fname);
            self.check_operands(ctx, fname, which);
            if !all_valid {
                // an invalid function cannot be exported; the docs only promise `false` "upon an error"
                if ok {
                    ctx.count("export_with_invalid_function_returned_true", 1);
                }
            } else {
                // the Rust API (same settings; NULL = defaults, i.e. strict mode) succeeds / fails alike and
                // writes the same header for the mirror (same variables, names, order, functions)
                let want: Vec<K::F> = which.iter().map(|&i| self.ents[i].r.clone().unwrap()).collect();
                let rb = K::export_bytes(self.rm(), &want, if variant == 1 || variant == 3 { Some(&names[..]) } else { None }, settings.map(|(v, a)| (v, a, dname)));
                let cb = std::fs::read(&path).unwrap_or_default();
                ctx.eval();
                match rb {
                    Err(e) => {
                        if ok || msg.is_empty() {
                            self.viol(ctx, "error-not-reported-by", fname, format!("returned {ok} with message {msg:?}; the Rust API fails with: {e}"));
                        } else {
                            ctx.count("export_errors_matching_rust", 1);
                        }
                    }
                    Ok(rb) => {
                        if !ok {
                            self.viol(ctx, "export-failed", fname, format!("error: {msg}; the Rust API succeeds"));
                        }
                        // node numbers inside a level follow the managers' internal ids: compare the header
                        // (format version, mode, names, variable and root counts, support, order) only
                        let head = |b: &[u8]| -> Vec<String> {
                            let t = String::from_utf8_lossy(b).into_owned();
                            t.lines().take_while(|l| !l.starts_with(".nodes")).filter(|l| !l.starts_with(".rootids")).map(String::from).collect()
                        };
                        if ok && head(&rb) != head(&cb) {
                            let show = |b: &[u8]| String::from_utf8_lossy(&b[..b.len().min(400)]).replace('\n', "\\n");
                            self.viol(ctx, "exported-file-differs-from-rust", fname, format!("C wrote {} bytes: {} | Rust API writes {} bytes: {}", cb.len(), show(&cb), rb.len(), show(&rb)));
                        }
                    }
                }
            }
            if ok && all_valid && self.identity_order {
                // (a) oxidd_dump on the Rust side
                match K::import_file(self.rm(), &path) {
                    Err(e) => self.viol(ctx, "exported-file-not-importable", fname, e),
                    Ok((fs, info)) => {
                        ctx.eval();
                        let want: Vec<K::F> = which.iter().map(|&i| self.ents[i].r.clone().unwrap()).collect();
                        if fs != want || info.nvars != self.nvars {
                            let got: Vec<String> = fs.iter().map(|f| interp_tt::<K>(f).to_string()).collect();
                            let exp: Vec<String> = want.iter().map(|f| interp_tt::<K>(f).to_string()).collect();
                            self.viol(ctx, "exported-file-denotes-other-functions", fname, format!("imported {got:?} (nvars {}), exported {exp:?} (nvars {})", info.nvars, self.nvars));
                        }
                        if variant == 1 || variant == 3 {
                            ctx.eval();
                            if info.root_names.as_deref() != Some(&names[..]) {
                                self.viol(ctx, "exported-file-root-names", fname, format!("{:?} vs {names:?}", info.root_names));
                            }
                        }
                        if settings.is_some() {
                            ctx.eval();
                            if info.diagram_name.as_deref() != Some(dname) {
                                self.viol(ctx, "exported-file-diagram-name", fname, format!("{:?}", info.diagram_name));
                            }
                        }
                        // (b) the C import entry points
                        self.c_import(ctx, &ps, which, &info, variant == 1 || variant == 3);
                    }
                }
            }
            let _ = std::fs::remove_file(&path);
        }

        fn c_import(&mut self, ctx: &mut Ctx, ps: &str, which: &[usize], info: &DumpInfo, named: bool) {
            let api = K::api();
            let mut err = poison_err();
            let file = unsafe { oxidd_dddmp_open(ps.as_ptr().cast(), ps.len(), &mut err) };
            cover("oxidd_dddmp_open");
            let (init, msg) = unsafe { take_err(err) };
            ctx.eval();
            if file.is_null() || !init {
                self.viol(ctx, "open-failed", "dddmp_open", format!("error initialized: {init}, message {msg:?}"));
                return;
            }
            let sl = |s: CSlice<u32>| -> Vec<u32> { if s.ptr.is_null() { vec![] } else { unsafe { std::slice::from_raw_parts(s.ptr, s.len) }.to_vec() } };
            let (nroots, nvars, nsupp, nnodes) = unsafe { (oxidd_dddmp_num_roots(file), oxidd_dddmp_num_vars(file), oxidd_dddmp_num_support_vars(file), oxidd_dddmp_num_nodes(file)) };
            let supp = sl(unsafe { oxidd_dddmp_support_vars(file) });
            let order = sl(unsafe { oxidd_dddmp_support_var_order(file) });
            let s2l = sl(unsafe { oxidd_dddmp_support_var_to_level(file) });
            let dname = unsafe { str_of(oxidd_dddmp_diagram_name(file)) };
            let has_rn = unsafe { oxidd_dddmp_has_root_names(file) };
            let rnames: Vec<String> = (0..nroots).map(|i| unsafe { str_of(oxidd_dddmp_root_name(file, i)) }).collect();
            let has_vn = unsafe { oxidd_dddmp_has_var_names(file) };
            let vnames: Vec<String> = (0..nvars).map(|i| unsafe { str_of(oxidd_dddmp_var_name(file, i)) }).collect();
            for f in ["open", "num_roots", "num_vars", "num_support_vars", "num_nodes", "support_vars", "support_var_order", "support_var_to_level", "diagram_name", "has_root_names", "root_name", "has_var_names", "var_name"] {
                cover(&format!("oxidd_dddmp_{f}"));
            }
            ctx.count("ffi_calls", 13);
            ctx.eval();
            let want_rn: Vec<String> = info.root_names.clone().unwrap_or_else(|| vec![String::new(); nroots]);
            if nroots != info.nroots || nvars != info.nvars || nsupp as usize != info.support_vars.len() || nnodes != info.nnodes || supp != info.support_vars
                || order.len() != supp.len() || s2l.len() != supp.len() || dname != info.diagram_name.clone().unwrap_or_default() || has_rn != named || rnames != want_rn
                || has_vn != info.var_names.is_some() || (has_vn && Some(&vnames) != info.var_names.as_ref()) || (!has_vn && vnames.iter().any(|n| !n.is_empty()))
            {
                self.viol(ctx, "header-differs-from-rust", "dddmp_accessors", format!(
                    "C: roots {nroots} vars {nvars} supp {supp:?} order {order:?} levels {s2l:?} nodes {nnodes} name {dname:?} root names {has_rn} {rnames:?} var names {has_vn} {vnames:?}; Rust DumpHeader: {info:?}"));
            }
            let mut roots = vec![INVALID; nroots];
            let mut err = poison_err();
            let explicit = which.len() % 2 == 0; // identity mapping given explicitly / default mapping
            let ok = unsafe { (api.manager_import_dddmp)(self.cm, file, if explicit { supp.as_ptr() } else { null() }, roots.as_mut_ptr(), &mut err) };
            let (init, msg) = unsafe { take_err(err) };
            ctx.eval();
            if !init {
                self.viol(ctx, "error-not-initialized-by", "manager_import_dddmp", format!("returned {ok}"));
            }
            if !ok {
                self.called(ctx, "manager_import_dddmp", "failed");
                self.viol(ctx, "import-failed", "manager_import_dddmp", format!("file exported from this manager; error {msg:?}"));
            } else {
                self.pending = roots.clone();
                for (k, root) in roots.iter().enumerate() {
                    self.pending.remove(0);
                    let w = which[k];
                    self.admit(ctx, "manager_import_dddmp", &[w], &format!("root {k} of the file exported from"), *root, |r| Some(r[0].clone()));
                }
            }
            unsafe { oxidd_dddmp_close(file) };
            cover("oxidd_dddmp_close");
        }

        /// variant 0: arrays, 1: arrays with NULL functions (no labels), 2: iterator
        fn dump_dot(&mut self, ctx: &mut Ctx, which: &[usize], variant: u8) {
            let api = K::api();
            let (path, ps) = self.path("dot");
            let fns: Vec<CFn> = which.iter().map(|&i| self.c(i)).collect();
            let names: Vec<String> = (0..which.len()).map(|i| format!("f{i}")).collect();
            let cnames: Vec<CString> = names.iter().map(|n| CString::new(n.as_str()).unwrap()).collect();
            let name_ptrs: Vec<*const c_char> = cnames.iter().map(|c| c.as_ptr()).collect();
            let mut err = poison_err();
            let (fname, ok) = match variant {
                0 => ("manager_dump_all_dot_path", unsafe { (api.manager_dump_all_dot_path)(self.cm, ps.as_ptr().cast(), ps.len(), fns.as_ptr(), name_ptrs.as_ptr(), fns.len(), &mut err) }),
                1 => ("manager_dump_all_dot_path", unsafe { (api.manager_dump_all_dot_path)(self.cm, ps.as_ptr().cast(), ps.len(), null(), null(), 0, &mut err) }),
                _ => {
                    let mut ic = IterCtx { items: fns.iter().zip(&names).map(|(f, n)| CNamed { func: *f, name: strt(n) }).collect::<Vec<_>>(), pos: 0 };
                    let it = c_iter(&mut ic, true);
                    ("manager_dump_all_dot_path_iter", unsafe { (api.manager_dump_all_dot_path_iter)(self.cm, ps.as_ptr().cast(), ps.len(), it, &mut err) })
                }
            };
            self.called(ctx, fname, &format!("v{variant} {}", self.shape(which)));
            let hs: Vec<String> = which.iter().map(|&i| self.hname(i)).collect();
            self.logp(format!("{}(m, path, [{}]) -> {ok}", fq::<K>(fname), hs.join(", ")));
            let (init, msg) = unsafe { take_err(err) };
            let text = std::fs::read_to_string(&path).unwrap_or_default();
            ctx.eval();
            if !ok || !init || !text.trim_start().starts_with("digraph") || !text.trim_end().ends_with('}') {
                self.viol(ctx, "export-failed", fname, format!("returned {ok}, error initialized {init}: {msg:?}; file starts with {:?}", text.chars().take(20).collect::<String>()));
            }
            self.audit(ctx, fname);
            self.check_operands(ctx, fname, which);
            let _ = std::fs::remove_file(&path);
        }

        /// documented failure channel: file in a directory that does not exist
        fn failing_exports(&mut self, ctx: &mut Ctx, a: usize) {
            let api = K::api();
            let ps = format!("{}/no-such-dir/x.out", self.dir.display());
            let fns = [self.c(a)];
            let mut err = poison_err();
            let ok = unsafe { (api.manager_export_dddmp)(self.cm, ps.as_ptr().cast(), ps.len(), fns.as_ptr(), 1, null(), null(), &mut err) };
            self.called(ctx, "manager_export_dddmp", "bad-path");
            let (init, msg) = unsafe { take_err(err) };
            ctx.eval();
            if ok || !init || msg.is_empty() {
                self.viol(ctx, "error-not-reported-by", "manager_export_dddmp", format!("path in a missing directory: returned {ok}, error initialized {init}, message {msg:?}"));
            }
            let mut err = poison_err();
            let ok = unsafe { (api.manager_dump_all_dot_path)(self.cm, ps.as_ptr().cast(), ps.len(), null(), null(), 0, &mut err) };
            self.called(ctx, "manager_dump_all_dot_path", "bad-path");
            let (init, msg) = unsafe { take_err(err) };
            ctx.eval();
            if ok || !init || msg.is_empty() {
                self.viol(ctx, "error-not-reported-by", "manager_dump_all_dot_path", format!("path in a missing directory: returned {ok}, error initialized {init}, message {msg:?}"));
            }
            let mut err = poison_err();
            let f = unsafe { oxidd_dddmp_open(ps.as_ptr().cast(), ps.len(), &mut err) };
            let (init, msg) = unsafe { take_err(err) };
            ctx.eval();
            if !f.is_null() || !init || msg.is_empty() {
                self.viol(ctx, "error-not-reported-by", "dddmp_open", format!("missing file: returned {f:?}, error initialized {init}, message {msg:?}"));
            }
            // error == NULL is allowed
            let ok = unsafe { (api.manager_export_dddmp)(self.cm, ps.as_ptr().cast(), ps.len(), fns.as_ptr(), 1, null(), null(), null_mut()) };
            ctx.eval();
            if ok {
                self.viol(ctx, "error-not-reported-by", "manager_export_dddmp", "error == NULL, missing directory: returned true".into());
            }
            unsafe { oxidd_dddmp_close(null_mut()) };
            self.audit(ctx, "failing exports");
        }

        /// `oxidd_*_manager_visualize*`: serves the diagram over HTTP until it is fetched once; the
        /// harness fetches it from a second thread. Only ownership / no-crash is asserted (a busy
        /// port is a legitimate error).
        fn visualize(&mut self, ctx: &mut Ctx, which: &[usize], variant: u8, port: u16) {
            use std::io::{Read, Write};
            let api = K::api();
            let fns: Vec<CFn> = which.iter().map(|&i| self.c(i)).collect();
            let names: Vec<String> = (0..which.len()).map(|i| format!("f{i}")).collect();
            let cm = SendPtr(self.cm);
            let (tx, rx) = std::sync::mpsc::channel::<(bool, bool, String)>();
            let job = SendPtr((fns, names));
            let fname = ["manager_visualize", "manager_visualize_iter", "manager_visualize_with_names_iter"][variant as usize % 3];
            let h = std::thread::spawn(move || {
                let cm = cm;
                let job = job;
                let (fns, names) = &job.0;
                let dn = "c19vis";
                let cnames: Vec<CString> = names.iter().map(|n| CString::new(n.as_str()).unwrap()).collect();
                let name_ptrs: Vec<*const c_char> = cnames.iter().map(|c| c.as_ptr()).collect();
                let mut err = poison_err();
                let ok = match variant % 3 {
                    0 => unsafe { (api.manager_visualize)(cm.0, dn.as_ptr().cast(), dn.len(), fns.as_ptr(), fns.len(), name_ptrs.as_ptr(), port, &mut err) },
                    1 => {
                        let mut ic = IterCtx { items: fns.clone(), pos: 0 };
                        let it = c_iter(&mut ic, true);
                        unsafe { (api.manager_visualize_iter)(cm.0, dn.as_ptr().cast(), dn.len(), it, port, &mut err) }
                    }
                    _ => {
                        let mut ic = IterCtx { items: fns.iter().zip(names).map(|(f, n)| CNamed { func: *f, name: strt(n) }).collect::<Vec<_>>(), pos: 0 };
                        let it = c_iter(&mut ic, false);
                        unsafe { (api.manager_visualize_with_names_iter)(cm.0, dn.as_ptr().cast(), dn.len(), it, port, &mut err) }
                    }
                };
                let (init, msg) = unsafe { take_err(err) };
                let _ = tx.send((ok, init, msg));
            });
            // fetch
            let t0 = std::time::Instant::now();
            let mut body = String::new();
            let mut result = None;
            while t0.elapsed().as_millis() < 4000 {
                if let Ok(r) = rx.try_recv() {
                    result = Some(r);
                    break;
                }
                if body.is_empty() {
                    if let Ok(mut s) = std::net::TcpStream::connect(("localhost", port)) {
                        let _ = s.set_read_timeout(Some(std::time::Duration::from_millis(1500)));
                        let _ = s.write_all(b"GET /diagrams HTTP/1.1\r\nHost: localhost\r\nConnection: close\r\n\r\n");
                        let mut buf = Vec::new();
                        let mut chunk = [0u8; 4096];
                        while let Ok(k) = s.read(&mut chunk) {
                            if k == 0 {
                                break;
                            }
                            buf.extend_from_slice(&chunk[..k]);
                            // headers + body complete?
                            let text = String::from_utf8_lossy(&buf);
                            if let Some(p) = text.find("\r\n\r\n") {
                                let len: usize = text[..p].lines().find_map(|l| l.to_ascii_lowercase().strip_prefix("content-length:").map(|v| v.trim().parse().unwrap_or(0))).unwrap_or(0);
                                if buf.len() >= p + 4 + len {
                                    break;
                                }
                            }
                        }
                        body = String::from_utf8_lossy(&buf).into_owned();
                    }
                }
                std::thread::sleep(std::time::Duration::from_millis(5));
            }
            if result.is_none() {
                result = rx.recv_timeout(std::time::Duration::from_millis(2000)).ok();
            }
            self.called(ctx, fname, &self.shape(which));
            self.logp(format!("{}(m, \"c19vis\", {} functions, port {port})", fq::<K>(fname), which.len()));
            match result {
                None => {
                    // still serving: nobody fetched (e.g. no loopback networking in this sandbox); the thread is left behind
                    ctx.count("visualize_not_fetched", 1);
                    drop(h);
                }
                Some((ok, init, msg)) => {
                    let _ = h.join();
                    ctx.eval();
                    if !init {
                        self.viol(ctx, "error-not-initialized-by", fname, format!("returned {ok}"));
                    }
                    if ok {
                        ctx.count("visualize_served", 1);
                        ctx.eval();
                        if !body.contains("200 OK") || !body.contains("c19vis") {
                            self.viol(ctx, "served-data-incomplete", fname, body.chars().take(200).collect());
                        }
                    } else {
                        ctx.count("visualize_failed", 1);
                        let _ = msg;
                    }
                }
            }
            self.audit(ctx, fname);
            self.check_operands(ctx, fname, which);
        }

        // ------------------------------------------------------------------ end of a sequence

        fn gc_until(&mut self, want: usize) -> usize {
            let api = K::api();
            let mut left = usize::MAX;
            // `gc()` returns at once while the background collector is at work: bounded retry
            for _ in 0..300 {
                unsafe { (api.manager_gc)(self.cm) };
                left = unsafe { (api.manager_num_inner_nodes)(self.cm) };
                if left == want {
                    break;
                }
                std::thread::sleep(std::time::Duration::from_millis(1));
            }
            left
        }

        /// unref every handle, collect, require an empty manager, give the manager references back and
        /// require the store to be freed. `variant` 0: functions first; 1: manager references first (the
        /// functions keep the store alive, a new manager handle comes from `containing_manager`)
        fn teardown(mut self, ctx: &mut Ctx, rng: &mut Rng, variant: u8) {
            let api = K::api();
            let tainted = !self.audits.get();
            while !self.subs.is_empty() {
                self.free_subst(ctx, 0);
            }
            // the mirror goes first
            for e in self.ents.iter_mut() {
                e.r = None;
                e.tt = None;
            }
            self.rm = None;
            let l = wait_for(self.base_live + 1, 2000);
            ctx.eval();
            if l > self.base_live + 1 && cfg!(oxidd_verif) {
                ctx.violation("ffi:rust-mirror-manager-not-freed", self.witness(&format!("LIVE_STORES {l}, baseline {}", self.base_live)));
            }
            let want = if K::SEM == Sem::ZeroSup { self.nvars as usize } else { 0 };
            let mut keep: Option<usize> = None;
            if variant == 1 {
                keep = (1..self.ents.len()).find(|&i| !self.ents[i].c.p.is_null());
            }
            if let Some(k) = keep {
                // give all manager references back while function handles are still around
                while self.mgr_refs > 0 {
                    unsafe { (api.manager_unref)(self.cm) };
                    self.called(ctx, "manager_unref", "functions-alive");
                    self.logp(format!("{}(m)", fq::<K>("manager_unref")));
                    self.mgr_refs -= 1;
                }
                std::thread::sleep(std::time::Duration::from_millis(3));
                ctx.eval();
                if cfg!(oxidd_verif) && live_stores() < self.base_live + 1 {
                    self.viol(ctx, "manager-freed-while-functions-alive", "manager_unref", format!("{} function handles still owned", self.ents.len() - 1));
                    return;
                }
                let m2 = unsafe { (api.containing_manager)(self.c(k)) };
                self.called(ctx, "containing_manager", "after-manager-unref");
                self.logp(format!("m = {}({})", fq::<K>("containing_manager"), self.hname(k)));
                self.cm = m2;
                self.mgr_refs = 1;
            }
            // functions in random order, reference by reference
            let mut todo: Vec<usize> = Vec::new();
            for i in 1..self.ents.len() {
                for _ in 0..self.ents[i].owned.max(1) {
                    todo.push(i);
                }
            }
            rng.shuffle(&mut todo);
            let hs: Vec<String> = todo.iter().map(|&i| self.hname(i)).collect();
            self.logp(format!("{} each of [{}]", fq::<K>("unref"), hs.join(", ")));
            for (k, &i) in todo.iter().enumerate() {
                unsafe { (api.unref)(self.c(i)) };
                self.called(ctx, "unref", "teardown");
                if self.ents[i].owned > 0 {
                    self.ents[i].owned -= 1;
                }
                if k % 4 == 3 {
                    self.audit(ctx, "unref");
                }
            }
            self.ents.truncate(1);
            self.audit(ctx, "unref");
            let left = self.gc_until(want);
            self.called(ctx, "manager_gc", "teardown");
            self.logp(format!("{}(m)", fq::<K>("manager_gc")));
            ctx.eval();
            if left != want && !tainted {
                let sig = format!("{}:ffi:nodes-left-after-unref-all", K::NAME);
                ctx.violation(&sig, self.witness(&format!("{left} inner nodes after unref of every handle + gc, expected {want}")));
            }
            // manager references: the store must survive until the last one
            while self.mgr_refs > 0 {
                if self.mgr_refs == 1 && cfg!(oxidd_verif) {
                    std::thread::sleep(std::time::Duration::from_millis(2));
                    ctx.eval();
                    if live_stores() < self.base_live + 1 {
                        self.viol(ctx, "manager-freed-before-last-unref", "manager_unref", String::new());
                        return;
                    }
                }
                unsafe { (api.manager_unref)(self.cm) };
                self.called(ctx, "manager_unref", "teardown");
                self.logp(format!("{}(m)", fq::<K>("manager_unref")));
                self.mgr_refs -= 1;
            }
            let l = wait_freed(self.base_live);
            ctx.eval();
            if l > self.base_live {
                let sig = match &self.suspect {
                    Some(x) => format!("{}:ffi:manager-not-freed-after:{x}", K::NAME),
                    None => "ffi:manager-not-freed".to_string(),
                };
                ctx.violation(&sig, self.witness(&format!("LIVE_STORES {l} after the last reference was given back (waited up to 2 s), baseline {}", self.base_live)));
            } else if l < self.base_live {
                ctx.violation("ffi:manager-freed-twice", self.witness(&format!("LIVE_STORES {l} below the baseline {}", self.base_live)));
            }
            ctx.count("sequences", 1);
        }

        // ------------------------------------------------------------------ random call sequences

        /// a valid entry, or (with a fixed probability) the invalid handle / an invalid result
        fn pick(&self, rng: &mut Rng) -> usize {
            let p_inv = if self.small { 6 } else { 12 };
            let inv: Vec<usize> = (0..self.ents.len()).filter(|&i| self.ents[i].r.is_none()).collect();
            let val: Vec<usize> = (1..self.ents.len()).filter(|&i| self.ents[i].r.is_some()).collect();
            if val.is_empty() || rng.below(p_inv) == 0 {
                return *rng.pick(&inv);
            }
            *rng.pick(&val)
        }
        fn pick_valid(&self, rng: &mut Rng) -> Option<usize> {
            let v: Vec<usize> = (1..self.ents.len()).filter(|&i| self.ents[i].r.is_some()).collect();
            if v.is_empty() { None } else { Some(*rng.pick(&v)) }
        }
        /// operand for a `vars` / literal-set position: a suitable cube (built on demand) or invalid
        fn pick_cube_operand(&mut self, ctx: &mut Ctx, rng: &mut Rng, positive: bool) -> usize {
            if rng.below(10) == 0 {
                return 0;
            }
            let v: Vec<usize> = (1..self.ents.len()).filter(|&i| self.ents[i].r.is_some() && if positive { self.ents[i].pos_cube } else { self.ents[i].cube }).collect();
            if !v.is_empty() && rng.below(3) != 0 {
                return *rng.pick(&v);
            }
            let mut lits: Vec<(u32, bool)> = Vec::new();
            for v in 0..self.nvars {
                if rng.bool() {
                    lits.push((v, positive || rng.bool()));
                }
            }
            let i = self.build_cube(ctx, &lits);
            if self.ents[i].r.is_some() { i } else { 0 }
        }

        fn random_step(&mut self, ctx: &mut Ctx, rng: &mut Rng) {
            let n = self.nvars;
            if n == 0 {
                self.add_vars(ctx, 2);
                return;
            }
            // at most two invalid results are kept as operands (besides the INVALID constant)
            let inv: Vec<usize> = (1..self.ents.len()).filter(|&i| self.ents[i].r.is_none()).collect();
            if inv.len() > 2 {
                self.unref(ctx, inv[0]);
                return;
            }
            // keep the registry small
            if self.ents.len() > 14 || (self.ents.len() > 6 && rng.below(5) == 0) {
                let i = 1 + rng.usize(self.ents.len() - 1);
                self.unref(ctx, i);
                return;
            }
            let quant = K::qapi().is_some();
            let zb = K::zapi().is_some();
            let w = rng.below(100);
            match w {
                0..=9 => {
                    self.leaf(ctx, rng.below(4) as u8, rng.below(n as u64) as u32);
                }
                10..=13 => {
                    let a = self.pick(rng);
                    self.not(ctx, a);
                }
                14..=31 => {
                    let (a, b) = (self.pick(rng), self.pick(rng));
                    self.bin(ctx, *rng.pick(&ALL_BOPS), a, b);
                }
                32..=36 => {
                    let (a, b, c) = (self.pick(rng), self.pick(rng), self.pick(rng));
                    self.ite(ctx, a, b, c);
                }
                37..=42 => {
                    let a = self.pick(rng);
                    self.cofactor(ctx, rng.below(3) as u8, a);
                }
                43..=49 => {
                    if let Some(a) = self.pick_valid(rng) {
                        self.queries(ctx, a, rng);
                    }
                }
                50..=53 => {
                    let a = self.pick(rng);
                    if rng.bool() {
                        self.pick_cube_dd(ctx, a, None);
                    } else {
                        let s = self.pick_cube_operand(ctx, rng, false);
                        let a = a.min(self.ents.len() - 1);
                        self.pick_cube_dd(ctx, a, Some(s));
                    }
                }
                54..=59 => {
                    let a = self.pick(rng);
                    self.ref_(ctx, a);
                }
                60..=65 => {
                    let a = self.pick(rng);
                    self.unref(ctx, a);
                }
                66..=68 => {
                    let a = self.pick_valid(rng).unwrap_or(0);
                    self.mgr_ref_ops(ctx, rng.below(3) as u8, a);
                }
                69..=71 => self.mgr_queries(ctx),
                72..=74 => {
                    if self.small {
                        self.check_names(ctx, "nothing");
                    } else {
                        match rng.below(3) {
                            0 if n < 6 => {
                                let k = rng.range(1, (6 - n as usize).min(2));
                                let pool = ["", "a", "b", "x y", "ä", "c", ""];
                                let names: Vec<String> = (0..k).map(|_| rng.pick(&pool).to_string()).collect();
                                self.add_named_vars(ctx, &names, rng.below(4) as u8);
                            }
                            1 if n < 6 => self.add_vars(ctx, 1),
                            _ => {
                                let pool = ["", "a", "b", "n0", "n1", "ä"];
                                let name = rng.pick(&pool).to_string();
                                self.set_var_name(ctx, rng.below(n as u64) as u32, &name);
                            }
                        }
                    }
                }
                75..=77 => self.gc(ctx),
                78..=79 => {
                    // known: set_var_order aborts on a full manager (C14) -> ample managers only
                    if !self.small {
                        let mut order = rng.perm(n as usize);
                        if rng.below(3) == 0 {
                            order.truncate(rng.range(0, n as usize));
                        }
                        self.set_var_order(ctx, &order);
                    }
                }
                80..=83 => {
                    let k = rng.range(1, 3);
                    let which: Vec<usize> = (0..k).filter_map(|_| if rng.below(12) == 0 { Some(0) } else { self.pick_valid(rng) }).collect();
                    if which.is_empty() {
                        return;
                    }
                    match rng.below(3) {
                        0 => self.dump_dot(ctx, &which, rng.below(3) as u8),
                        _ => {
                            let settings = if rng.bool() { None } else { Some((rng.below(2) as u8, rng.bool())) };
                            self.dddmp_roundtrip(ctx, &which, rng.below(4) as u8, settings);
                        }
                    }
                }
                84 => {
                    let (a, b) = (self.pick(rng), self.pick(rng));
                    self.run_in_pool(ctx, a, b);
                }
                85 => {
                    if let Some(a) = self.pick_valid(rng) {
                        self.failing_exports(ctx, a);
                    }
                }
                _ if quant => match rng.below(5) {
                    0 => {
                        let v = self.pick_cube_operand(ctx, rng, false);
                        let a = self.pick(rng);
                        self.restrict(ctx, a, v);
                    }
                    1 | 2 => {
                        let v = self.pick_cube_operand(ctx, rng, true);
                        let a = self.pick(rng);
                        self.quant(ctx, *rng.pick(&ALL_QUANTS), a, v);
                    }
                    3 => {
                        let v = self.pick_cube_operand(ctx, rng, true);
                        let (a, b) = (self.pick(rng), self.pick(rng));
                        self.apply_quant(ctx, *rng.pick(&ALL_QUANTS), *rng.pick(&ALL_BOPS), a, b, v);
                    }
                    _ => {
                        let a = self.pick(rng);
                        let mut vars = rng.perm(n as usize);
                        vars.truncate(rng.range(0, n as usize));
                        let pairs: Vec<(u32, usize)> = vars.into_iter().filter_map(|v| self.pick_valid(rng).map(|i| (v, i))).collect();
                        self.substitute(ctx, a, &pairs, rng.below(10) == 0, rng.below(4) == 0);
                    }
                },
                _ if zb => match rng.below(6) {
                    0 => {
                        self.z_leaf(ctx, *rng.pick(&[ZOp::Singleton, ZOp::Empty, ZOp::Base]), rng.below(n as u64) as u32);
                    }
                    1 | 2 => {
                        let a = self.pick(rng);
                        self.z_var_op(ctx, *rng.pick(&[ZOp::Subset0, ZOp::Subset1, ZOp::Change]), a, rng.below(n as u64) as u32);
                    }
                    3 | 4 => {
                        let (a, b) = (self.pick(rng), self.pick(rng));
                        self.z_bin(ctx, *rng.pick(&[ZOp::Union, ZOp::Intsec, ZOp::Diff]), a, b);
                    }
                    _ => self.random_make_node(ctx, rng),
                },
                _ => {}
            }
        }

        /// make_node with operands that satisfy the documented precondition (var's level above the
        /// levels of hi and lo) or are invalid
        fn random_make_node(&mut self, ctx: &mut Ctx, rng: &mut Rng) {
            let n = self.nvars;
            let v = rng.below(n as u64) as u32;
            let var = if rng.below(8) == 0 { 0 } else { self.z_leaf(ctx, ZOp::Singleton, v) };
            let vl = unsafe { (K::api().manager_var_to_level)(self.cm, v) };
            let below: Vec<usize> = (1..self.ents.len())
                .filter(|&i| i != var && self.ents[i].r.is_some() && {
                    let l = unsafe { (K::api().node_level)(self.c(i)) };
                    l == u32::MAX || l > vl
                })
                .collect();
            let choose = |rng: &mut Rng| -> usize { if below.is_empty() || rng.below(6) == 0 { 0 } else { *rng.pick(&below) } };
            let (hi, lo) = (choose(rng), choose(rng));
            // one reference of hi and of lo is given away: take extra ones so that the entries survive
            for i in [hi, lo] {
                if i != 0 {
                    self.ref_(ctx, i);
                }
            }
            self.z_make_node(ctx, var, hi, lo);
        }
    }

    // ---------------------------------------------------------------------------------------------
    // coverage bookkeeping: every exported symbol of the FFI crate
    // ---------------------------------------------------------------------------------------------

    macro_rules! sname {
        ($f:ident) => {
            stringify!($f)
        };
        ($f:ident, $l:literal) => {
            $l
        };
    }
    macro_rules! def_names {
        ($name:ident; $( $f:ident $(= $l:literal)? ( $($a:ident : $t:ty),* ) $(-> $r:ty)? ; )* ) => {
            pub const $name: &[&str] = &[ $( sname!($f $(, $l)?), )* ];
        };
    }
    common_fns!(def_names; COMMON_NAMES;);
    quant_fns!(def_names; QUANT_NAMES;);
    zbdd_fns!(def_names; ZBDD_NAMES;);
    const UTIL_NAMES: &[&str] = &[
        "oxidd_error_clone", "oxidd_error_free", "oxidd_assignment_free", "oxidd_string_clone", "oxidd_string_free", "oxidd_natural_free",
        "oxidd_natural_eq", "oxidd_natural_cmp", "oxidd_natural_to_string", "oxidd_natural_clone", "oxidd_dddmp_open", "oxidd_dddmp_close",
        "oxidd_dddmp_diagram_name", "oxidd_dddmp_num_nodes", "oxidd_dddmp_num_vars", "oxidd_dddmp_num_support_vars", "oxidd_dddmp_support_vars",
        "oxidd_dddmp_support_var_order", "oxidd_dddmp_support_var_to_level", "oxidd_dddmp_has_var_names", "oxidd_dddmp_var_name",
        "oxidd_dddmp_num_roots", "oxidd_dddmp_has_root_names", "oxidd_dddmp_root_name",
    ];
    fn all_symbols() -> BTreeSet<String> {
        let mut s = BTreeSet::new();
        for k in ["bdd", "bcdd", "zbdd"] {
            for f in COMMON_NAMES {
                s.insert(format!("oxidd_{k}_{f}"));
            }
        }
        for k in ["bdd", "bcdd"] {
            for f in QUANT_NAMES {
                s.insert(format!("oxidd_{k}_{f}"));
            }
        }
        for f in ZBDD_NAMES {
            s.insert(format!("oxidd_zbdd_{f}"));
        }
        for f in UTIL_NAMES {
            s.insert(f.to_string());
        }
        s
    }
    fn report_coverage(ctx: &mut Ctx) {
        let all = all_symbols();
        let cov = COVERED.lock().unwrap().clone();
        let missing: Vec<&String> = all.iter().filter(|s| !cov.contains(*s)).collect();
        ctx.count("ffi_functions_covered", cov.intersection(&all).count() as u64);
        ctx.count("ffi_functions_exported", all.len() as u64);
        ctx.sample(|| format!("this shard called {} of the {} exported oxidd_* symbols; not called: {missing:?}", all.len() - missing.len(), all.len()));
    }

    /// 2 s for the first store that is not freed, 300 ms afterwards (keeps runs with a known leak short)
    static LEAK_SEEN: std::sync::atomic::AtomicBool = std::sync::atomic::AtomicBool::new(false);
    fn wait_freed(base: i64) -> i64 {
        let ms = if LEAK_SEEN.load(std::sync::atomic::Ordering::Relaxed) { 300 } else { 2000 };
        let l = wait_for(base, ms);
        if l > base {
            LEAK_SEEN.store(true, std::sync::atomic::Ordering::Relaxed);
        }
        l
    }

    fn case_line(label: &str) {
        println!("@@{{\"t\":\"case\",\"case\":{}}}", crate::ctx::json_str(label));
    }

    // ---------------------------------------------------------------------------------------------
    // drivers
    // ---------------------------------------------------------------------------------------------

    static PORT_NO: std::sync::atomic::AtomicU32 = std::sync::atomic::AtomicU32::new(0);
    fn next_port() -> u16 {
        let k = PORT_NO.fetch_add(1, std::sync::atomic::Ordering::Relaxed);
        (21000 + (std::process::id().wrapping_mul(37).wrapping_add(k * 101)) % 20000) as u16
    }

    fn run_sequence<K: FfiKind>(ctx: &mut Ctx, rng: &mut Rng, seq: usize, small: bool, steps: usize, vis: bool)
    where
        for<'id> MgrOf<'id, K>: HasWorkers,
        for<'x> INodeOfFunc<'x, K::F>: HasLevel,
    {
        let n = rng.range(2, if small { 4 } else { 5 }) as u32;
        let cap = if !small {
            1 << 14
        } else if K::SEM == Sem::ZeroSup {
            // known (C14): add_vars aborts if the tautology chain does not fit
            n as usize + rng.range(1, 10)
        } else {
            rng.range(2, 14)
        };
        let threads = if rng.below(4) == 0 { 2 } else { 1 };
        let variant = rng.below(2) as u8;
        let label = format!("c19_ffi seq={seq} kind={} n={n} cap={cap} threads={threads} steps={steps} teardown={variant} seed={} shard={}/{}", K::NAME, ctx.seed, ctx.shard, ctx.nshards);
        case_line(&label);
        let mut s = Sess::<K>::new(ctx, n, cap, small, threads, &format!("seq {seq}"));
        for _ in 0..steps {
            s.random_step(ctx, rng);
        }
        if vis {
            if let Some(a) = s.pick_valid(rng) {
                for v in 0..3u8 {
                    s.visualize(ctx, &[a, 0], v, next_port());
                }
            }
        }
        s.mgr_queries(ctx);
        if seq < 3 {
            unsafe { (K::api().print_stats)() };
            cover(&fq::<K>("print_stats"));
        }
        s.teardown(ctx, rng, variant);
    }

    /// standalone reference-count audit (used where no `Sess` exists)
    fn refcount_errs<K: FfiKind>(cm: CMgr, owned: &[(CFn, usize)]) -> Vec<(String, String)>
    where
        for<'x> INodeOfFunc<'x, K::F>: HasLevel,
    {
        let m = unsafe { K::mgr_of(cm) };
        let s = m.with_manager_exclusive(|m| audit::structural(&*m, K::rule(), &|t| K::SEM == Sem::ZeroSup && !K::term(t)));
        let mut ext: HashMap<NodeID, usize> = HashMap::new();
        m.with_manager_shared(|mm| {
            let t = K::F::t(mm);
            let mut id = t.as_edge(mm).node_id();
            while let Some((_, ch)) = s.node_children.get(&id) {
                *ext.entry(id).or_insert(0) += 1;
                id = ch[0].0;
            }
        });
        for (c, n) in owned {
            if c.p.is_null() {
                continue;
            }
            let id = unsafe { K::func_of(*c) }.with_manager_shared(|_, e| e.node_id());
            if s.node_children.contains_key(&id) {
                *ext.entry(id).or_insert(0) += n;
            }
        }
        audit::refcounts(&s, &ext)
    }

    /// 2..3 threads work on one manager through the C API (every entry point documents its locking
    /// behaviour; handles are plain values). Each thread checks its results against truth tables.
    fn threaded<K: FfiKind>(ctx: &mut Ctx, rng: &mut Rng, round: usize)
    where
        for<'id> MgrOf<'id, K>: HasWorkers,
        for<'x> INodeOfFunc<'x, K::F>: HasLevel,
    {
        let api = K::api();
        let n = 4u32;
        let nthreads = rng.range(2, 3);
        let steps = 150usize;
        case_line(&format!("c19_ffi threads round={round} kind={} threads={nthreads} seed={} shard={}", K::NAME, ctx.seed, ctx.shard));
        let base = live_stores();
        let cm = unsafe { (api.manager_new)(1 << 14, 1 << 10, 2) };
        unsafe { (api.manager_add_vars)(cm, n) };
        let xs: Vec<CFn> = (0..n).map(|v| unsafe { (api.var)(cm, v) }).collect();
        let eval_tt = move |c: CFn| {
            Tt::from_fn(n, |a| {
                let args: Vec<CVarBool> = (0..n).map(|v| CVarBool { var: v, val: (a >> v) & 1 == 1 }).collect();
                unsafe { (api.eval)(c, args.as_ptr(), args.len()) }
            })
        };
        let mut handles = Vec::new();
        for t in 0..nthreads {
            let seed = rng.next();
            let xs2 = SendPtr(xs.clone());
            let cm2 = SendPtr(cm);
            handles.push(std::thread::spawn(move || {
                let xs2 = xs2;
                let cm2 = cm2;
                let mut rng = Rng::new(seed);
                let mut errs: Vec<(String, String)> = Vec::new();
                let mut calls = 0u64;
                // every thread takes its own references to the shared variables
                let mut own: Vec<(CFn, Tt)> = xs2.0.iter().enumerate().map(|(v, x)| (unsafe { (api.ref_)(*x) }, Tt::var(n, v as u32))).collect();
                let m2 = unsafe { (api.manager_ref)(cm2.0) };
                for step in 0..steps {
                    let a = rng.usize(own.len());
                    let b = rng.usize(own.len());
                    let c3 = rng.usize(own.len());
                    calls += 1;
                    let (name, c, t) = match rng.below(10) {
                        0 => ("not", unsafe { (api.not)(own[a].0) }, own[a].1.not()),
                        1 | 2 => ("and", unsafe { (api.and)(own[a].0, own[b].0) }, own[a].1.and(&own[b].1)),
                        3 => ("or", unsafe { (api.or)(own[a].0, own[b].0) }, own[a].1.or(&own[b].1)),
                        4 => ("xor", unsafe { (api.xor)(own[a].0, own[b].0) }, own[a].1.xor(&own[b].1)),
                        5 => ("ite", unsafe { (api.ite)(own[a].0, own[b].0, own[c3].0) }, own[a].1.ite(&own[b].1, &own[c3].1)),
                        6 => ("ref", unsafe { (api.ref_)(own[a].0) }, own[a].1.clone()),
                        7 => {
                            if own.len() > n as usize {
                                let (h, _) = own.swap_remove(a);
                                unsafe { (api.unref)(h) };
                            }
                            continue;
                        }
                        8 => {
                            let d = unsafe { (api.sat_count_double)(own[a].0, n) };
                            if d != own[a].1.count_ones() as f64 {
                                errs.push(("result-differs-from-rust:sat_count_double".into(), format!("thread {t} step {step}: {} -> {d}", own[a].1)));
                            }
                            let nc = unsafe { (api.node_count)(own[a].0) };
                            if nc == 0 {
                                errs.push(("result-differs-from-rust:node_count".into(), format!("thread {t} step {step}: node_count 0")));
                            }
                            continue;
                        }
                        _ => {
                            if t == 0 && step % 16 == 0 {
                                unsafe { (api.manager_gc)(m2) };
                            } else {
                                let _ = unsafe { (api.manager_num_inner_nodes)(m2) };
                            }
                            continue;
                        }
                    };
                    if c.p.is_null() {
                        errs.push((format!("unexpected-invalid-result:{name}"), format!("thread {t} step {step}")));
                        continue;
                    }
                    let got = eval_tt(c);
                    if got != t {
                        errs.push((format!("result-differs-from-rust:{name}"), format!("thread {t} step {step}: expected {t}, handle denotes {got}")));
                    }
                    own.push((c, t));
                    if own.len() > 24 {
                        let (h, _) = own.swap_remove(rng.usize(own.len()));
                        unsafe { (api.unref)(h) };
                    }
                }
                unsafe { (api.manager_unref)(m2) };
                (SendPtr(own), errs, calls)
            }));
        }
        let mut owned: Vec<(CFn, usize)> = xs.iter().map(|x| (*x, 1)).collect();
        let mut tables: Vec<(CFn, Tt)> = Vec::new();
        for h in handles {
            let (own, errs, calls) = h.join().expect("worker thread panicked");
            ctx.count("ffi_calls", calls);
            ctx.evals(calls);
            for (clause, d) in errs {
                ctx.violation(&format!("{}:ffi:threads:{clause}", K::NAME), d);
            }
            for (c, t) in own.0 {
                owned.push((c, 1));
                tables.push((c, t));
            }
        }
        // quiescent: every handle still denotes its function; counts are exact
        for (c, t) in &tables {
            ctx.eval();
            let got = eval_tt(*c);
            if got != *t {
                ctx.violation(&format!("{}:ffi:threads:handle-changed-function", K::NAME), format!("expected {t}, now {got}"));
            }
        }
        ctx.eval();
        if let Some((clause, d)) = refcount_errs::<K>(cm, &owned).first() {
            ctx.violation(&format!("{}:ffi:threads:{clause}", K::NAME), format!("{nthreads} threads x {steps} calls on one manager, then quiescent: {d}"));
        }
        for (c, k) in &owned {
            for _ in 0..*k {
                unsafe { (api.unref)(*c) };
            }
        }
        let want = if K::SEM == Sem::ZeroSup { n as usize } else { 0 };
        let mut left = usize::MAX;
        for _ in 0..300 {
            unsafe { (api.manager_gc)(cm) };
            left = unsafe { (api.manager_num_inner_nodes)(cm) };
            if left == want {
                break;
            }
            std::thread::sleep(std::time::Duration::from_millis(1));
        }
        ctx.eval();
        if left != want {
            ctx.violation(&format!("{}:ffi:threads:nodes-left-after-unref-all", K::NAME), format!("{left} nodes left, expected {want}"));
        }
        unsafe { (api.manager_unref)(cm) };
        let l = wait_freed(base);
        ctx.eval();
        if l != base {
            ctx.violation("ffi:manager-not-freed", format!("{} threads scenario: LIVE_STORES {l}, baseline {base}", K::NAME));
        }
        ctx.distinct((K::NAME, "threads", round));
        ctx.count("thread_scenarios", 1);
    }
    /// sat_count results that do not fit the inline representation of `oxidd_natural_t`
    fn bignat<K: FfiKind>(ctx: &mut Ctx)
    where
        for<'id> MgrOf<'id, K>: HasWorkers,
        for<'x> INodeOfFunc<'x, K::F>: HasLevel,
    {
        let api = K::api();
        let n = 70u32;
        case_line(&format!("c19_ffi bignat kind={}", K::NAME));
        let base = live_stores();
        let cm = unsafe { (api.manager_new)(1 << 16, 1 << 10, 1) };
        unsafe { (api.manager_add_vars)(cm, n) };
        let rm = setup::<K>(1 << 16, 1 << 10, 1, n);
        // x0 | … | x69 has 2^70 - 1 models. (ZBDD: "all subsets but the empty one" through the set
        // operations; the Boolean connectives on 70 ZBDD variables are exponential without an apply cache.)
        let (f, rf) = if let Some(z) = K::zapi() {
            let t = unsafe { (api.true_)(cm) };
            let b = unsafe { (z.base)(cm) };
            let f = unsafe { (z.diff)(t, b) };
            unsafe {
                (api.unref)(t);
                (api.unref)(b);
            }
            let rt = rm.with_manager_shared(|m| K::F::t(m));
            let rb = K::z_mirror(ZOp::Base, &rm, &[], 0);
            (f, K::z_mirror(ZOp::Diff, &rm, &[rt, rb], 0))
        } else {
            let mut f = unsafe { (api.false_)(cm) };
            let mut rf = rm.with_manager_shared(|m| K::F::f(m));
            for v in 0..n {
                let x = unsafe { (api.var)(cm, v) };
                let g = unsafe { (api.or)(f, x) };
                unsafe {
                    (api.unref)(f);
                    (api.unref)(x);
                }
                f = g;
                rf = rf.or(&rm.with_manager_shared(|m| K::F::var(m, v)).unwrap()).unwrap();
            }
            (f, rf)
        };
        ctx.count("ffi_calls", 3 * n as u64);
        type H = std::hash::BuildHasherDefault<oxidd::util::FxHasher>;
        let rn = rf.sat_count::<oxidd::util::num::Natural, H>(n, &mut Default::default()).to_string();
        let nat = unsafe { (api.sat_count)(f, n) };
        let s = unsafe { oxidd_natural_to_string(&nat) };
        let text = unsafe { string_of(&s) };
        let dbl = unsafe { (api.sat_count_double)(f, n) };
        let want = ((1u128 << 70) - 1).to_string();
        ctx.eval();
        if text != want || rn != want || nat.ptr.is_null() || dbl != ((1u128 << 70) - 1) as f64 {
            ctx.violation(&format!("{}:ffi:result-differs-from-rust:sat_count", K::NAME), format!("x0 | … | x69 over 70 variables: C {text} (heap digits: {}), Rust {rn}, expected {want}; double {dbl}", !nat.ptr.is_null()));
        }
        let nat2 = unsafe { oxidd_natural_clone(&nat) };
        let x0 = unsafe { (api.var)(cm, 0) };
        let small = unsafe { (api.sat_count)(x0, n) }; // 2^69: inline representation
        unsafe { (api.unref)(x0) };
        let (eq, cmp, cmp2, eq2) = unsafe { (oxidd_natural_eq(&nat, &nat2), oxidd_natural_cmp(&nat, &nat2), oxidd_natural_cmp(&small, &nat), oxidd_natural_eq(&small, &nat)) };
        let s2 = unsafe { oxidd_natural_to_string(&nat2) };
        ctx.eval();
        if !eq || cmp != 0 || cmp2 != -1 || eq2 || unsafe { string_of(&s2) } != want || nat2.ptr == nat.ptr {
            ctx.violation("ffi:natural-utils", format!("{want}: clone eq {eq} cmp {cmp}; 2^69 vs it: cmp {cmp2} eq {eq2}; clone prints {:?}; clone shares digits: {}", unsafe { string_of(&s2) }, nat2.ptr == nat.ptr));
        }
        unsafe {
            oxidd_string_free(s);
            oxidd_string_free(s2);
            oxidd_natural_free(nat);
            oxidd_natural_free(nat2);
            oxidd_natural_free(small);
            (api.unref)(f);
        }
        for f in ["natural_clone", "natural_eq", "natural_cmp", "natural_to_string", "natural_free", "string_free"] {
            cover(&format!("oxidd_{f}"));
        }
        ctx.distinct((K::NAME, "bignat"));
        drop(rf);
        drop(rm);
        unsafe { (api.manager_gc)(cm) };
        let left = unsafe { (api.manager_num_inner_nodes)(cm) };
        let want_nodes = if K::SEM == Sem::ZeroSup { n as usize } else { 0 };
        ctx.eval();
        if left != want_nodes {
            ctx.violation(&format!("{}:ffi:nodes-left-after-unref-all", K::NAME), format!("bignat scenario: {left} nodes left, expected {want_nodes}"));
        }
        unsafe { (api.manager_unref)(cm) };
        let l = wait_freed(base);
        ctx.eval();
        if l != base {
            ctx.violation("ffi:manager-not-freed", format!("{} bignat scenario: LIVE_STORES {l}, baseline {base}", K::NAME));
        }
    }
    /// short fixed sequences around the reference counts of the manager itself
    fn patterns<K: FfiKind>(ctx: &mut Ctx, p: usize)
    where
        for<'id> MgrOf<'id, K>: HasWorkers,
        for<'x> INodeOfFunc<'x, K::F>: HasLevel,
    {
        if !cfg!(oxidd_verif) {
            return;
        }
        let api = K::api();
        let k = K::NAME;
        case_line(&format!("c19_ffi_enum pattern {p} kind={k}"));
        let base = live_stores();
        let mut log: Vec<String> = vec![format!("m = oxidd_{k}_manager_new(64, 16, 1)")];
        let m = unsafe { (api.manager_new)(64, 16, 1) };
        let alive = |ctx: &mut Ctx, log: &Vec<String>, what: &str| {
            std::thread::sleep(std::time::Duration::from_millis(3));
            ctx.eval();
            if live_stores() != base + 1 {
                ctx.violation(&format!("{k}:ffi:manager-freed-early"), format!("{} => store gone {what}", log.join(" ; ")));
                false
            } else {
                true
            }
        };
        let freed = |ctx: &mut Ctx, log: &Vec<String>| {
            let l = wait_freed(base);
            ctx.eval();
            if l > base {
                ctx.violation("ffi:manager-not-freed", format!("{} => LIVE_STORES {l}, baseline {base}", log.join(" ; ")));
            } else if l < base {
                ctx.violation("ffi:manager-freed-twice", format!("{} => LIVE_STORES {l}, baseline {base}", log.join(" ; ")));
            }
        };
        match p {
            0 => {
                log.push(format!("oxidd_{k}_manager_unref(m)"));
                unsafe { (api.manager_unref)(m) };
            }
            1 => {
                for r in 1..=3 {
                    // r extra references, given back one by one; the store lives until the very last unref
                    for _ in 0..r {
                        let m2 = unsafe { (api.manager_ref)(m) };
                        log.push(format!("oxidd_{k}_manager_ref(m)"));
                        ctx.check(m2 == m, &format!("{k}:ffi:returns-other-manager:manager_ref"), || log.join(" ; "));
                    }
                    for _ in 0..r {
                        unsafe { (api.manager_unref)(m) };
                        log.push(format!("oxidd_{k}_manager_unref(m)"));
                    }
                    if !alive(ctx, &log, "although one reference is still owned") {
                        return;
                    }
                }
                log.push(format!("oxidd_{k}_manager_unref(m)"));
                unsafe { (api.manager_unref)(m) };
            }
            2 => {
                unsafe { (api.manager_add_vars)(m, 2) };
                let f = unsafe { (api.var)(m, 0) };
                log.push(format!("oxidd_{k}_manager_add_vars(m, 2) ; f = oxidd_{k}_var(m, 0) ; oxidd_{k}_manager_unref(m)"));
                unsafe { (api.manager_unref)(m) };
                if !alive(ctx, &log, "although a function handle is still owned") {
                    return;
                }
                let args = [CVarBool { var: 0, val: true }, CVarBool { var: 1, val: false }];
                let v = unsafe { (api.eval)(f, args.as_ptr(), 2) };
                ctx.check(v, &format!("{k}:ffi:result-differs-from-rust:eval"), || format!("{} ; eval(f, x0=1) = false", log.join(" ; ")));
                log.push(format!("oxidd_{k}_unref(f)"));
                unsafe { (api.unref)(f) };
            }
            3 => {
                unsafe { (api.manager_add_vars)(m, 2) };
                let f = unsafe { (api.var)(m, 1) };
                let m2 = unsafe { (api.containing_manager)(f) };
                log.push(format!("oxidd_{k}_manager_add_vars(m, 2) ; f = oxidd_{k}_var(m, 1) ; m2 = oxidd_{k}_containing_manager(f) ; oxidd_{k}_manager_unref(m) ; oxidd_{k}_unref(f)"));
                ctx.check(m2 == m, &format!("{k}:ffi:returns-other-manager:containing_manager"), || log.join(" ; "));
                unsafe { (api.manager_unref)(m) };
                unsafe { (api.unref)(f) };
                if !alive(ctx, &log, "although the reference from containing_manager is still owned") {
                    return;
                }
                let nv = unsafe { (api.manager_num_vars)(m2) };
                ctx.check(nv == 2, &format!("{k}:ffi:result-differs-from-rust:manager_num_vars"), || format!("{} ; num_vars(m2) = {nv}", log.join(" ; ")));
                log.push(format!("oxidd_{k}_manager_unref(m2)"));
                unsafe { (api.manager_unref)(m2) };
            }
            4 => {
                // ref / unref of a function handle k times; the node count tells when the node is released
                unsafe { (api.manager_add_vars)(m, 2) };
                let want0 = if K::SEM == Sem::ZeroSup { 2 } else { 0 };
                let x = unsafe { (api.var)(m, 0) };
                let y = unsafe { (api.var)(m, 1) };
                let f = unsafe { (api.and)(x, y) };
                unsafe {
                    (api.unref)(x);
                    (api.unref)(y);
                }
                log.push(format!("add_vars(m, 2) ; x = var(m,0) ; y = var(m,1) ; f = oxidd_{k}_and(x, y) ; unref(x) ; unref(y)"));
                unsafe { (api.manager_gc)(m) };
                let with_f = unsafe { (api.manager_num_inner_nodes)(m) };
                for r in 1..=3usize {
                    for _ in 0..r {
                        let g = unsafe { (api.ref_)(f) };
                        ctx.check(g == f, &format!("{k}:ffi:returns-other-handle:ref"), || log.join(" ; "));
                    }
                    for i in 0..r {
                        unsafe { (api.unref)(f) };
                        unsafe { (api.manager_gc)(m) };
                        let now = unsafe { (api.manager_num_inner_nodes)(m) };
                        ctx.check(now == with_f, &format!("{k}:ffi:node-released-early-by:unref"), || {
                            format!("{} ; {r} x oxidd_{k}_ref(f) ; {} x oxidd_{k}_unref(f) ; gc => {now} inner nodes, {with_f} while f is owned", log.join(" ; "), i + 1)
                        });
                    }
                }
                unsafe { (api.unref)(f) };
                unsafe { (api.manager_gc)(m) };
                let now = unsafe { (api.manager_num_inner_nodes)(m) };
                ctx.check(now == want0, &format!("{k}:ffi:nodes-left-after-unref-all"), || format!("{} ; ref/unref balanced ; unref(f) ; gc => {now} inner nodes, expected {want0}", log.join(" ; ")));
                unsafe { (api.manager_unref)(m) };
            }
            _ => {
                // documented no-ops on invalid handles
                let nm = CMgr { p: null() };
                let r = unsafe { (api.manager_ref)(nm) };
                unsafe { (api.manager_unref)(nm) };
                let g = unsafe { (api.ref_)(INVALID) };
                unsafe { (api.unref)(INVALID) };
                log.push(format!("oxidd_{k}_manager_ref(NULL) ; oxidd_{k}_manager_unref(NULL) ; oxidd_{k}_ref(INVALID) ; oxidd_{k}_unref(INVALID)"));
                ctx.check(r.p.is_null() && g == INVALID, &format!("{k}:ffi:invalid-operand-not-propagated:ref"), || log.join(" ; "));
                if !alive(ctx, &log, "after no-op calls") {
                    return;
                }
                unsafe { (api.manager_unref)(m) };
                if p == 5 {
                    unsafe { (api.print_stats)() };
                    cover(&fq::<K>("print_stats"));
                }
            }
        }
        for f in ["manager_new", "manager_ref", "manager_unref", "ref", "unref", "containing_manager"] {
            cover(&fq::<K>(f));
        }
        freed(ctx, &log);
        ctx.distinct((k, "pattern", p));
        ctx.count("sequences", 1);
        ctx.count("ffi_calls", log.len() as u64);
    }

    #[derive(Clone, Debug)]
    enum ECall {
        Not,
        Bin(BOp),
        Ite,
        Cof(u8),
        PickDd,
        PickDdSet,
        Ref(u32),
        ContainingMgr,
        Export(u8),
        Dot(u8),
        RunInPool,
        Queries,
        Leaf(u8),
        Restrict,
        Quant(Quant),
        ApplyQuant(Quant, BOp),
        Subst(u8),
        ZLeaf(ZOp),
        ZVar(ZOp, u32),
        ZBin(ZOp),
        MakeNode,
    }

    /// all argument tuples over the given per-position domains
    fn product(doms: &[&[usize]]) -> Vec<Vec<usize>> {
        let mut out: Vec<Vec<usize>> = vec![vec![]];
        for d in doms {
            let mut next = Vec::new();
            for p in &out {
                for &x in *d {
                    let mut q = p.clone();
                    q.push(x);
                    next.push(q);
                }
            }
            out = next;
        }
        out
    }

    /// (call, operand tuple) pairs for one kind. Operand numbering of the prepared session:
    /// 0 INVALID, 1 false, 2 true, 3 x0&x1, 4 x1|!x2, 5 x2, 6 x0&!x1
    fn enum_items(quant: bool, zbdd: bool) -> Vec<(ECall, Vec<usize>)> {
        let gen_: &[usize] = &[0, 1, 2, 3, 4];
        let few: &[usize] = &[0, 2, 4];
        let vars: &[usize] = &[0, 2, 3, 5];
        let lits: &[usize] = &[0, 2, 3, 6];
        let valid: &[usize] = &[1, 2, 3, 4];
        let mut items: Vec<(ECall, Vec<usize>)> = Vec::new();
        let mut push = |c: ECall, doms: &[&[usize]]| {
            for t in product(doms) {
                items.push((c.clone(), t));
            }
        };
        for w in 0..4 {
            push(ECall::Leaf(w), &[]);
        }
        push(ECall::Not, &[gen_]);
        for op in ALL_BOPS {
            push(ECall::Bin(op), &[gen_, gen_]);
        }
        push(ECall::Ite, &[gen_, gen_, gen_]);
        for w in 0..3 {
            push(ECall::Cof(w), &[gen_]);
        }
        push(ECall::PickDd, &[gen_]);
        push(ECall::PickDdSet, &[gen_, lits]);
        for r in 1..=3 {
            push(ECall::Ref(r), &[&[0, 1, 3]]);
        }
        push(ECall::ContainingMgr, &[valid]);
        for v in 0..4 {
            push(ECall::Export(v), &[&[3, 1, 0]]);
            push(ECall::Export(v), &[&[3], &[4, 3, 0]]);
        }
        for v in 0..3 {
            push(ECall::Dot(v), &[&[3, 0], &[4]]);
        }
        push(ECall::RunInPool, &[few, few]);
        push(ECall::Queries, &[valid]);
        if quant {
            push(ECall::Restrict, &[gen_, lits]);
            for q in ALL_QUANTS {
                push(ECall::Quant(q), &[gen_, vars]);
                for op in [BOp::And, BOp::Xor] {
                    push(ECall::ApplyQuant(q, op), &[few, few, &[0, 2, 3]]);
                }
            }
            for w in 0..4 {
                push(ECall::Subst(w), &[gen_]);
            }
        }
        if zbdd {
            for z in [ZOp::Singleton, ZOp::Empty, ZOp::Base] {
                push(ECall::ZLeaf(z), &[]);
            }
            for z in [ZOp::Subset0, ZOp::Subset1, ZOp::Change] {
                for v in 0..3 {
                    push(ECall::ZVar(z, v), &[gen_]);
                }
            }
            for z in [ZOp::Union, ZOp::Intsec, ZOp::Diff] {
                push(ECall::ZBin(z), &[gen_, gen_]);
            }
            // var: 0 INVALID / 7 singleton {{x0}}; hi, lo (must be below x0's level): INVALID, 1 empty, 8 base, 9 {{x2}}
            push(ECall::MakeNode, &[&[0, 7], &[0, 1, 8, 9], &[0, 1, 8, 9]]);
        }
        items
    }

    fn run_enum_item<K: FfiKind>(ctx: &mut Ctx, rng: &mut Rng, no: usize, call: &ECall, t: &[usize])
    where
        for<'id> MgrOf<'id, K>: HasWorkers,
        for<'x> INodeOfFunc<'x, K::F>: HasLevel,
    {
        case_line(&format!("c19_ffi_enum item={no} kind={} call={call:?} operands={t:?}", K::NAME));
        let mut s = Sess::<K>::new(ctx, 3, 1 << 10, false, 1, &format!("enum item {no}"));
        // operand pool (see enum_items)
        s.leaf(ctx, 2, 0); // 1
        s.leaf(ctx, 3, 0); // 2
        s.build_cube(ctx, &[(0, true), (1, true)]); // 3
        let a = s.leaf(ctx, 1, 2);
        let b = s.leaf(ctx, 0, 1);
        s.bin(ctx, BOp::Or, b, a);
        s.unref(ctx, b);
        s.unref(ctx, a); // 4
        s.leaf(ctx, 0, 2); // 5
        s.build_cube(ctx, &[(0, true), (1, false)]); // 6
        if matches!(call, ECall::MakeNode) {
            s.z_leaf(ctx, ZOp::Singleton, 0); // 7
            s.z_leaf(ctx, ZOp::Base, 0); // 8
            s.z_leaf(ctx, ZOp::Singleton, 2); // 9
        }
        assert_eq!(s.ents.len(), if matches!(call, ECall::MakeNode) { 10 } else { 7 }, "operand pool");
        s.logp("--".into());
        match call {
            ECall::Leaf(w) => {
                for v in 0..3 {
                    s.leaf(ctx, *w, v);
                }
            }
            ECall::Not => {
                s.not(ctx, t[0]);
            }
            ECall::Bin(op) => {
                s.bin(ctx, *op, t[0], t[1]);
            }
            ECall::Ite => {
                s.ite(ctx, t[0], t[1], t[2]);
            }
            ECall::Cof(w) => s.cofactor(ctx, *w, t[0]),
            ECall::PickDd => {
                s.pick_cube_dd(ctx, t[0], None);
            }
            ECall::PickDdSet => {
                s.pick_cube_dd(ctx, t[0], Some(t[1]));
            }
            ECall::Ref(r) => {
                for _ in 0..*r {
                    s.ref_(ctx, t[0]);
                }
                for _ in 0..*r {
                    s.unref(ctx, t[0]);
                }
            }
            ECall::ContainingMgr => {
                s.mgr_ref_ops(ctx, 0, t[0]);
                s.mgr_ref_ops(ctx, 1, 0);
                s.mgr_ref_ops(ctx, 2, 0);
            }
            ECall::Export(v) => {
                s.dddmp_roundtrip(ctx, t, *v, if no % 2 == 0 { None } else { Some(((no / 2 % 2) as u8, no / 4 % 2 == 0)) });
            }
            ECall::Dot(v) => s.dump_dot(ctx, t, *v),
            ECall::RunInPool => {
                s.run_in_pool(ctx, t[0], t[1]);
            }
            ECall::Queries => {
                s.queries(ctx, t[0], rng);
                s.mgr_queries(ctx);
                s.failing_exports(ctx, t[0]);
            }
            ECall::Restrict => {
                s.restrict(ctx, t[0], t[1]);
            }
            ECall::Quant(q) => {
                s.quant(ctx, *q, t[0], t[1]);
            }
            ECall::ApplyQuant(q, op) => {
                s.apply_quant(ctx, *q, *op, t[0], t[1], t[2]);
            }
            ECall::Subst(w) => match w {
                0 => s.substitute(ctx, t[0], &[], true, false),
                1 => s.substitute(ctx, t[0], &[], false, false),
                2 => s.substitute(ctx, t[0], &[(0, 4), (1, 3)], false, false),
                _ => s.substitute(ctx, t[0], &[(2, 3), (0, 3), (1, 0)], false, true),
            },
            ECall::ZLeaf(z) => {
                for v in 0..3 {
                    s.z_leaf(ctx, *z, v);
                }
            }
            ECall::ZVar(z, v) => {
                s.z_var_op(ctx, *z, t[0], *v);
            }
            ECall::ZBin(z) => {
                s.z_bin(ctx, *z, t[0], t[1]);
            }
            ECall::MakeNode => {
                // hi == lo needs two references of the same handle
                if t[1] == t[2] && t[1] != 0 {
                    s.ref_(ctx, t[1]);
                }
                s.z_make_node(ctx, t[0], t[1], t[2]);
            }
        }
        s.teardown(ctx, rng, (no % 2) as u8);
    }

    fn enum_kind<K: FfiKind>(ctx: &mut Ctx, rng: &mut Rng, counter: &mut usize)
    where
        for<'id> MgrOf<'id, K>: HasWorkers,
        for<'x> INodeOfFunc<'x, K::F>: HasLevel,
    {
        for p in 0..6 {
            if ctx.mine(*counter) {
                patterns::<K>(ctx, p);
            }
            *counter += 1;
        }
        let items = enum_items(K::qapi().is_some(), K::zapi().is_some());
        for (no, (call, t)) in items.iter().enumerate() {
            if ctx.mine(*counter) {
                run_enum_item::<K>(ctx, rng, no, call, t);
            }
            *counter += 1;
        }
        ctx.sample(|| format!("{}: {} enumerated (entry point, operand shape) calls, each in a fresh manager: prepare operands, call, exact reference-count audit, unref all, gc, manager freed", K::NAME, items.len()));
    }

    /// Enumerated short sequences: every function-returning entry point with every combination of
    /// invalid / terminal / inner-node / aliased operands, plus manager life-cycle patterns.
    pub fn c19_ffi_enum(ctx: &mut Ctx) {
        // SAFETY: single-threaded at this point
        unsafe { std::env::set_var("OXIDD_STACK_SIZE", "1048576") };
        let mut rng = ctx.rng(0xC19E);
        let mut counter = 0usize;
        enum_kind::<Bdd>(ctx, &mut rng, &mut counter);
        enum_kind::<Bcdd>(ctx, &mut rng, &mut counter);
        enum_kind::<Zbdd>(ctx, &mut rng, &mut counter);
        let _ = std::fs::remove_dir_all(tmp_dir());
        report_coverage(ctx);
    }

    /// Random call sequences over all three kinds, mirrored call by call on the Rust API.
    pub fn c19_ffi(ctx: &mut Ctx) {
        // SAFETY: single-threaded at this point
        unsafe { std::env::set_var("OXIDD_STACK_SIZE", "1048576") };
        let mut rng = ctx.rng(0xC19F);
        let nseq = ctx.by_tier(90, 5000);
        let steps = ctx.by_tier(45, 90);
        for seq in 0..nseq {
            let small = seq % 3 == 2;
            let vis = seq == 1;
            match (seq + ctx.shard) % 3 {
                0 => run_sequence::<Bdd>(ctx, &mut rng, seq, small, steps, vis),
                1 => run_sequence::<Bcdd>(ctx, &mut rng, seq, small, steps, vis),
                _ => run_sequence::<Zbdd>(ctx, &mut rng, seq, small, steps, vis),
            }
        }
        for round in 0..ctx.by_tier(2, 12) {
            match (round + ctx.shard) % 3 {
                0 => threaded::<Bdd>(ctx, &mut rng, round),
                1 => threaded::<Bcdd>(ctx, &mut rng, round),
                _ => threaded::<Zbdd>(ctx, &mut rng, round),
            }
        }
        match ctx.shard % 3 {
            0 => bignat::<Bdd>(ctx),
            1 => bignat::<Bcdd>(ctx),
            _ => bignat::<Zbdd>(ctx),
        }
        let _ = std::fs::remove_dir_all(tmp_dir());
        report_coverage(ctx);
        ctx.sample(|| "random sequences: 2..5 variables, ample (16384) or tiny (3..30) node capacity, 1 or 2 worker threads; after every call: result table via oxidd_*_eval == independent interpretation of the Rust mirror, node_count equal, exact reference-count audit of the C manager against the ownership model, operands unchanged".into());
    }
}
