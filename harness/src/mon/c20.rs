//! C20 — build configurations are observationally equivalent.
//!
//! The same deterministic corpus (exhaustive 3-variable suites in compact form + generated
//! histories) is executed by this monitor in every build variant (index/pointer x cache on/off x
//! multi-threading on/off) and, inside each variant, with 1, 2 and 8 worker threads. Every
//! result is checked against the truth-table model and the audits (so each configuration is
//! correct on its own), and a digest per corpus item (result tables, node counts, equality
//! pattern, picked cubes, variable orders) is emitted; the driver requires all variants to emit
//! identical digests.

use oxidd::{BooleanFunction, HasLevel, HasWorkers, ManagerRef};
use oxidd_core::function::INodeOfFunc;

use crate::hist::*;
use crate::kinds::*;
use crate::mon::c02::{All3, apply_bop};
use crate::rng::{Rng, all_perms, mix};
use crate::tt::{ALL_BOPS, ALL_QUANTS, Tt};
use crate::Ctx;

fn emit(key: &str, val: u64) {
    println!("@@{{\"t\":\"digest\",\"key\":{},\"val\":\"{val:016x}\"}}", crate::ctx::json_str(key));
}

fn history_digest<K: BoolKind>(ctx: &mut Ctx, hseed: u64, steps: usize, nvars: u32, threads: u32, depth: Option<Option<u32>>, label: &str) -> u64
where
    for<'id> MgrOf<'id, K>: HasWorkers,
    for<'x> INodeOfFunc<'x, K::F>: HasLevel,
{
    let mut rng = Rng::new(hseed);
    let mut w = World::<K>::new(1 << 15, 1 << 8, threads, nvars, format!("{label} threads={threads} split_depth={depth:?}"));
    if let Some(d) = depth {
        // None = OxiDD's automatic depth; Some(k): parallel recursion for k levels, then the
        // hand-over to the sequential recursor in the middle of the diagram
        use oxidd::WorkerPool;
        w.mref.with_manager_shared(|m| m.workers().set_split_depth(d));
    }
    w.digest = Some(Vec::new());
    let profile = Profile {
        reorder: K::SEM != Sem::ZeroSup || crate::known::ZBDD_REORDER_IN_HISTORIES,
        pick_cube: true,
        thread_drop: false,
        ..Profile::default()
    };
    let mut acc = 0xfeed_u64;
    for i in 0..steps {
        let op = gen_op(&mut rng, w.n, w.hs.len(), K::HAS_QUANT, &profile);
        w.step(ctx, &op);
        if i % 40 == 39 {
            w.audit(ctx, "periodic");
        }
    }
    w.audit(ctx, "end");
    for (a, b, c) in w.digest.take().unwrap() {
        acc = mix(mix(mix(acc, a), b as u64), c as u64);
    }
    for v in current_order(&w.mref) {
        acc = mix(acc, v as u64);
    }
    acc = mix(acc, w.mref.with_manager_shared(|m| oxidd::Manager::num_inner_nodes(m)) as u64 * 0 + w.hs.len() as u64);
    w.teardown(ctx);
    acc
}

fn histories_kind<K: BoolKind>(ctx: &mut Ctx, count: usize, steps: usize)
where
    for<'id> MgrOf<'id, K>: HasWorkers,
    for<'x> INodeOfFunc<'x, K::F>: HasLevel,
{
    for h in 0..count {
        if !ctx.mine(h) {
            continue;
        }
        // the corpus depends on (seed, h) only: identical in every variant and shard layout
        let hseed = mix(mix(ctx.seed, 0xC20), h as u64);
        let nvars = 3 + (h % 4) as u32;
        let label = format!("c20 kind={} h={h}", K::NAME);
        println!("@@{{\"t\":\"case\",\"case\":{}}}", crate::ctx::json_str(&label));
        let d1 = history_digest::<K>(ctx, hseed, steps, nvars, 1, None, &label);
        // split depth MAX (setup's default for > 1 thread), then the shallow depths at which the
        // parallel recursor hands over to the sequential one below the root, and the automatic depth
        let configs: [(u32, Option<Option<u32>>); 6] = [
            (2, None),
            (8, None),
            (2, Some(Some(1))),
            (8, Some(Some(2))),
            (if h % 2 == 0 { 2 } else { 8 }, Some(Some(0))),
            (if h % 2 == 0 { 8 } else { 2 }, Some(None)),
        ];
        for (threads, depth) in configs {
            let d = history_digest::<K>(ctx, hseed, steps, nvars, threads, depth, &label);
            ctx.eval();
            ctx.distinct((K::NAME, "config", threads, depth));
            if d != d1 {
                ctx.violation(&format!("{}:threads-change-result", K::NAME), format!("{label}: digest with {threads} threads, split depth {depth:?} (outer None = MAX) differs from 1 thread"));
            }
        }
        emit(&format!("hist:{}:{h}", K::NAME), d1);
        ctx.distinct((K::NAME, "hist", h));
        ctx.count("histories", 1);
    }
}

/// compact exhaustive suites over 3 variables for one order
fn suites_kind<K: BoolKind>(ctx: &mut Ctx, order: &[u32], threads: u32)
where
    for<'id> MgrOf<'id, K>: HasWorkers,
    for<'x> INodeOfFunc<'x, K::F>: HasLevel,
{
    let all = All3::<K>::build(ctx, 3, order, threads, 1 << 16, 1 << 10);
    let tt = |b: usize| Tt::from_u64(3, b as u64);
    let mut acc = 0x5u64;
    // node counts of all 256 functions (canonical form is configuration independent)
    for f in &all.funcs {
        acc = mix(acc, oxidd::Function::node_count(f) as u64);
    }
    // all pairs x 8 operators: result identity (index of the table) and model check
    for a in 0..256usize {
        for b in (a % 4..256).step_by(4) {
            for op in ALL_BOPS {
                let r = apply_bop(op, &all.funcs[a], &all.funcs[b]);
                let want = tt(a).bop(op, &tt(b));
                ctx.eval();
                match all.map.get(&r) {
                    Some(&g) if g as u64 == want.as_u64() => acc = mix(acc, g as u64),
                    _ => {
                        ctx.violation(&format!("{}:{}:wrong-table", K::NAME, op.name()), format!("order {order:?}: {} {} {}", tt(a), op.name(), tt(b)));
                    }
                }
            }
        }
    }
    if K::HAS_QUANT {
        for a in 0..256usize {
            for mask in 1..8u32 {
                let vars: Vec<u32> = (0..3).filter(|v| (mask >> v) & 1 == 1).collect();
                let vs = &all.funcs[Tt::cube(3, &vars.iter().map(|&v| (v, true)).collect::<Vec<_>>()).as_u64() as usize];
                for q in ALL_QUANTS {
                    let r = K::quant(q, &all.funcs[a], vs).unwrap();
                    let want = tt(a).quant(q, &vars);
                    ctx.eval();
                    match all.map.get(&r) {
                        Some(&g) if g as u64 == want.as_u64() => acc = mix(acc, g as u64),
                        _ => ctx.violation(&format!("{}:quant:wrong-table", K::NAME), format!("order {order:?} f={} {vars:?}", tt(a))),
                    }
                }
            }
        }
    }
    // cube picking is deterministic given the choice function
    for a in 0..256usize {
        for ch in 0..8u32 {
            let r = all.funcs[a].pick_cube(|_, _, l| (ch >> l) & 1 == 1);
            ctx.eval();
            acc = mix(acc, match r {
                None => 0xdead,
                Some(c) => c.iter().fold(7u64, |h, &o| h * 4 + (o as i8 + 2) as u64),
            });
        }
    }
    emit(&format!("suite:{}:{:?}:t{threads}", K::NAME, order), acc);
    ctx.distinct((K::NAME, "suite", order.to_vec(), threads));
    ctx.count("suites", 1);
}

/// A diagram with more than 100 000 nodes: `node_count()` against an independent traversal
/// (node sets are backend specific: bit sets per index range / per memory page).
fn large_kind<K: BoolKind>(ctx: &mut Ctx)
where
    for<'id> MgrOf<'id, K>: HasWorkers,
    for<'x> INodeOfFunc<'x, K::F>: HasLevel,
{
    use oxidd::{Edge, Function, InnerNode, Manager, Node};
    // ZBDD: Boolean connectives on variables walk the don't-care chains, which is exponential in the
    // number of variables when the apply cache is compiled out; 20 variables keep that affordable
    let k = if K::SEM == Sem::ZeroSup { 10u32 } else { 16u32 };
    let n = 2 * k;
    let mref = K::new_manager(1 << 21, 1 << 16, 2);
    mref.with_manager_exclusive(|m| {
        m.add_vars(n);
    });
    let parts: Vec<K::F> = mref.with_manager_shared(|m| {
        let mut f = K::F::f(m);
        let mut v = Vec::new();
        for i in 0..k {
            let c = K::F::var(m, i).unwrap().and(&K::F::var(m, i + k).unwrap()).unwrap();
            f = f.or(&c).unwrap();
            v.push(f.clone());
        }
        v
    });
    let mut acc = 0x1a46e_u64;
    for (i, f) in parts.iter().enumerate() {
        let got = f.node_count();
        let want = f.with_manager_shared(|m, e| {
            let mut seen = std::collections::HashSet::new();
            let mut stack = vec![m.clone_edge(e)];
            let mut count = 0usize;
            while let Some(e) = stack.pop() {
                if seen.insert(e.node_id()) {
                    count += 1;
                    if let Node::Inner(node) = m.get_node(&e) {
                        for c in node.children() {
                            stack.push(m.clone_edge(&c));
                        }
                    }
                }
                m.drop_edge(e);
            }
            count
        });
        ctx.eval();
        if got != want {
            ctx.violation(&format!("{}:large:node_count-differs-from-traversal", K::NAME), format!("partial {} of OR_i(x_i & x_(i+{k})): node_count() = {got}, traversal finds {want}", i + 1));
        }
        acc = mix(acc, got as u64);
        ctx.count_max("max_large_node_count", got as u64);
    }
    emit(&format!("large:{}", K::NAME), acc);
    ctx.distinct((K::NAME, "large"));
    ctx.count("large_diagrams", 1);
}

pub fn digest(ctx: &mut Ctx) {
    match ctx.shard {
        0 => large_kind::<Bdd>(ctx),
        1 => large_kind::<Bcdd>(ctx),
        2 => large_kind::<Zbdd>(ctx),
        _ => {}
    }
    let count = ctx.by_tier(24, 600);
    let steps = ctx.by_tier(200, 500);
    histories_kind::<Bdd>(ctx, count, steps);
    histories_kind::<Bcdd>(ctx, count, steps);
    histories_kind::<Zbdd>(ctx, count, steps);
    let orders = all_perms(3);
    let mut i = 0;
    for order in &orders {
        for threads in [1u32, 2, 8] {
            for kind in 0..3 {
                let mine = ctx.mine(i);
                i += 1;
                if !mine {
                    continue;
                }
                match kind {
                    0 => suites_kind::<Bdd>(ctx, order, threads),
                    1 => suites_kind::<Bcdd>(ctx, order, threads),
                    _ => suites_kind::<Zbdd>(ctx, order, threads),
                }
            }
        }
    }
    ctx.sample(|| format!("variant features: pointer={} cache={} mt={}; corpus: {count} histories x 3 kinds x threads {{1,2,8}} + 6 orders x 3 kinds x 3 thread counts of 3-variable suites", cfg!(feature = "pointer"), cfg!(feature = "cache"), cfg!(feature = "mt")));
}
