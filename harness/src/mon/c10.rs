//! C10 — MTBDD arithmetic: the terminal number types alone (`c10_scalar`) and the diagram
//! operations add/sub/mul/div/min/max/ite/restrict/constant/var/eval (`c10_dd`).
//!
//! Reference model: a value table `Vec<R>` indexed by assignment (bit v = value of variable v),
//! where `R` is the monitor's own scalar (`RI` = integer with ±∞/NaN computed through `i128`;
//! `u64` = bits of a native `f64` with NaN and −0.0 normalised). Diagrams are read back by an
//! independent node walk (`interp`), never through OxiDD's `eval` (which is itself compared
//! against the walk).

use std::cmp::Ordering;
use std::collections::{HashMap, HashSet};
use std::fmt::{Debug, Display};
use std::hash::{Hash, Hasher};

use oxidd::mtbdd::terminal::{F64, I64};
use oxidd::mtbdd::{MTBDDFunction, MTBDDManagerRef};
use oxidd::{Function, HasLevel, InnerNode, Manager, ManagerRef, Node, PseudoBooleanFunction, WorkerPool};
use oxidd_core::function::{EdgeOfFunc, NumberBase};
use oxidd_core::{HasWorkers, LevelView};

use crate::Ctx;
use crate::audit::{self, Rule};
use crate::rng::Rng;

// ================================================================================================
// Reference scalars
// ================================================================================================

#[derive(Clone, Copy, PartialEq, Eq, Hash, Debug)]
pub enum Op {
    Add,
    Sub,
    Mul,
    Div,
    Min,
    Max,
}
pub const ALL_OPS: [Op; 6] = [Op::Add, Op::Sub, Op::Mul, Op::Div, Op::Min, Op::Max];
pub const ARITH_OPS: [Op; 4] = [Op::Add, Op::Sub, Op::Mul, Op::Div];

impl Op {
    pub fn name(self) -> &'static str {
        match self {
            Op::Add => "add",
            Op::Sub => "sub",
            Op::Mul => "mul",
            Op::Div => "div",
            Op::Min => "min",
            Op::Max => "max",
        }
    }
}

/// Reference integer with infinities and NaN (the model of `I64`)
#[derive(Clone, Copy, PartialEq, Eq, Hash, Debug)]
pub enum RI {
    NaN,
    NInf,
    Num(i64),
    PInf,
}

fn ri_fit(x: i128) -> RI {
    if x > i64::MAX as i128 {
        RI::PInf
    } else if x < i64::MIN as i128 {
        RI::NInf
    } else {
        RI::Num(x as i64)
    }
}
/// sign of a non-NaN value
fn ri_sgn(a: RI) -> i32 {
    match a {
        RI::NaN => unreachable!(),
        RI::NInf => -1,
        RI::PInf => 1,
        RI::Num(n) => (n > 0) as i32 - (n < 0) as i32,
    }
}
fn ri_inf(sign: i32) -> RI {
    match sign {
        1 => RI::PInf,
        -1 => RI::NInf,
        _ => RI::NaN,
    }
}
fn ri_cmp(a: RI, b: RI) -> Option<Ordering> {
    use RI::*;
    match (a, b) {
        (NaN, NaN) => Some(Ordering::Equal),
        (NaN, _) | (_, NaN) => None,
        (Num(x), Num(y)) => Some(x.cmp(&y)),
        (NInf, NInf) | (PInf, PInf) => Some(Ordering::Equal),
        (NInf, _) => Some(Ordering::Less),
        (_, NInf) => Some(Ordering::Greater),
        (PInf, _) => Some(Ordering::Greater),
        (_, PInf) => Some(Ordering::Less),
    }
}
/// The property statement, literally: exact integer result if representable, otherwise the
/// infinity of the exact result's sign; `/` truncates toward zero, x/0 = ±∞ by the sign of x;
/// ∞−∞, 0·∞, 0/0, ∞/∞ = NaN; NaN absorbs.
fn ri_op(op: Op, a: RI, b: RI) -> RI {
    use RI::*;
    if a == NaN || b == NaN {
        return NaN;
    }
    match op {
        Op::Add => match (a, b) {
            (Num(x), Num(y)) => ri_fit(x as i128 + y as i128),
            (PInf, NInf) | (NInf, PInf) => NaN,
            (PInf, _) | (_, PInf) => PInf,
            _ => NInf,
        },
        Op::Sub => match (a, b) {
            (Num(x), Num(y)) => ri_fit(x as i128 - y as i128),
            (PInf, PInf) | (NInf, NInf) => NaN,
            (PInf, _) | (_, NInf) => PInf,
            _ => NInf,
        },
        Op::Mul => match (a, b) {
            (Num(x), Num(y)) => ri_fit(x as i128 * y as i128),
            _ => ri_inf(ri_sgn(a) * ri_sgn(b)),
        },
        Op::Div => match (a, b) {
            (_, Num(0)) => ri_inf(ri_sgn(a)), // 0/0 = NaN, x/0 = ±∞ by sign of x
            (Num(x), Num(y)) => ri_fit(x as i128 / y as i128),
            (Num(_), _) => Num(0), // finite / ±∞
            (_, Num(_)) => ri_inf(ri_sgn(a) * ri_sgn(b)),
            _ => NaN, // ∞/∞
        },
        Op::Min => match ri_cmp(a, b).unwrap() {
            Ordering::Greater => b,
            _ => a,
        },
        Op::Max => match ri_cmp(a, b).unwrap() {
            Ordering::Less => b,
            _ => a,
        },
    }
}
fn ri_show(a: RI) -> String {
    match a {
        RI::NaN => "NaN".into(),
        RI::NInf => "-inf".into(),
        RI::PInf => "+inf".into(),
        RI::Num(i64::MIN) => "MIN".into(),
        RI::Num(i64::MAX) => "MAX".into(),
        RI::Num(n) if n == i64::MIN + 1 => "MIN+1".into(),
        RI::Num(n) if n == i64::MAX - 1 => "MAX-1".into(),
        RI::Num(n) => n.to_string(),
    }
}

const NAN_BITS: u64 = 0x7ff8_0000_0000_0000;
/// NaN / −0.0 normalisation as documented on `F64`
fn rf_norm(x: f64) -> u64 {
    if x != x {
        NAN_BITS
    } else if x == 0.0 {
        0 // +0.0 (also for -0.0)
    } else {
        x.to_bits()
    }
}
fn rf_val(r: u64) -> f64 {
    f64::from_bits(r)
}
fn rf_cmp(a: u64, b: u64) -> Option<Ordering> {
    match (a == NAN_BITS, b == NAN_BITS) {
        (true, true) => Some(Ordering::Equal),
        (true, false) | (false, true) => None,
        _ => rf_val(a).partial_cmp(&rf_val(b)),
    }
}
fn rf_op(op: Op, a: u64, b: u64) -> u64 {
    let (x, y) = (rf_val(a), rf_val(b));
    match op {
        Op::Add => rf_norm(x + y),
        Op::Sub => rf_norm(x - y),
        Op::Mul => rf_norm(x * y),
        Op::Div => rf_norm(x / y),
        Op::Min => match rf_cmp(a, b) {
            None => NAN_BITS,
            Some(Ordering::Greater) => b,
            _ => a,
        },
        Op::Max => match rf_cmp(a, b) {
            None => NAN_BITS,
            Some(Ordering::Less) => b,
            _ => a,
        },
    }
}
fn rf_show(r: u64) -> String {
    let x = rf_val(r);
    if r == NAN_BITS {
        "NaN".into()
    } else if x == f64::INFINITY {
        "+inf".into()
    } else if x == f64::NEG_INFINITY {
        "-inf".into()
    } else if x == f64::MAX {
        "MAX".into()
    } else if x == f64::MIN {
        "-MAX".into()
    } else {
        format!("{x:e}")
    }
}

/// Adapter: an OxiDD terminal number type together with its reference model
pub trait Num: NumberBase + Copy + Debug + Display + oxidd_dump::ParseTagged<()> + Send + Sync + 'static {
    const NAME: &'static str;
    type R: Copy + Eq + Hash + Debug + Send + Sync + 'static;
    /// OxiDD value -> model value (plain pattern match / bit copy)
    fn r(&self) -> Self::R;
    fn from_r(r: Self::R) -> Self;
    fn r_op(op: Op, a: Self::R, b: Self::R) -> Self::R;
    fn r_zero() -> Self::R;
    fn r_one() -> Self::R;
    fn show(r: Self::R) -> String;
    /// the palette of the property statement (float type: the analogous values)
    fn full_palette() -> Vec<Self::R>;
    /// 5-value (I64) / 4-value (F64) palettes for the exhaustive 2-variable workload
    fn small_palettes() -> Vec<Vec<Self::R>>;
    fn random_value(rng: &mut Rng) -> Self::R;
}

impl Num for I64 {
    const NAME: &'static str = "i64";
    type R = RI;
    fn r(&self) -> RI {
        match *self {
            I64::NaN => RI::NaN,
            I64::MinusInf => RI::NInf,
            I64::PlusInf => RI::PInf,
            I64::Num(n) => RI::Num(n),
        }
    }
    fn from_r(r: RI) -> Self {
        match r {
            RI::NaN => I64::NaN,
            RI::NInf => I64::MinusInf,
            RI::PInf => I64::PlusInf,
            RI::Num(n) => I64::Num(n),
        }
    }
    fn r_op(op: Op, a: RI, b: RI) -> RI {
        ri_op(op, a, b)
    }
    fn r_zero() -> RI {
        RI::Num(0)
    }
    fn r_one() -> RI {
        RI::Num(1)
    }
    fn show(r: RI) -> String {
        ri_show(r)
    }
    fn full_palette() -> Vec<RI> {
        use RI::*;
        vec![Num(0), Num(1), Num(-1), Num(2), Num(3), Num(-7), Num(i64::MIN), Num(i64::MAX), PInf, NInf, NaN]
    }
    fn small_palettes() -> Vec<Vec<RI>> {
        use RI::*;
        vec![
            vec![Num(0), Num(1), Num(i64::MAX), PInf, NaN],
            vec![Num(0), Num(-1), Num(1), Num(i64::MIN), NInf],
            vec![Num(2), Num(-7), Num(i64::MAX), Num(i64::MIN), NaN],
            vec![Num(0), Num(3), Num(-1), PInf, NInf],
        ]
    }
    fn random_value(rng: &mut Rng) -> RI {
        match rng.below(4) {
            0 => RI::Num(rng.next() as i64),
            1 => RI::Num((rng.next() as i64) >> 33),
            2 => RI::Num(rng.below(17) as i64 - 8),
            _ => *rng.pick(&Self::full_palette()),
        }
    }
}

impl Num for F64 {
    const NAME: &'static str = "f64";
    type R = u64;
    fn r(&self) -> u64 {
        f64::from(*self).to_bits()
    }
    fn from_r(r: u64) -> Self {
        F64::from(f64::from_bits(r))
    }
    fn r_op(op: Op, a: u64, b: u64) -> u64 {
        rf_op(op, a, b)
    }
    fn r_zero() -> u64 {
        0
    }
    fn r_one() -> u64 {
        1.0f64.to_bits()
    }
    fn show(r: u64) -> String {
        rf_show(r)
    }
    fn full_palette() -> Vec<u64> {
        [0.0, 1.0, -1.0, 2.0, 3.0, -7.0, f64::MIN, f64::MAX, f64::INFINITY, f64::NEG_INFINITY, f64::NAN, 0.5, 5e-324]
            .iter()
            .map(|&x| rf_norm(x))
            .collect()
    }
    fn small_palettes() -> Vec<Vec<u64>> {
        let p = |xs: &[f64]| xs.iter().map(|&x| rf_norm(x)).collect::<Vec<_>>();
        vec![
            p(&[0.0, 1.0, f64::NAN, f64::INFINITY]),
            p(&[-1.0, 0.5, f64::NEG_INFINITY, f64::MAX]),
            p(&[5e-324, -2.0, 3.0, f64::MIN]),
            p(&[0.0, -7.0, f64::INFINITY, f64::NEG_INFINITY]),
        ]
    }
    fn random_value(rng: &mut Rng) -> u64 {
        match rng.below(4) {
            0 => rf_norm(f64::from_bits(rng.next())),
            1 => rf_norm((rng.below(33) as f64 - 16.0) / 4.0),
            2 => rf_norm((rng.f64() - 0.5) * 1e300),
            _ => *rng.pick(&Self::full_palette()),
        }
    }
}

fn show_tab<T: Num>(t: &[T::R]) -> String {
    let v: Vec<String> = t.iter().map(|&x| T::show(x)).collect();
    format!("[{}]", v.join(","))
}
fn tab_op<T: Num>(op: Op, a: &[T::R], b: &[T::R]) -> Vec<T::R> {
    a.iter().zip(b).map(|(&x, &y)| T::r_op(op, x, y)).collect()
}
fn is_const<R: Eq>(t: &[R]) -> bool {
    t.iter().all(|x| *x == t[0])
}

// ================================================================================================
// c10_scalar
// ================================================================================================

fn hash_of<H: Hash>(x: &H) -> u64 {
    let mut h = std::collections::hash_map::DefaultHasher::new();
    x.hash(&mut h);
    h.finish()
}

fn nb_op<T: NumberBase>(op: Op, a: &T, b: &T) -> T {
    match op {
        Op::Add => NumberBase::add(a, b),
        Op::Sub => NumberBase::sub(a, b),
        Op::Mul => NumberBase::mul(a, b),
        Op::Div => NumberBase::div(a, b),
        _ => unreachable!(),
    }
}

/// Checks shared by both number types: NumberBase arithmetic, comparison, equality, hashing,
/// predicates, for one ordered pair.
fn scalar_pair<T: Num>(ctx: &mut Ctx, a: T::R, b: T::R, r_cmp: fn(T::R, T::R) -> Option<Ordering>, class: &dyn Fn(Op, T::R, T::R, T::R, T::R) -> &'static str)
where
    T: PartialOrd,
{
    let k = T::NAME;
    let (x, y) = (T::from_r(a), T::from_r(b));
    for op in ARITH_OPS {
        let want = T::r_op(op, a, b);
        let label = format!("{} {} {}", T::show(a), op.name(), T::show(b));
        match crate::ctx::catch(|| nb_op(op, &x, &y)) {
            Ok(got) => {
                let got = got.r();
                ctx.eval();
                if got != want {
                    ctx.violation(
                        &format!("{k}:{}:{}", op.name(), class(op, a, b, got, want)),
                        format!("{label} = {} want {}", T::show(got), T::show(want)),
                    );
                } else {
                    ctx.distinct((k, op, a, b));
                }
            }
            Err(msg) => ctx.violation(&format!("{k}:{}:panic", op.name()), format!("{label}: {msg}")),
        }
    }
    let want = r_cmp(a, b);
    let got = x.partial_cmp(&y);
    ctx.check(got == want, &format!("{k}:partial_cmp"), || format!("{} <=> {}: {got:?} want {want:?}", T::show(a), T::show(b)));
    // NumberBase requires nan() == nan(); Eq is identity of the normalised value
    ctx.check((x == y) == (a == b), &format!("{k}:eq"), || format!("{} == {}: {}", T::show(a), T::show(b), x == y));
    ctx.check((x == y) == (want == Some(Ordering::Equal)), &format!("{k}:eq-vs-partial_cmp"), || format!("{} vs {}", T::show(a), T::show(b)));
    if x == y {
        ctx.check(hash_of(&x) == hash_of(&y), &format!("{k}:hash-of-equal-values"), || format!("{} vs {}", T::show(a), T::show(b)));
    }
    ctx.check(
        (x < y) == (want == Some(Ordering::Less)) && (x <= y) == matches!(want, Some(Ordering::Less | Ordering::Equal)) && (x > y) == (want == Some(Ordering::Greater)),
        &format!("{k}:lt-le-gt"),
        || format!("{} vs {}", T::show(a), T::show(b)),
    );
    ctx.distinct((k, "cmp", a, b));
}

fn scalar_unary<T: Num>(ctx: &mut Ctx, a: T::R) {
    let k = T::NAME;
    let x = T::from_r(a);
    ctx.check(x.r() == a, &format!("{k}:roundtrip-through-model"), || T::show(a));
    ctx.check(x.is_zero() == (a == T::r_zero()), &format!("{k}:is_zero"), || T::show(a));
    ctx.check(x.is_one() == (a == T::r_one()), &format!("{k}:is_one"), || T::show(a));
    ctx.check(x.is_nan() == (a == T::nan().r()), &format!("{k}:is_nan"), || T::show(a));
    // Display -> parse round trip (the textual formats themselves are not documented)
    let s = x.to_string();
    let back = <T as oxidd_dump::ParseTagged<()>>::parse(&s).map(|(v, ())| v.r());
    ctx.check(back == Some(a), &format!("{k}:display-parse-roundtrip"), || {
        format!("{} displays as {s:?}, parsed back as {:?}", T::show(a), back.map(T::show))
    });
}

fn i64_class(op: Op, a: RI, b: RI, got: RI, want: RI) -> &'static str {
    let _ = op;
    match (a, b) {
        (RI::Num(_), RI::Num(_)) => {
            if matches!(want, RI::PInf | RI::NInf) && !(matches!(b, RI::Num(0)) && op == Op::Div) {
                if matches!(got, RI::PInf | RI::NInf) { "overflow-sign" } else { "overflow" }
            } else if matches!(b, RI::Num(0)) && op == Op::Div {
                "division-by-zero"
            } else {
                "finite"
            }
        }
        _ => "nonfinite",
    }
}

fn scalar_i64(ctx: &mut Ctx) {
    use RI::*;
    let mut set: Vec<RI> = I64::full_palette();
    set.extend([Num(i64::MIN + 1), Num(i64::MAX - 1), Num(i64::MAX / 2 + 1), Num(i64::MIN / 2), Num(1 << 32), Num(-(1 << 31)), Num(3037000500)]);
    let mut rng = Rng::new(crate::rng::mix(ctx.seed, 0xC10));
    let nrand = ctx.by_tier(24, 200);
    for _ in 0..nrand {
        let x = I64::random_value(&mut rng);
        if !set.contains(&x) {
            set.push(x);
        }
    }
    // constants
    if ctx.mine(0) {
        ctx.check(I64::zero() == I64::Num(0) && I64::one() == I64::Num(1) && I64::nan() == I64::NaN, "i64:zero-one-nan", String::new);
        ctx.check(I64::nan() == I64::nan(), "i64:nan-eq-nan", String::new);
        ctx.check(I64::from(-7) == I64::Num(-7) && I64::from(i64::MIN) == I64::Num(i64::MIN), "i64:from-i64", String::new);
        ctx.check(I64::Num(-7).to_string() == "-7" && I64::Num(i64::MIN).to_string() == i64::MIN.to_string(), "i64:display-finite", String::new);
    }
    for (i, &a) in set.iter().enumerate() {
        if !ctx.mine(i) {
            continue;
        }
        scalar_unary::<I64>(ctx, a);
        for &b in &set {
            scalar_pair::<I64>(ctx, a, b, ri_cmp, &i64_class);
            // the std operator impls must agree with NumberBase
            let (x, y) = (I64::from_r(a), I64::from_r(b));
            for op in ARITH_OPS {
                let r = crate::ctx::catch(|| {
                    let base = nb_op(op, &x, &y);
                    let all = match op {
                        Op::Add => [x + y, &x + &y, x + &y, &x + y],
                        Op::Sub => [x - y, &x - &y, x - &y, &x - y],
                        Op::Mul => [x * y, &x * &y, x * &y, &x * y],
                        _ => [x / y, &x / &y, x / &y, &x / y],
                    };
                    all.iter().all(|v| *v == base)
                });
                ctx.check(r == Ok(true), &format!("i64:{}:operator-trait-differs", op.name()), || format!("{} {} {}: {r:?}", ri_show(a), op.name(), ri_show(b)));
            }
            ctx.count("pairs", 1);
        }
    }
    ctx.sample(|| format!("i64 scalars: every ordered pair of {} values (boundary set + {nrand} random) x add/sub/mul/div/cmp/eq/hash, e.g. MIN + -1, MIN / -1, +inf - +inf", set.len()));
}

fn scalar_f64(ctx: &mut Ctx) {
    let raw: Vec<f64> = vec![
        0.0, -0.0, 1.0, -1.0, 2.0, 3.0, -7.0, 0.5, -0.5, 5e-324, -5e-324, f64::MIN_POSITIVE, -f64::MIN_POSITIVE, 2.2250738585072009e-308, f64::MAX, f64::MIN,
        f64::INFINITY, f64::NEG_INFINITY, f64::NAN, -f64::NAN, f64::from_bits(0x7ff0_0000_0000_0001), f64::from_bits(0xfff8_0000_dead_beef), f64::EPSILON, 1e308, -1e308,
        i64::MAX as f64, i64::MIN as f64, 0.1, 1.0 / 3.0, 1e-320,
    ];
    // normalisation of From<f64> (documented on the type)
    if ctx.mine(0) {
        for &x in &raw {
            let got = f64::from(F64::from(x)).to_bits();
            ctx.check(got == rf_norm(x), "f64:from:normalisation", || format!("F64::from({x:?} bits {:#x}) holds bits {got:#x} want {:#x}", x.to_bits(), rf_norm(x)));
        }
        ctx.check(F64::zero().r() == 0 && F64::one().r() == 1.0f64.to_bits() && F64::nan().r() == NAN_BITS, "f64:zero-one-nan", String::new);
        ctx.check(F64::nan() == F64::nan() && F64::from(-0.0) == F64::from(0.0), "f64:nan-eq-nan/neg-zero-eq-zero", String::new);
        // parsing must keep the normalisation invariant of the type
        for s in ["-0", "-0.0", "-0e0", "0", "nan", "NaN", "-nan", "-NaN", "inf", "-inf", "+inf", "1e400", "-1e400", "1e-400", "-1e-400"] {
            if let Some((v, ())) = <F64 as oxidd_dump::ParseTagged<()>>::parse(s) {
                let bits = f64::from(v).to_bits();
                ctx.check(bits == rf_norm(f64::from_bits(bits)), "f64:parse:not-normalised", || {
                    format!("parse({s:?}) holds bits {bits:#x}, normal form is {:#x}", rf_norm(f64::from_bits(bits)))
                });
                ctx.count("f64_strings_parsed", 1);
            }
        }
    }
    let mut set: Vec<u64> = Vec::new();
    for &x in &raw {
        let r = rf_norm(x);
        if !set.contains(&r) {
            set.push(r);
        }
    }
    let mut rng = Rng::new(crate::rng::mix(ctx.seed, 0xF64));
    let nrand = ctx.by_tier(24, 200);
    for _ in 0..nrand {
        let x = F64::random_value(&mut rng);
        if !set.contains(&x) {
            set.push(x);
        }
    }
    let class = |_op: Op, a: u64, b: u64, _got: u64, _want: u64| -> &'static str {
        if rf_val(a).is_finite() && rf_val(b).is_finite() { "finite" } else { "nonfinite" }
    };
    for (i, &a) in set.iter().enumerate() {
        if !ctx.mine(i) {
            continue;
        }
        scalar_unary::<F64>(ctx, a);
        for &b in &set {
            scalar_pair::<F64>(ctx, a, b, rf_cmp, &class);
            let (x, y) = (F64::from_r(a), F64::from_r(b));
            for op in ARITH_OPS {
                let base = nb_op(op, &x, &y);
                let all = match op {
                    Op::Add => [x + y, &x + &y, x + &y, &x + y],
                    Op::Sub => [x - y, &x - &y, x - &y, &x - y],
                    Op::Mul => [x * y, &x * &y, x * &y, &x * y],
                    _ => [x / y, &x / &y, x / &y, &x / y],
                };
                ctx.check(all.iter().all(|v| *v == base), &format!("f64:{}:operator-trait-differs", op.name()), || format!("{} {} {}", rf_show(a), op.name(), rf_show(b)));
            }
            ctx.count("pairs", 1);
        }
    }
    ctx.sample(|| format!("f64 scalars: every ordered pair of {} normalised values (-0.0, subnormals, +-MAX, +-inf, NaN payloads, {nrand} random) x add/sub/mul/div/cmp/eq/hash", set.len()));
}

pub fn scalar(ctx: &mut Ctx) {
    scalar_i64(ctx);
    scalar_f64(ctx);
}

// ================================================================================================
// Diagram layer
// ================================================================================================

type F<T> = MTBDDFunction<T>;
type Mgr<'id, T> = <F<T> as Function>::Manager<'id>;
type Tab<T> = Vec<<T as Num>::R>;

fn apply<T: Num>(op: Op, f: &F<T>, g: &F<T>) -> F<T> {
    match op {
        Op::Add => f.add(g),
        Op::Sub => f.sub(g),
        Op::Mul => f.mul(g),
        Op::Div => f.div(g),
        Op::Min => PseudoBooleanFunction::min(f, g),
        Op::Max => PseudoBooleanFunction::max(f, g),
    }
    .expect("unexpected OutOfMemory with ample capacity")
}

/// Independent interpretation: walk from `e` to a terminal under assignment `a`
fn interp<'id, T: Num>(m: &Mgr<'id, T>, e: &EdgeOfFunc<'id, F<T>>, a: usize) -> T {
    use std::borrow::Borrow;
    match m.get_node(e) {
        Node::Inner(n) => {
            let v = m.level_to_var(n.level());
            let c = n.child(if (a >> v) & 1 == 1 { 0 } else { 1 });
            interp::<T>(m, &c, a)
        }
        Node::Terminal(t) => *t.borrow(),
    }
}
fn interp_tab<T: Num>(f: &F<T>) -> Tab<T> {
    f.with_manager_shared(|m, e| {
        let n = m.num_vars();
        (0..1usize << n).map(|a| interp::<T>(m, e, a).r()).collect()
    })
}
fn eval_tab<T: Num>(f: &F<T>, n: u32) -> Tab<T> {
    (0..1usize << n)
        .map(|a| {
            let args = (0..n).map(|v| (v, (a >> v) & 1 == 1));
            if a % 2 == 0 {
                f.eval(args).r()
            } else {
                // "if the valuation for a variable is given multiple times, the last value counts";
                // "the order is irrelevant"
                let wrong_first = (0..n).map(|v| (v, (a >> v) & 1 == 0));
                let mut all: Vec<(u32, bool)> = wrong_first.chain(args).collect();
                all[n as usize..].reverse();
                f.eval(all).r()
            }
        })
        .collect()
}

/// `t` with variable `v` fixed to `val`, still as a table over all variables
fn cofactor<R: Copy>(t: &[R], v: u32, val: bool) -> Vec<R> {
    (0..t.len()).map(|a| t[if val { a | (1 << v) } else { a & !(1 << v) }]).collect()
}
fn depends<R: Copy + Eq>(t: &[R], v: u32) -> bool {
    (0..t.len()).any(|a| t[a] != t[a ^ (1 << v)])
}
/// Nodes (inner + terminal) of the reduced ordered diagram of `t`: the distinct sub-functions
/// reachable by Shannon expansion along `order`, collected into `set`.
fn ref_nodes<R: Copy + Eq + Hash>(t: &[R], order: &[u32], set: &mut HashSet<Vec<R>>) {
    if !set.insert(t.to_vec()) {
        return;
    }
    if let Some(&v) = order.iter().find(|&&v| depends(t, v)) {
        ref_nodes(&cofactor(t, v, true), order, set);
        ref_nodes(&cofactor(t, v, false), order, set);
    }
}

#[derive(Clone, Copy, PartialEq, Eq, Debug)]
enum Builder {
    /// bottom-up through `Manager::level(l).get_or_insert` (own reduction rule, no apply code)
    LowLevel,
    /// Shannon expansion with `var(v).ite(hi, lo)`
    Ite,
}

fn build<T: Num>(mref: &MTBDDManagerRef<T>, t: &[T::R], how: Builder) -> F<T> {
    fn rec<'id, T: Num>(m: &Mgr<'id, T>, t: &[T::R], l: u32, how: Builder) -> F<T> {
        if is_const(t) {
            return F::<T>::constant(m, T::from_r(t[0])).unwrap();
        }
        let v = m.level_to_var(l);
        if !depends(t, v) {
            return rec::<T>(m, t, l + 1, how);
        }
        let hi = rec::<T>(m, &cofactor(t, v, true), l + 1, how);
        let lo = rec::<T>(m, &cofactor(t, v, false), l + 1, how);
        match how {
            Builder::Ite => F::<T>::var(m, v).unwrap().ite(&hi, &lo).unwrap(),
            Builder::LowLevel => {
                let te = m.clone_edge(hi.as_edge(m));
                let ee = m.clone_edge(lo.as_edge(m));
                let e = m.level(l).get_or_insert(InnerNode::new(l, [te, ee])).unwrap();
                F::<T>::from_edge(m, e)
            }
        }
    }
    mref.with_manager_shared(|m| {
        assert_eq!(1usize << m.num_vars(), t.len());
        rec::<T>(m, t, 0, how)
    })
}

struct Cfg {
    n: u32,
    order: Vec<u32>,
    threads: u32,
    cache: usize,
    /// inner node / terminal store capacities
    inner: usize,
    terms: usize,
}
const AMPLE_INNER: usize = 1 << 16;
const AMPLE_TERMS: usize = 1 << 12;
impl Cfg {
    fn new(n: u32, order: Vec<u32>, threads: u32, cache: usize) -> Self {
        Cfg { n, order, threads, cache, inner: AMPLE_INNER, terms: AMPLE_TERMS }
    }
    fn show(&self) -> String {
        let caps = if self.inner == AMPLE_INNER && self.terms == AMPLE_TERMS { String::new() } else { format!(" inner-nodes<={} terminals<={}", self.inner, self.terms) };
        format!("n={} order {:?} threads {} apply-cache {}{caps}", self.n, self.order, self.threads, self.cache)
    }
}

/// One manager + bookkeeping for the canonicity clause + a lazily created replay manager used
/// to classify wrong results as history-dependent or not.
struct World<T: Num> {
    cfg: Cfg,
    mref: MTBDDManagerRef<T>,
    by_table: HashMap<Tab<T>, F<T>>,
    by_handle: HashMap<F<T>, Tab<T>>,
    replay: Option<MTBDDManagerRef<T>>,
    sig_seen: HashMap<String, u32>,
    nc_tick: u64,
    hint: HashMap<Op, (Op, bool)>,
}

fn new_mref<T: Num>(cfg: &Cfg) -> MTBDDManagerRef<T> {
    let mref = oxidd::mtbdd::new_manager::<T>(cfg.inner, cfg.terms, cfg.cache, cfg.threads);
    mref.with_manager_exclusive(|m| {
        if cfg.threads > 1 {
            // mostly MAX (parallel recursion throughout); otherwise a small depth, so that the
            // parallel recursor hands over to the sequential one inside an operation
            let d = [u32::MAX, 1, u32::MAX, 2][(cfg.cache.trailing_zeros() as usize + cfg.n as usize) % 4];
            m.workers().set_split_depth(Some(d));
        }
        m.add_vars(cfg.n);
    });
    if cfg.order.iter().enumerate().any(|(i, &v)| i as u32 != v) {
        crate::kinds::set_order(&mref, &cfg.order);
    }
    mref
}

const CANON_CAP: usize = 200_000;

impl<T: Num> World<T> {
    fn new(ctx: &mut Ctx, cfg: Cfg) -> Self {
        let mref = new_mref::<T>(&cfg);
        let got = crate::kinds::current_order(&mref);
        ctx.check(got == cfg.order, &format!("mtbdd-{}:set_var_order-empty:order", T::NAME), || format!("requested {:?} got {got:?}", cfg.order));
        World { cfg, mref, by_table: HashMap::new(), by_handle: HashMap::new(), replay: None, sig_seen: HashMap::new(), nc_tick: 0, hint: HashMap::new() }
    }
    fn k(&self) -> String {
        format!("mtbdd-{}", T::NAME)
    }
    /// report a violation; witness text is only produced for the first few of a signature
    fn viol(&mut self, ctx: &mut Ctx, sig: String, w: impl FnOnce() -> String) {
        let c = self.sig_seen.entry(sig.clone()).or_insert(0);
        *c += 1;
        let text = if *c <= 3 { format!("{}: {}", self.cfg.show(), w()) } else { String::new() };
        ctx.violation(&sig, text);
    }

    /// Canonicity: equal tables <=> identical handles (per manager)
    fn observe(&mut self, ctx: &mut Ctx, f: &F<T>, t: &Tab<T>) {
        ctx.eval();
        match self.by_table.get(t) {
            Some(g) => {
                if g != f {
                    let sig = format!("{}:canonicity:equal-tables-distinct-handles", self.k());
                    self.viol(ctx, sig, || show_tab::<T>(t));
                }
            }
            None => {
                if self.by_table.len() < CANON_CAP {
                    self.by_table.insert(t.clone(), f.clone());
                }
            }
        }
        match self.by_handle.get(f) {
            Some(t2) => {
                if t2 != t {
                    let t2 = t2.clone();
                    let sig = format!("{}:canonicity:equal-handles-different-tables", self.k());
                    self.viol(ctx, sig, || format!("{} vs {}", show_tab::<T>(t), show_tab::<T>(&t2)));
                }
            }
            None => {
                if self.by_handle.len() < CANON_CAP {
                    self.by_handle.insert(f.clone(), t.clone());
                }
            }
        }
    }
    fn forget(&mut self) {
        self.by_table.clear();
        self.by_handle.clear();
    }

    /// Build `t`, check the walk and `eval` against it, the node count against the reduced
    /// diagram's size; returns None if the build itself is wrong.
    fn build_checked(&mut self, ctx: &mut Ctx, t: &Tab<T>, how: Builder) -> Option<F<T>> {
        let f = build::<T>(&self.mref, t, how);
        let it = interp_tab::<T>(&f);
        ctx.eval();
        ctx.count("functions_built", 1);
        if it != *t {
            let sig = format!("{}:build-{}:wrong-table", self.k(), if how == Builder::Ite { "ite" } else { "low-level" });
            self.viol(ctx, sig, || format!("wanted {} got {}", show_tab::<T>(t), show_tab::<T>(&it)));
            return None;
        }
        self.check_eval_count(ctx, &f, t, "build");
        self.observe(ctx, &f, t);
        Some(f)
    }

    fn check_eval_count(&mut self, ctx: &mut Ctx, f: &F<T>, it: &Tab<T>, what: &str) {
        let et = eval_tab::<T>(f, self.cfg.n);
        ctx.eval();
        if et != *it {
            let sig = format!("{}:eval-vs-interp", self.k());
            self.viol(ctx, sig, || format!("{what}: eval {} interp {}", show_tab::<T>(&et), show_tab::<T>(it)));
        }
        // `node_count()` clears a bit set spanning the whole id space (several MB for the MTBDD
        // manager), so it is sampled: always for built operands, 1 in 64 for results
        self.nc_tick += 1;
        if what != "build" && self.nc_tick % 64 != 0 {
            return;
        }
        let mut set = HashSet::new();
        ref_nodes(it, &self.cfg.order, &mut set);
        let got = f.node_count();
        ctx.eval();
        ctx.count("node_counts_checked", 1);
        if got != set.len() {
            let sig = format!("{}:node_count-not-reduced-size", self.k());
            self.viol(ctx, sig, || format!("{what}: {} node_count {got}, reduced diagram has {}", show_tab::<T>(it), set.len()));
        }
    }

    /// Does a cache-free manager compute `op(ta, tb)` correctly, and after which other operation
    /// on the same operands does it go wrong? Returns the signature suffix.
    fn classify_bin(&mut self, ctx: &mut Ctx, op: Op, ta: &Tab<T>, tb: &Tab<T>, want: &Tab<T>, got: &Tab<T>) -> String {
        // Is the diagram layer merely faithful to a wrong terminal-type result? (classification
        // only; the oracle above never uses OxiDD's arithmetic)
        if ARITH_OPS.contains(&op) {
            let scalar: Tab<T> = ta.iter().zip(tb).map(|(&x, &y)| nb_op(op, &T::from_r(x), &T::from_r(y)).r()).collect();
            if scalar == *got {
                return "wrong-table-terminal-arithmetic".into();
            }
        }
        if std::env::var_os("VH_NOCLASSIFY").is_some() {
            return "wrong-table-unclassified".into();
        }
        ctx.count("replays", 1);
        if self.replay.is_none() {
            let cfg = Cfg::new(self.cfg.n, self.cfg.order.clone(), 1, 1 << 10);
            self.replay = Some(new_mref::<T>(&cfg));
        }
        let r = self.replay.as_ref().unwrap();
        let fa = build::<T>(r, ta, Builder::LowLevel);
        let fb = build::<T>(r, tb, Builder::LowLevel);
        let gc = || {
            r.with_manager_shared(|m| m.gc()); // also clears the apply cache
        };
        gc();
        if interp_tab::<T>(&apply(op, &fa, &fb)) != *want {
            return "wrong-table".into();
        }
        // candidates: every other operator (and the same one with swapped operands) issued
        // first on the same operands; the culprit found last time is tried first
        let mut cands: Vec<(Op, bool)> = self.hint.get(&op).copied().into_iter().collect();
        for p in ALL_OPS {
            for swapped in [false, true] {
                if !(p == op && !swapped) && !cands.contains(&(p, swapped)) {
                    cands.push((p, swapped));
                }
            }
        }
        for (p, swapped) in cands {
            gc();
            let _first = if swapped { apply(p, &fb, &fa) } else { apply(p, &fa, &fb) };
            if interp_tab::<T>(&apply(op, &fa, &fb)) != *want {
                self.hint.insert(op, (p, swapped));
                return format!("wrong-table-after-{}{}", p.name(), if swapped { "-swapped" } else { "" });
            }
        }
        "wrong-table-after-history".into()
    }

    /// Issue `op(fa, fb)` and compare with the pointwise reference. Returns (handle, interp table).
    fn check_bin(&mut self, ctx: &mut Ctx, op: Op, fa: &F<T>, ta: &Tab<T>, fb: &F<T>, tb: &Tab<T>, note: &str) -> (F<T>, Tab<T>) {
        let want = tab_op::<T>(op, ta, tb);
        let r = apply(op, fa, fb);
        let got = interp_tab::<T>(&r);
        ctx.eval();
        if got != want {
            let suffix = self.classify_bin(ctx, op, ta, tb, &want, &got);
            let sig = format!("{}:{}:{}", self.k(), op.name(), suffix);
            self.viol(ctx, sig, || {
                format!("{note}{} {} {} = {} want {}", show_tab::<T>(ta), op.name(), show_tab::<T>(tb), show_tab::<T>(&got), show_tab::<T>(&want))
            });
        } else if !is_const(&want) {
            ctx.distinct((T::NAME, op, ta, tb));
        }
        self.check_eval_count(ctx, &r, &got, op.name());
        self.observe(ctx, &r, &got);
        (r, got)
    }

    fn check_ite(&mut self, ctx: &mut Ctx, fc: &F<T>, tc: &Tab<T>, fa: &F<T>, ta: &Tab<T>, fb: &F<T>, tb: &Tab<T>) -> (F<T>, Tab<T>) {
        debug_assert!(tc.iter().all(|&c| c == T::r_zero() || c == T::r_one()));
        let want: Tab<T> = (0..tc.len()).map(|i| if tc[i] == T::r_one() { ta[i] } else { tb[i] }).collect();
        let r = fc.ite(fa, fb).expect("OOM");
        let got = interp_tab::<T>(&r);
        ctx.eval();
        if got != want {
            let sig = format!("{}:ite:wrong-table", self.k());
            self.viol(ctx, sig, || format!("ite({}, {}, {}) = {} want {}", show_tab::<T>(tc), show_tab::<T>(ta), show_tab::<T>(tb), show_tab::<T>(&got), show_tab::<T>(&want)));
        } else if !is_const(&want) {
            ctx.distinct((T::NAME, "ite", tc, ta, tb));
        }
        self.check_eval_count(ctx, &r, &got, "ite");
        self.observe(ctx, &r, &got);
        (r, got)
    }

    /// restrict `f` by the partial assignment (mask, vals); the cube is built from `var`
    fn check_restrict(&mut self, ctx: &mut Ctx, f: &F<T>, t: &Tab<T>, mask: usize, vals: usize, via_ops: bool) {
        let n = self.cfg.n;
        let cube_tab: Tab<T> = (0..t.len()).map(|a| if a & mask == vals { T::r_one() } else { T::r_zero() }).collect();
        let cube = if via_ops {
            // as in the crate's tests: product of `var` / `1 - var`
            self.mref.with_manager_shared(|m| {
                let one = F::<T>::constant(m, T::one()).unwrap();
                let mut c = one.clone();
                for v in 0..n {
                    if (mask >> v) & 1 == 1 {
                        let x = F::<T>::var(m, v).unwrap();
                        let lit = if (vals >> v) & 1 == 1 { x } else { one.sub(&x).unwrap() };
                        c = c.mul(&lit).unwrap();
                    }
                }
                c
            })
        } else {
            build::<T>(&self.mref, &cube_tab, Builder::LowLevel)
        };
        let ct = interp_tab::<T>(&cube);
        ctx.eval();
        if ct != cube_tab {
            let sig = format!("{}:cube-from-var-sub-mul:wrong-table", self.k());
            self.viol(ctx, sig, || format!("mask {mask:#b} vals {vals:#b}: got {}", show_tab::<T>(&ct)));
            return;
        }
        self.observe(ctx, &cube, &ct);
        let want: Tab<T> = (0..t.len()).map(|a| t[(a & !mask) | vals]).collect();
        let r = f.restrict(&cube).expect("OOM");
        let got = interp_tab::<T>(&r);
        ctx.eval();
        if got != want {
            let sig = format!("{}:restrict:wrong-table", self.k());
            self.viol(ctx, sig, || format!("restrict({}, vars {mask:#b} := {vals:#b}) = {} want {}", show_tab::<T>(t), show_tab::<T>(&got), show_tab::<T>(&want)));
        } else if !is_const(&want) && mask != 0 {
            ctx.distinct((T::NAME, "restrict", t, mask, vals));
        }
        // "In an MTBDD, the result never has more nodes than `self`"
        let (nr, nf) = if self.nc_tick % 8 == 0 { (r.node_count(), f.node_count()) } else { (0, 0) };
        ctx.eval();
        if nr > nf {
            let sig = format!("{}:restrict:result-has-more-nodes", self.k());
            self.viol(ctx, sig, || format!("restrict({}, vars {mask:#b} := {vals:#b}): {nr} > {nf}", show_tab::<T>(t)));
        }
        self.check_eval_count(ctx, &r, &got, "restrict");
        self.observe(ctx, &r, &got);
    }

    fn check_const_var(&mut self, ctx: &mut Ctx, rng: &mut Rng) {
        let n = self.cfg.n;
        let len = 1usize << n;
        let c = if rng.bool() { *rng.pick(&T::full_palette()) } else { T::random_value(rng) };
        let f = self.mref.with_manager_shared(|m| F::<T>::constant(m, T::from_r(c)).unwrap());
        let it = interp_tab::<T>(&f);
        ctx.eval();
        if it != vec![c; len] {
            let sig = format!("{}:constant", self.k());
            self.viol(ctx, sig, || format!("constant({}) = {}", T::show(c), show_tab::<T>(&it)));
        }
        self.check_eval_count(ctx, &f, &it, "constant");
        self.observe(ctx, &f, &it);
        let v = rng.below(n as u64) as u32;
        let x = self.mref.with_manager_shared(|m| F::<T>::var(m, v).unwrap());
        let it = interp_tab::<T>(&x);
        let want: Tab<T> = (0..len).map(|a| if (a >> v) & 1 == 1 { T::r_one() } else { T::r_zero() }).collect();
        ctx.eval();
        if it != want {
            let sig = format!("{}:var", self.k());
            self.viol(ctx, sig, || format!("var({v}) = {}", show_tab::<T>(&it)));
        }
        self.check_eval_count(ctx, &x, &it, "var");
        self.observe(ctx, &x, &it);
    }

    /// Quiescent point: structural audit; gc; exactly the nodes/terminals of `live` remain.
    fn audit_and_gc(&mut self, ctx: &mut Ctx, live: &[(F<T>, Tab<T>)], when: &str) {
        self.forget();
        let k = self.k();
        let s = self.mref.with_manager_shared(|m| audit::structural(m, Rule::Mtbdd, &|_| false));
        ctx.count("audits", 1);
        ctx.evals(1 + s.nodes as u64);
        for (clause, detail) in &s.errs {
            self.viol(ctx, format!("{k}:structure:{clause}"), || format!("{when}: {detail}"));
        }
        let (before, collected, inner, terms) = self.mref.with_manager_shared(|m| {
            let before = m.num_inner_nodes() + m.num_terminals();
            let c = m.gc();
            (before, c, m.num_inner_nodes(), m.num_terminals())
        });
        ctx.count("gcs", 1);
        let mut set = HashSet::new();
        for (_, t) in live {
            ref_nodes(t, &self.cfg.order, &mut set);
        }
        let want_terms = set.iter().filter(|t| is_const(t)).count();
        let want_inner = set.len() - want_terms;
        ctx.eval();
        if inner != want_inner {
            self.viol(ctx, format!("{k}:gc:inner-nodes-remaining"), || format!("{when}: {} live handles need {want_inner} inner nodes, num_inner_nodes() = {inner}", live.len()));
        }
        ctx.eval();
        if terms != want_terms {
            self.viol(ctx, format!("{k}:gc:terminals-remaining"), || format!("{when}: {} live handles reference {want_terms} terminals, num_terminals() = {terms}", live.len()));
        }
        ctx.eval();
        if before < inner + terms || collected != before - (inner + terms) {
            self.viol(ctx, format!("{k}:gc:return-value"), || format!("{when}: {before} nodes before, {} after, gc() returned {collected}", inner + terms));
        }
        // the survivors are intact
        for (f, t) in live {
            let it = interp_tab::<T>(f);
            ctx.eval();
            if it != *t {
                self.viol(ctx, format!("{k}:gc:live-handle-changed"), || format!("{when}: {} became {}", show_tab::<T>(t), show_tab::<T>(&it)));
            }
        }
        let s = self.mref.with_manager_shared(|m| audit::structural(m, Rule::Mtbdd, &|_| false));
        ctx.evals(1 + s.nodes as u64);
        for (clause, detail) in &s.errs {
            self.viol(ctx, format!("{k}:structure:{clause}"), || format!("{when} (after gc): {detail}"));
        }
    }
}

// ---- (a) exhaustive pairs over 2 variables -----------------------------------------------------

fn all_tables<R: Copy>(palette: &[R], n: u32) -> Vec<Vec<R>> {
    let len = 1usize << n;
    let p = palette.len();
    let total = p.pow(len as u32);
    (0..total)
        .map(|mut i| {
            (0..len)
                .map(|_| {
                    let x = palette[i % p];
                    i /= p;
                    x
                })
                .collect()
        })
        .collect()
}

/// order of the six operators for pair (a, b): rotation + direction vary so that every operator
/// is issued directly after every other one on the same operands somewhere.
fn op_order(a: usize, b: usize) -> Vec<Op> {
    let start = (a * 7 + b * 3) % 6;
    let mut v: Vec<Op> = (0..6).map(|i| ALL_OPS[(start + i * if (a + b) % 5 < 3 { 1 } else { 5 }) % 6]).collect();
    if (a ^ b) & 1 == 1 {
        v.swap(4, 5);
    }
    v
}

struct PairsCfg {
    palette: usize,
    order: Vec<u32>,
    threads: u32,
    cache: usize,
}

fn pairs_rows<T: Num>(ctx: &mut Ctx, pc: &PairsCfg, item0: usize) -> usize {
    let palette = &T::small_palettes()[pc.palette];
    let tabs = all_tables(palette, 2);
    let nf = tabs.len();
    let rows: Vec<usize> = (0..nf).filter(|a| ctx.mine(item0 + a)).collect();
    if rows.is_empty() {
        return nf;
    }
    let mut w = World::<T>::new(ctx, Cfg::new(2, pc.order.clone(), pc.threads, pc.cache));
    let mut funcs: Vec<F<T>> = Vec::with_capacity(nf);
    for (i, t) in tabs.iter().enumerate() {
        let how = if i % 2 == 0 { Builder::LowLevel } else { Builder::Ite };
        match w.build_checked(ctx, t, how) {
            Some(f) => funcs.push(f),
            None => funcs.push(build::<T>(&w.mref, t, Builder::LowLevel)),
        }
    }
    let conds = all_tables(&[T::r_zero(), T::r_one()], 2);
    let cond_f: Vec<F<T>> = conds.iter().map(|t| build::<T>(&w.mref, t, Builder::LowLevel)).collect();
    let mut rng = ctx.rng(0xA000 + item0 as u64);
    let tiny = pc.cache <= 64;
    for &a in &rows {
        for b in 0..nf {
            for op in op_order(a, b) {
                w.check_bin(ctx, op, &funcs[a], &tabs[a], &funcs[b], &tabs[b], "");
            }
            ctx.count("pairs", 1);
            if tiny {
                ctx.count("cache_evictions_possible", 6);
            }
            if rng.chance(1, 8) {
                let c = rng.usize(conds.len());
                w.check_ite(ctx, &cond_f[c], &conds[c], &funcs[a], &tabs[a], &funcs[b], &tabs[b]);
                ctx.count("ite_triples", 1);
            }
        }
        // restrict: every partial assignment of the two variables
        for mask in 0..4usize {
            for vals in 0..4usize {
                if vals & !mask == 0 {
                    w.check_restrict(ctx, &funcs[a], &tabs[a], mask, vals, (a + mask) % 2 == 0);
                }
            }
        }
    }
    ctx.sample(|| {
        format!(
            "mtbdd-{} 2 variables, palette {}: all {nf}x{nf} operand pairs x add/sub/mul/div/min/max in varying operator order on one manager ({})",
            T::NAME,
            show_tab::<T>(palette),
            w.cfg.show()
        )
    });
    // (e) quiescent end: keep a few handles, then none
    let keep: Vec<(F<T>, Tab<T>)> = (0..4).map(|_| rng.usize(nf)).map(|i| (funcs[i].clone(), tabs[i].clone())).collect();
    drop(funcs);
    drop(cond_f);
    w.audit_and_gc(ctx, &keep, "after pairs, 4 handles kept");
    drop(keep);
    w.audit_and_gc(ctx, &[], "after dropping all handles");
    nf
}

// ---- (b)+(c) random functions and histories ----------------------------------------------------

fn random_table<T: Num>(rng: &mut Rng, n: u32) -> Tab<T> {
    let len = 1usize << n;
    let full = T::full_palette();
    // a sub-palette keeps the diagrams small enough to share nodes and hit the caches
    let k = rng.range(2, 5);
    let mut pal: Vec<T::R> = (0..k).map(|_| *rng.pick(&full)).collect();
    if rng.chance(1, 6) {
        pal.push(T::random_value(rng));
    }
    if rng.chance(1, 4) {
        pal = full;
    }
    (0..len).map(|_| *rng.pick(&pal)).collect()
}
fn random_01<T: Num>(rng: &mut Rng, n: u32) -> Tab<T> {
    (0..1usize << n).map(|_| if rng.bool() { T::r_one() } else { T::r_zero() }).collect()
}

fn history<T: Num>(ctx: &mut Ctx, rng: &mut Rng, cfg: Cfg, pool_size: usize, steps: usize) {
    let n = cfg.n;
    let tiny = cfg.cache <= 64;
    let mut w = World::<T>::new(ctx, cfg);
    let len = 1usize << n;
    let mut pool: Vec<(F<T>, Tab<T>)> = Vec::new();
    for i in 0..pool_size {
        let t = random_table::<T>(rng, n);
        let how = if i % 2 == 0 { Builder::LowLevel } else { Builder::Ite };
        if let Some(f) = w.build_checked(ctx, &t, how) {
            pool.push((f, t));
        }
    }
    if pool.is_empty() {
        return;
    }
    let consts: Vec<(F<T>, Tab<T>)> = [T::r_zero(), T::r_one()]
        .iter()
        .map(|&c| (w.mref.with_manager_shared(|m| F::<T>::constant(m, T::from_r(c)).unwrap()), vec![c; len]))
        .collect();
    let (zero, one) = (consts[0].clone(), consts[1].clone());
    let mut nsteps = 0u64;
    for step in 0..steps {
        if step % 64 == 63 {
            // quiescent: only `pool` and `consts` hold handles now
            let mut live = pool.clone();
            live.extend(consts.iter().cloned());
            w.audit_and_gc(ctx, &live, "mid-history");
        }
        if step % 64 == 31 && n >= 2 {
            // reordering with live (and dead) nodes: every handle keeps its value table, the diagram
            // is the reduced one for the NEW order (exact node and terminal counts after gc)
            let mut req = rng.perm(n as usize);
            if rng.chance(1, 3) {
                req.truncate(rng.range(2, n as usize));
            }
            let seq = rng.chance(1, 3);
            w.mref.with_manager_exclusive(|m| if seq { oxidd_reorder::set_var_order_seq(m, &req) } else { oxidd_reorder::set_var_order(m, &req) });
            let after = crate::kinds::current_order(&w.mref);
            ctx.eval();
            if !crate::mon::c08::consistent(&after, &req) {
                let k = w.k();
                w.viol(ctx, format!("{k}:set_var_order:requested-relative-order"), || format!("request {req:?} after {after:?}"));
            }
            w.cfg.order = after;
            w.replay = None; // the replay manager is built for one order
            let mut live = pool.clone();
            live.extend(consts.iter().cloned());
            w.audit_and_gc(ctx, &live, "after set_var_order");
            ctx.count("reorderings_with_live_nodes", 1);
        }
        let i = rng.usize(pool.len());
        let j = rng.usize(pool.len());
        let (f, tf) = pool[i].clone();
        let (g, tg) = pool[j].clone();
        let mut new: Option<(F<T>, Tab<T>)> = None;
        match rng.below(12) {
            0..=2 => {
                // the same operands, different operators back to back
                let seqs: [&[Op]; 8] = [
                    &[Op::Min, Op::Max],
                    &[Op::Max, Op::Min],
                    &[Op::Add, Op::Sub],
                    &[Op::Sub, Op::Add],
                    &[Op::Mul, Op::Div],
                    &[Op::Div, Op::Mul],
                    &[Op::Min, Op::Max, Op::Min, Op::Add, Op::Max],
                    &[Op::Sub, Op::Div, Op::Add, Op::Mul, Op::Max, Op::Min],
                ];
                let seq = *rng.pick(&seqs);
                let mut prev = "";
                for &op in seq {
                    let note = if prev.is_empty() { String::new() } else { format!("(directly after {prev} on the same operands) ") };
                    new = Some(w.check_bin(ctx, op, &f, &tf, &g, &tg, &note));
                    prev = op.name();
                    nsteps += 1;
                }
            }
            3 => {
                // operand order swapped
                let op = *rng.pick(&ALL_OPS);
                w.check_bin(ctx, op, &f, &tf, &g, &tg, "");
                new = Some(w.check_bin(ctx, op, &g, &tg, &f, &tf, "(directly after the same operator with swapped operands) "));
                nsteps += 2;
            }
            4 | 5 => {
                // identities with the neutral constants: 0 - g, g - 0, 0 + g, g + 0, 1 * g, g * 1, g / 1, 1 / g, 0 * g, 0 / g, g / 0
                let which = rng.below(11);
                let (op, l, r) = match which {
                    0 => (Op::Sub, &zero, &pool[j]),
                    1 => (Op::Sub, &pool[j], &zero),
                    2 => (Op::Add, &zero, &pool[j]),
                    3 => (Op::Add, &pool[j], &zero),
                    4 => (Op::Mul, &one, &pool[j]),
                    5 => (Op::Mul, &pool[j], &one),
                    6 => (Op::Div, &pool[j], &one),
                    7 => (Op::Div, &one, &pool[j]),
                    8 => (Op::Mul, &zero, &pool[j]),
                    9 => (Op::Div, &zero, &pool[j]),
                    _ => (Op::Div, &pool[j], &zero),
                };
                let (l, r) = (l.clone(), r.clone());
                new = Some(w.check_bin(ctx, op, &l.0, &l.1, &r.0, &r.1, "(constant operand) "));
                // and with min/max against the constants
                let op2 = if rng.bool() { Op::Min } else { Op::Max };
                w.check_bin(ctx, op2, &l.0, &l.1, &r.0, &r.1, "(constant operand) ");
                nsteps += 2;
                ctx.count("constant_operand_steps", 1);
            }
            6 | 7 => {
                let tc = random_01::<T>(rng, n);
                if let Some(c) = w.build_checked(ctx, &tc, if rng.bool() { Builder::LowLevel } else { Builder::Ite }) {
                    new = Some(w.check_ite(ctx, &c, &tc, &f, &tf, &g, &tg));
                    // swapped branches right after, and the condition used as an operand
                    w.check_ite(ctx, &c, &tc, &g, &tg, &f, &tf);
                    w.check_ite(ctx, &c, &tc, &c, &tc, &f, &tf);
                    nsteps += 3;
                    ctx.count("ite_triples", 3);
                }
            }
            8 | 9 => {
                let mask = rng.usize(1 << n);
                let vals = rng.usize(1 << n) & mask;
                w.check_restrict(ctx, &f, &tf, mask, vals, rng.bool());
                // the same cube on another operand right after (restrict cache key)
                w.check_restrict(ctx, &g, &tg, mask, vals, rng.bool());
                nsteps += 2;
                ctx.count("restricts", 2);
            }
            10 => {
                w.check_const_var(ctx, rng);
                nsteps += 1;
            }
            _ => {
                let op = *rng.pick(&ALL_OPS);
                new = Some(w.check_bin(ctx, op, &f, &tf, &g, &tg, ""));
                nsteps += 1;
            }
        }
        // feed results back as operands (replacing an old one) so that deeper diagrams and
        // values outside the palette appear
        if let Some(nw) = new {
            if rng.chance(1, 3) && !is_const(&nw.1) {
                let k = rng.usize(pool.len());
                pool[k] = nw;
            }
        }
    }
    ctx.count("histories", 1);
    ctx.count("history_steps", nsteps);
    if tiny {
        ctx.count("cache_evictions_possible", nsteps);
    }
    drop(zero);
    drop(one);
    drop(consts);
    drop(pool);
    w.audit_and_gc(ctx, &[], "after dropping all handles");
}

fn try_apply<T: Num>(op: Op, f: &F<T>, g: &F<T>) -> oxidd::util::AllocResult<F<T>> {
    match op {
        Op::Add => f.add(g),
        Op::Sub => f.sub(g),
        Op::Mul => f.mul(g),
        Op::Div => f.div(g),
        Op::Min => PseudoBooleanFunction::min(f, g),
        Op::Max => PseudoBooleanFunction::max(f, g),
    }
}

/// Tiny terminal / inner-node stores: every operation either returns `Err(OutOfMemory)` or the
/// right function; it never panics and leaves the manager consistent.
fn oom_history<T: Num>(ctx: &mut Ctx, rng: &mut Rng, threads: u32) {
    let n = 2u32;
    let mut cfg = Cfg::new(n, if rng.bool() { vec![0, 1] } else { vec![1, 0] }, threads, 16);
    cfg.terms = rng.range(3, 6);
    cfg.inner = *rng.pick(&[3usize, 4, 6, 1 << 10]);
    let term_cap = cfg.terms;
    let k = format!("mtbdd-{}", T::NAME);
    let label = format!("oom history {} {}", T::NAME, cfg.show());
    println!("@@{{\"t\":\"case\",\"case\":{}}}", crate::ctx::json_str(&label));
    let mut w = match crate::ctx::catch(|| World::<T>::new(ctx, cfg)) {
        Ok(w) => w,
        Err(msg) => {
            ctx.violation(&format!("{k}:oom:panic-in-new_manager"), format!("{label}: {msg}"));
            return;
        }
    };
    let mref = w.mref.clone();
    let pal: Vec<T::R> = T::full_palette();
    let mut pool: Vec<(F<T>, Tab<T>)> = Vec::new();
    let (mut errs, mut oks) = (0u64, 0u64);
    enum Step<R> {
        Const(R),
        Var(u32),
        Bin(Op, Vec<R>, Vec<R>),
    }
    for _ in 0..ctx.by_tier(150, 400) {
        if pool.len() > 3 || (!pool.is_empty() && rng.chance(1, 5)) {
            let i = rng.usize(pool.len());
            pool.swap_remove(i);
            if rng.chance(1, 3) {
                mref.with_manager_shared(|m| m.gc());
            }
        }
        let (res, want, step): (Result<oxidd::util::AllocResult<F<T>>, String>, Tab<T>, Step<T::R>) = if pool.len() < 2 || rng.chance(1, 3) {
            if rng.bool() {
                let c = *rng.pick(&pal);
                (crate::ctx::catch(|| mref.with_manager_shared(|m| F::<T>::constant(m, T::from_r(c)))), vec![c; 4], Step::Const(c))
            } else {
                let v = rng.below(n as u64) as u32;
                let want = (0..4usize).map(|a| if (a >> v) & 1 == 1 { T::r_one() } else { T::r_zero() }).collect();
                (crate::ctx::catch(|| mref.with_manager_shared(|m| F::<T>::var(m, v))), want, Step::Var(v))
            }
        } else {
            let (f, tf) = pool[rng.usize(pool.len())].clone();
            let (g, tg) = pool[rng.usize(pool.len())].clone();
            let op = *rng.pick(&ALL_OPS);
            (crate::ctx::catch(|| try_apply(op, &f, &g)), tab_op::<T>(op, &tf, &tg), Step::Bin(op, tf, tg))
        };
        ctx.eval();
        match res {
            Err(msg) => {
                ctx.violation(&format!("{k}:oom:panic"), format!("{label}: {msg} at {}", crate::ctx::last_panic_loc()));
                return; // locks may be poisoned
            }
            Ok(Err(_)) => errs += 1,
            Ok(Ok(r)) => {
                oks += 1;
                let got = interp_tab::<T>(&r);
                if got == want {
                    pool.push((r, got));
                    continue;
                }
                match step {
                    Step::Const(c) => w.viol(ctx, format!("{k}:constant"), || format!("constant({}) = {}", T::show(c), show_tab::<T>(&got))),
                    Step::Var(v) => w.viol(ctx, format!("{k}:var"), || format!("var({v}) = {}", show_tab::<T>(&got))),
                    Step::Bin(op, ta, tb) => {
                        // same signatures as elsewhere if the fault reproduces with ample memory
                        let mut suffix = w.classify_bin(ctx, op, &ta, &tb, &want, &got);
                        if suffix == "wrong-table-after-history" {
                            suffix = "wrong-table-under-memory-pressure".into();
                        }
                        w.viol(ctx, format!("{k}:{}:{suffix}", op.name()), || {
                            format!("{} {} {} = {} want {}", show_tab::<T>(&ta), op.name(), show_tab::<T>(&tb), show_tab::<T>(&got), show_tab::<T>(&want))
                        });
                    }
                }
            }
        }
    }
    ctx.count("oom_errors_returned", errs);
    ctx.count("oom_history_ok_results", oks);
    ctx.count("oom_histories", 1);
    let live = mref.with_manager_shared(|m| m.num_terminals());
    ctx.check(live <= term_cap, &format!("{k}:oom:more-terminals-than-capacity"), || format!("{label}: {live} terminals"));
    drop(pool);
    w.audit_and_gc(ctx, &[], "after an out-of-memory history, all handles dropped");
    // memory is usable again
    let again = crate::ctx::catch(|| mref.with_manager_shared(|m| F::<T>::constant(m, T::from_r(pal[3])).is_ok() && F::<T>::var(m, 0).is_ok()));
    ctx.check(again == Ok(true), &format!("{k}:oom:store-unusable-after-gc"), || format!("{label}: {again:?}"));
}

/// every ordered pair of scalar boundary values as constant diagrams (terminal case of apply)
fn const_pairs<T: Num>(ctx: &mut Ctx, threads: u32) {
    let mut w = World::<T>::new(ctx, Cfg::new(1, vec![0], threads, 256));
    let mut vals = T::full_palette();
    let mut rng = ctx.rng(0xC0);
    for _ in 0..6 {
        vals.push(T::random_value(&mut rng));
    }
    let fs: Vec<F<T>> = w.mref.with_manager_shared(|m| vals.iter().map(|&v| F::<T>::constant(m, T::from_r(v)).unwrap()).collect());
    for (i, &a) in vals.iter().enumerate() {
        for (j, &b) in vals.iter().enumerate() {
            for op in ALL_OPS {
                w.check_bin(ctx, op, &fs[i], &vec![a; 2], &fs[j], &vec![b; 2], "(constants) ");
                ctx.distinct((T::NAME, "const", op, a, b));
            }
            ctx.count("constant_pairs", 1);
        }
    }
    drop(fs);
    w.audit_and_gc(ctx, &[], "after dropping all handles");
}

pub fn dd(ctx: &mut Ctx) {
    let mut item = 0usize;
    // (a) exhaustive pairs; work item = (config, row a)
    let mut cfgs_i: Vec<PairsCfg> = vec![
        PairsCfg { palette: 0, order: vec![0, 1], threads: 1, cache: 1 << 12 },
        PairsCfg { palette: 1, order: vec![1, 0], threads: 4, cache: 1 << 12 },
    ];
    let mut cfgs_f: Vec<PairsCfg> = vec![
        PairsCfg { palette: 0, order: vec![1, 0], threads: 1, cache: 1 << 12 },
        PairsCfg { palette: 1, order: vec![0, 1], threads: 4, cache: 16 },
    ];
    if !ctx.quick() {
        cfgs_i.extend([
            PairsCfg { palette: 0, order: vec![1, 0], threads: 4, cache: 4 },
            PairsCfg { palette: 1, order: vec![0, 1], threads: 1, cache: 32 },
            PairsCfg { palette: 2, order: vec![0, 1], threads: 1, cache: 1 << 12 },
            PairsCfg { palette: 3, order: vec![1, 0], threads: 4, cache: 1 << 10 },
        ]);
        cfgs_f.extend([
            PairsCfg { palette: 2, order: vec![0, 1], threads: 1, cache: 1 << 12 },
            PairsCfg { palette: 3, order: vec![1, 0], threads: 4, cache: 1 << 12 },
            PairsCfg { palette: 0, order: vec![0, 1], threads: 4, cache: 2 },
        ]);
    }
    for pc in &cfgs_i {
        item += pairs_rows::<I64>(ctx, pc, item);
    }
    for pc in &cfgs_f {
        item += pairs_rows::<F64>(ctx, pc, item);
    }
    // scalar boundary pairs as constant diagrams
    for threads in [1u32, 4] {
        if ctx.mine(item) {
            const_pairs::<I64>(ctx, threads);
        }
        if ctx.mine(item + 1) {
            const_pairs::<F64>(ctx, threads);
            // terminal identity follows the normalised value: -0.0 is 0.0, every NaN is NaN
            let mref = new_mref::<F64>(&Cfg::new(1, vec![0], threads, 16));
            mref.with_manager_shared(|m| {
                let c = |x: f64| F::<F64>::constant(m, F64::from(x)).unwrap();
                ctx.check(c(-0.0) == c(0.0), "mtbdd-f64:canonicity:negative-zero-terminal", String::new);
                ctx.check(c(-f64::NAN) == c(f64::NAN) && c(f64::from_bits(0x7ff0_0000_0000_0001)) == c(f64::NAN), "mtbdd-f64:canonicity:nan-terminals", String::new);
                ctx.check(c(0.0).div(&c(0.0)).unwrap() == F::<F64>::constant(m, F64::nan()).unwrap(), "mtbdd-f64:canonicity:nan-terminals", || "0/0 vs nan()".into());
                ctx.check(c(-1.0).mul(&c(0.0)).unwrap() == c(0.0), "mtbdd-f64:canonicity:negative-zero-terminal", || "-1 * 0 vs 0".into());
            });
        }
        item += 2;
    }
    // error paths: tiny node / terminal stores
    let no = ctx.by_tier(32, 128);
    for h in 0..no {
        if ctx.mine(item + h) {
            let mut rng = Rng::new(crate::rng::mix(crate::rng::mix(ctx.seed, 0x00E), h as u64));
            let threads = if h % 4 == 3 { 4 } else { 1 };
            if h % 2 == 0 { oom_history::<I64>(ctx, &mut rng, threads) } else { oom_history::<F64>(ctx, &mut rng, threads) }
        }
    }
    item += no;
    // (b) + (c) random functions / histories over 1..4 variables
    let nh = ctx.by_tier(160, 3200);
    for h in 0..nh {
        if !ctx.mine(item + h) {
            continue;
        }
        let mut rng = Rng::new(crate::rng::mix(crate::rng::mix(ctx.seed, 0xC10D), h as u64));
        let n = 1 + (h % 4) as u32;
        let order = rng.perm(n as usize);
        let threads = if rng.chance(1, 4) { 4 } else { 1 };
        let cache = *rng.pick(&[1usize, 2, 4, 16, 64, 1 << 10, 1 << 12]);
        // small pools = many repeated operand pairs (c); larger pools = more functions (b)
        let pool = *rng.pick(&[2usize, 3, 4, 8, 16]);
        let steps = ctx.by_tier(128, 320);
        let cfg = Cfg::new(n, order, threads, cache);
        if h % 3 == 2 {
            history::<F64>(ctx, &mut rng, cfg, pool, steps);
        } else {
            history::<I64>(ctx, &mut rng, cfg, pool, steps);
        }
    }
    ctx.sample(|| format!("{nh} random histories over 1..4 variables (random order, threads 1/4, apply-cache 1..4096): same operands under min/max/add/sub/mul/div back to back, swapped operands, 0-g, g-0, 1*g, g/1, ite, restrict, constant, var; gc + audits"));
}

// ==========================================================================================
// Additions for C05 / C07 / C14 (MTBDD-specific clauses of those properties)
// ==========================================================================================

/// C05 (MTBDD clause): iterating `Manager::terminals()` (as DOT/DDDMP export do) hands out owned
/// edges; after dropping them through `drop_edge`, a collection must keep every terminal that a
/// handle or an inner node still references, and free exactly the others.
fn terminals_iter_kind<T: Num>(ctx: &mut Ctx, rng: &mut Rng, rounds: usize) {
    for round in 0..rounds {
        let n = rng.range(1, 3) as u32;
        let cfg = Cfg::new(n, (0..n).collect(), 1, 64);
        let mref = new_mref::<T>(&cfg);
        let label = format!("mtbdd-{} terminals() round {round} {}", T::NAME, cfg.show());
        println!("@@{{\"t\":\"case\",\"case\":{}}}", crate::ctx::json_str(&label));
        let mut live: Vec<(F<T>, Tab<T>)> = (0..rng.range(1, 5))
            .map(|_| {
                let t = random_table::<T>(rng, n);
                (build::<T>(&mref, &t, Builder::Ite), t)
            })
            .collect();
        for step in 0..6 {
            // garbage: results that are dropped at once
            for _ in 0..3 {
                let (a, b) = (rng.usize(live.len()), rng.usize(live.len()));
                let _ = try_apply::<T>(*rng.pick(&ALL_OPS), &live[a].0, &live[b].0);
            }
            // iterate the terminals like the exporters do
            let listed = mref.with_manager_shared(|m| {
                let mut k = 0;
                for e in m.terminals() {
                    k += 1;
                    m.drop_edge(e);
                }
                k
            });
            ctx.eval();
            let nt = mref.with_manager_shared(|m| m.num_terminals());
            if listed != nt {
                ctx.violation(&format!("mtbdd-{}:terminals:iterator-length", T::NAME), format!("{label}: iterated {listed}, num_terminals {nt}"));
            }
            mref.with_manager_shared(|m| m.gc());
            // fresh terminals reuse freed slots
            let fresh: Vec<F<T>> = (0..4).map(|_| mref.with_manager_shared(|m| F::<T>::constant(m, T::from_r(T::random_value(rng))).unwrap())).collect();
            for (f, t) in &live {
                ctx.eval();
                let it = interp_tab::<T>(f);
                if it != *t {
                    ctx.violation(
                        &format!("mtbdd-{}:terminals:handle-changed-after-terminals-iteration-and-gc", T::NAME),
                        format!("{label} step {step}: table {} now {}", show_tab::<T>(t), show_tab::<T>(&it)),
                    );
                }
            }
            drop(fresh);
            mref.with_manager_shared(|m| m.gc());
            let want: HashSet<T::R> = live.iter().flat_map(|(_, t)| t.iter().copied()).collect();
            let nt = mref.with_manager_shared(|m| m.num_terminals());
            ctx.eval();
            if nt != want.len() {
                ctx.violation(
                    &format!("mtbdd-{}:gc:terminals-remaining", T::NAME),
                    format!("{label} step {step}: {nt} terminals stored, {} distinct values referenced by live handles", want.len()),
                );
            }
            if live.len() > 1 && rng.bool() {
                let k = rng.usize(live.len());
                live.swap_remove(k);
            }
            ctx.distinct((T::NAME, "terminals-iter", round, step));
        }
        ctx.count("terminal_iterations", 6);
    }
}

pub fn terminals_iter(ctx: &mut Ctx) {
    let mut rng = ctx.rng(0xC05_7);
    let rounds = ctx.by_tier(20, 300);
    terminals_iter_kind::<I64>(ctx, &mut rng, rounds);
    terminals_iter_kind::<F64>(ctx, &mut rng, rounds);
    ctx.sample(|| "MTBDD: build functions, create garbage, iterate Manager::terminals() dropping each edge, gc, create fresh constants: live handles keep their value tables; num_terminals == distinct referenced values".into());
}

/// C07 (MTBDD clause): operations whose results are bare, otherwise unreferenced terminals, run
/// while another thread collects; under the cooperative scheduler (yield points inside gc) and
/// free-running with injected delays.
fn conc_kind<T: Num>(ctx: &mut Ctx, rng: &mut Rng, scenarios: usize, scheduled: bool) {
    use crate::sched::{self, Sched, Strategy};
    use std::sync::Arc;
    for s in 0..scenarios {
        let n = rng.range(1, 3) as u32;
        let cfg = Cfg { n, order: (0..n).collect(), threads: 1, cache: 1 << rng.range(2, 8), inner: 1 << 12, terms: 1 << 12 };
        let mref = new_mref::<T>(&cfg);
        let label = format!("mtbdd-{} concurrent scenario {s} scheduled={scheduled} {}", T::NAME, cfg.show());
        println!("@@{{\"t\":\"case\",\"case\":{}}}", crate::ctx::json_str(&label));
        // base functions f and complements g = c - f, so that f + g is the bare terminal c
        let mut base: Vec<(F<T>, Tab<T>)> = Vec::new();
        for _ in 0..2 {
            let t: Tab<T> = (0..1usize << n).map(|_| *rng.pick(&T::small_palettes()[0])).collect();
            // partner g = c - f (pointwise), so that f + g is the bare terminal c, referenced by nobody else
            let c = T::random_value(rng);
            let g: Tab<T> = t.iter().map(|&x| T::r_op(Op::Sub, c, x)).collect();
            base.push((build::<T>(&mref, &t, Builder::Ite), t));
            base.push((build::<T>(&mref, &g, Builder::Ite), g));
        }
        let nworkers = 2usize;
        let sched_obj: Option<Arc<Box<Sched>>> =
            if scheduled {
                let strat = if s % 2 == 0 {
                    Strategy::Random { seed: rng.next(), inv_p: *rng.pick(&[2u64, 4, 16]) }
                } else {
                    Strategy::Pct { seed: rng.next(), depth: rng.range(1, 4) as u32, est_len: 6000 }
                };
                Some(Arc::new(Sched::new(nworkers + 1, strat)))
            } else {
                None
            };
        if !scheduled {
            sched::delay::install(rng.next(), *rng.pick(&[2u64, 8, 32]));
        }
        let seeds: Vec<u64> = (0..nworkers).map(|_| rng.next()).collect();
        let done = Arc::new(std::sync::atomic::AtomicBool::new(false));
        let remaining = Arc::new(std::sync::atomic::AtomicUsize::new(nworkers));
        let body = || {
            let mut hs = Vec::new();
            for tid in 0..nworkers {
                let (done, remaining) = (done.clone(), remaining.clone());
                let base: Vec<(F<T>, Tab<T>)> = base.iter().map(|(f, t)| (f.clone(), t.clone())).collect();
                let mut tctx = ctx.child();
                let sched_obj = sched_obj.clone();
                let seed = seeds[tid];
                let lbl = label.clone();
                hs.push(std::thread::spawn(move || {
                    let mut rng = Rng::new(seed);
                    if let Some(s) = &sched_obj {
                        s.enter(tid);
                    }
                    let mut pool = base;
                    let steps = if sched_obj.is_some() { 24 } else { 1500 };
                    for step in 0..steps {
                        let (mut a, mut b) = (rng.usize(pool.len()), rng.usize(pool.len()));
                        let mut op = *rng.pick(&ALL_OPS);
                        if rng.chance(1, 2) {
                            // f + (c - f): the result is a bare terminal nobody else references
                            a = 2 * rng.usize(2);
                            b = a + 1;
                            op = Op::Add;
                        }
                        let want = tab_op::<T>(op, &pool[a].1, &pool[b].1);
                        let Ok(r) = try_apply::<T>(op, &pool[a].0, &pool[b].0) else { continue };
                        // sometimes let the result die right away, allocate fresh terminals (slot reuse) and
                        // recompute (cache hit on a result that may have been collected in between)
                        let r = if rng.chance(2, 3) {
                            drop(r);
                            let _fresh: Vec<F<T>> = (0..rng.range(0, 3))
                                .filter_map(|_| pool[0].0.with_manager_shared(|m, _| F::<T>::constant(m, T::from_r(T::random_value(&mut rng))).ok()))
                                .collect();
                            match try_apply::<T>(op, &pool[a].0, &pool[b].0) {
                                Ok(r) => r,
                                Err(_) => continue,
                            }
                        } else {
                            r
                        };
                        let got = interp_tab::<T>(&r);
                        tctx.eval();
                        if got != want {
                            tctx.violation(
                                &format!("mtbdd-{}:concurrent:{}:wrong-table", T::NAME, op.name()),
                                format!("{lbl} thread {tid} step {step}: {}({}, {}) = {} want {}", op.name(), show_tab::<T>(&pool[a].1), show_tab::<T>(&pool[b].1), show_tab::<T>(&got), show_tab::<T>(&want)),
                            );
                        } else if !is_const(&want) {
                            tctx.distinct((T::NAME, "conc", op, &want));
                        }
                        if pool.len() < 8 {
                            pool.push((r, want));
                        } else {
                            let k = 4 + rng.usize(pool.len() - 4);
                            pool[k] = (r, want);
                        }
                    }
                    if let Some(s) = &sched_obj {
                        s.leave(tid);
                    }
                    if remaining.fetch_sub(1, std::sync::atomic::Ordering::AcqRel) == 1 {
                        done.store(true, std::sync::atomic::Ordering::Relaxed);
                    }
                    (pool, tctx)
                }));
            }
            // collector thread
            {
                let done = done.clone();
                let mref = mref.clone();
                let sched_obj = sched_obj.clone();
                hs.push(std::thread::spawn(move || {
                    if let Some(s) = &sched_obj {
                        s.enter(nworkers);
                    }
                    if sched_obj.is_some() {
                        for _ in 0..40 {
                            mref.with_manager_shared(|m| m.gc());
                        }
                    } else {
                        // free running: collect until the workers are done
                        while !done.load(std::sync::atomic::Ordering::Relaxed) {
                            mref.with_manager_shared(|m| m.gc());
                            std::thread::yield_now();
                        }
                    }
                    if let Some(s) = &sched_obj {
                        s.leave(nworkers);
                    }
                    (Vec::new(), Ctx::new("C07", "gc-thread", crate::Tier::Quick, 0, 0, 1))
                }));
            }
            hs.into_iter().map(|h| h.join()).collect::<Vec<_>>()
        };
        let results = match &sched_obj {
            Some(s) => sched::with_scheduler(s, body),
            None => body(),
        };
        if !scheduled {
            sched::delay::uninstall();
        }
        if let Some(s) = &sched_obj {
            let o = s.outcome();
            if let Some(d) = o.deadlock {
                ctx.violation(&format!("mtbdd-{}:deadlock-at-yield-points", T::NAME), format!("{label}: {d}"));
                ctx.finish();
                std::process::exit(0);
            }
            ctx.distinct((T::NAME, "sig", o.signature));
            ctx.count("schedules", 1);
            ctx.count("context_switches", o.switches);
        }
        let mut all: Vec<(F<T>, Tab<T>)> = Vec::new();
        for r in results {
            match r {
                Ok((pool, tctx)) => {
                    ctx.absorb(tctx);
                    all.extend(pool);
                }
                Err(_) => ctx.violation(&format!("mtbdd-{}:concurrent:thread-panicked", T::NAME), format!("{label}: {}", crate::ctx::last_panic_loc())),
            }
        }
        // quiescent: fresh constants, then every handle must still denote its table; canonicity; exact gc
        let fresh: Vec<F<T>> = (0..6).filter_map(|_| mref.with_manager_shared(|m| F::<T>::constant(m, T::from_r(T::random_value(rng))).ok())).collect();
        for (f, t) in &all {
            ctx.eval();
            let it = interp_tab::<T>(f);
            if it != *t {
                ctx.violation(&format!("mtbdd-{}:concurrent:handle-changed-function", T::NAME), format!("{label}: {} now {}", show_tab::<T>(t), show_tab::<T>(&it)));
            }
        }
        for i in 0..all.len() {
            for j in 0..i {
                ctx.eval();
                if (all[i].0 == all[j].0) != (all[i].1 == all[j].1) {
                    ctx.violation(&format!("mtbdd-{}:concurrent:canonicity", T::NAME), format!("{label}: tables {} / {}", show_tab::<T>(&all[i].1), show_tab::<T>(&all[j].1)));
                }
            }
        }
        drop(fresh);
        drop(all);
        drop(base);
        mref.with_manager_shared(|m| m.gc());
        let (ni, nt) = mref.with_manager_shared(|m| (m.num_inner_nodes(), m.num_terminals()));
        ctx.eval();
        if ni != 0 || nt != 0 {
            ctx.violation(&format!("mtbdd-{}:concurrent:nodes-left-after-dropping-everything", T::NAME), format!("{label}: {ni} inner nodes, {nt} terminals"));
        }
        ctx.count("mtbdd_concurrent_scenarios", 1);
    }
}

pub fn conc(ctx: &mut Ctx) {
    let mut rng = ctx.rng(0xC07_A);
    let n = ctx.by_tier(30, 300);
    conc_kind::<I64>(ctx, &mut rng, n, true);
    conc_kind::<F64>(ctx, &mut rng, n / 2, true);
    conc_kind::<I64>(ctx, &mut rng, n / 4, false);
    conc_kind::<F64>(ctx, &mut rng, n / 8, false);
    ctx.sample(|| "MTBDD: 2 worker threads x 24 operations (results dropped and recomputed, many bare terminals) + 1 thread calling gc() 12 times; cooperative scheduler (yield points inside gc, incl. before the terminal sweep) and free-running with injected delays".into());
}
