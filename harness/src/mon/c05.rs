//! C05 — exact reference counts, exact GC (audit.rs::refcounts + reachability + capacity probe)

use oxidd::{BooleanFunction, HasLevel, HasWorkers, Manager, ManagerRef};
use oxidd_core::function::INodeOfFunc;

use crate::hist::*;
use crate::kinds::*;
use crate::mon::c01::{HistCfg, run_history};
use crate::tt::Tt;
use crate::Ctx;

/// clone/drop/gc-heavy histories, large capacity (no background collector interference)
pub fn histories(ctx: &mut Ctx) {
    let nh = ctx.by_tier(15, 500);
    let steps = ctx.by_tier(300, 1000);
    let mut rng = ctx.rng(0xC05);
    for h in 0..nh {
        for kind in 0..3 {
            let mut profile = Profile { gc_weight: 12, drop_weight: 30, max_live: 16, pick_cube: true, ..Profile::default() };
            if kind == 2 {
                profile.reorder = crate::known::ZBDD_REORDER_IN_HISTORIES;
            }
            let cfg = HistCfg {
                steps,
                audit_every: 5,
                nodes: 1 << 14,
                cache: 1 << rng.range(1, 10),
                threads: if h % 3 == 2 { 4 } else { 1 },
                nvars: rng.range(3, 6) as u32,
                profile,
                oom_ok: false,
            };
            let hseed = rng.next();
            let label = format!("c05 h={h}");
            match kind {
                0 => run_history::<Bdd>(ctx, &cfg, hseed, &label),
                1 => run_history::<Bcdd>(ctx, &cfg, hseed, &label),
                _ => run_history::<Zbdd>(ctx, &cfg, hseed, &label),
            }
        }
    }
}

/// Capacities 128..400: the high-water mark (95 %) is reached, so OxiDD's background collector
/// fires on its own while the history runs; operations may fail with OutOfMemory.
pub fn background_gc(ctx: &mut Ctx) {
    let nh = ctx.by_tier(12, 300);
    let steps = ctx.by_tier(600, 2000);
    let mut rng = ctx.rng(0xC05_B);
    for h in 0..nh {
        for kind in 0..3 {
            let profile = Profile {
                gc_weight: 1,
                drop_weight: 18,
                max_live: 40,
                reorder: false, // no error channel when out of nodes (C14)
                add_vars: false,
                max_vars: 6,
                ..Profile::default()
            };
            let cfg = HistCfg {
                steps,
                audit_every: 20,
                nodes: rng.range(128, 400),
                cache: 1 << rng.range(4, 10),
                threads: if h % 2 == 1 { 4 } else { 1 },
                nvars: 6,
                profile,
                oom_ok: true,
            };
            let hseed = rng.next();
            let label = format!("c05bg h={h} nodes={}", cfg.nodes);
            match kind {
                0 => run_history::<Bdd>(ctx, &cfg, hseed, &label),
                1 => run_history::<Bcdd>(ctx, &cfg, hseed, &label),
                _ => run_history::<Zbdd>(ctx, &cfg, hseed, &label),
            }
        }
    }
}

/// Capacity probe: after an arbitrary history + dropping everything + gc, every slot must be
/// usable again: fill the manager with distinct nodes until the first OutOfMemory; at that
/// moment exactly `capacity` inner nodes must be stored (capacity < 100: no background
/// collector, no chunked pre-allocation, single application thread).
fn probe_kind<K: BoolKind>(ctx: &mut Ctx, hseed: u64, cap: usize, steps: usize, reorder: bool)
where
    for<'id> MgrOf<'id, K>: HasWorkers,
    for<'x> INodeOfFunc<'x, K::F>: HasLevel,
{
    let mut rng = crate::rng::Rng::new(hseed);
    // reordering has no error channel when nodes run out (known finding under C14): the reorder
    // variant uses 4 variables, few live functions and collects right before every reordering
    let nvars = if reorder { 4u32 } else { 6u32 };
    let label = format!("c05probe kind={} cap={cap} hseed={hseed} reorder={reorder}", K::NAME);
    println!("@@{{\"t\":\"case\",\"case\":{}}}", crate::ctx::json_str(&label));
    let mut w = World::<K>::new(cap, 64, 1, nvars, label);
    w.oom_ok = true;
    let profile = Profile { reorder: false, add_vars: false, max_vars: nvars, thread_drop: true, gc_weight: 8, drop_weight: 25, max_live: if reorder { 4 } else { 10 }, ..Profile::default() };
    for i in 0..steps {
        let op = gen_op(&mut rng, w.n, w.hs.len(), K::HAS_QUANT, &profile);
        w.step(ctx, &op);
        if reorder && i % 8 == 7 {
            while w.hs.len() > 3 {
                w.step(ctx, &Op::Drop(0));
            }
            w.step(ctx, &Op::Gc);
            let o = rng.perm(nvars as usize);
            w.step(ctx, &Op::SetOrder(o, rng.bool()));
            ctx.count("probe_reorders", 1);
        }
    }
    w.audit(ctx, "end of probe history");
    let ooms = w.ooms;
    w.teardown(ctx);
    // fill
    let mut keep: Vec<K::F> = Vec::new();
    let mut filled = false;
    for _ in 0..10_000 {
        let t = Tt::random(nvars, &mut rng);
        match try_build_shannon::<K>(&w.mref, &t) {
            Ok(f) => keep.push(f),
            Err(_) => {
                filled = true;
                break;
            }
        }
    }
    ctx.eval();
    if !filled {
        ctx.violation(&w.sig("probe:never-ran-out-of-nodes"), w.witness(&format!("capacity {cap}")));
        return;
    }
    let stored = w.mref.with_manager_exclusive(|m| m.num_inner_nodes());
    if stored != cap {
        ctx.violation(
            &w.sig("probe:slots-not-conserved"),
            w.witness(&format!("first OutOfMemory with {stored} nodes stored in a manager of capacity {cap} (history had {ooms} failed operations)")),
        );
    } else {
        ctx.distinct((K::NAME, cap, hseed));
    }
    ctx.count("probes", 1);
    ctx.count("probe_history_ooms", ooms);
    drop(keep);
}

pub fn probe(ctx: &mut Ctx) {
    let n = ctx.by_tier(60, 3000);
    let mut rng = ctx.rng(0xC05_C);
    for i in 0..n {
        let cap = rng.range(30, 99);
        let hseed = rng.next();
        let steps = rng.range(20, 200);
        // reordering allocates and frees nodes in level_swap; with generous head room only
        let reorder = i % 3 == 0 && cap >= 80;
        match i % 3 {
            0 => probe_kind::<Bdd>(ctx, hseed, cap, steps, reorder),
            1 => probe_kind::<Bcdd>(ctx, hseed, cap, steps, false),
            _ => probe_kind::<Zbdd>(ctx, hseed, cap, steps, false),
        }
    }
    ctx.sample(|| "capacity probe: random history (with failing operations) in a manager of 30..99 slots, drop all, gc, fill until OutOfMemory: stored == capacity".into());
}

/// Capacity probe for LARGE stores (> 65536 slots: the node store hands out pre-allocated
/// chunks of 64Ki slots to threads and takes the unused rest back when a thread's session
/// ends). Sessions that allocate and free on the same thread inside one `with_manager_shared`
/// closure, then fill: cubes first, then functions that need exactly one new node each, until
/// nothing fits any more. Every slot must then hold a node: stored == capacity.
fn probe_large_kind<K: BoolKind>(ctx: &mut Ctx, rng: &mut crate::rng::Rng)
where
    for<'id> MgrOf<'id, K>: HasWorkers,
    for<'x> INodeOfFunc<'x, K::F>: HasLevel,
{
    use oxidd::util::AllocResult;
    let n = 22u32;
    let cap = rng.range(66_000, 150_000);
    let mref = K::new_manager(cap, 1 << 14, 1);
    mref.with_manager_exclusive(|m| m.add_vars(n));
    let label = format!("c05probe-large kind={} cap={cap}", K::NAME);
    println!("@@{{\"t\":\"case\",\"case\":{}}}", crate::ctx::json_str(&label));
    // a cube over the variables 1..n (variable 0 stays unused: it is the top variable of the one-node fillers)
    fn cube<K: BoolKind>(m: &MgrOf<'_, K>, bits: u64, n: u32) -> AllocResult<K::F> {
        let mut c = K::F::t(m);
        for v in (1..n).rev() {
            let l = if (bits >> v) & 1 == 1 { K::F::var(m, v)? } else { K::F::not_var(m, v)? };
            c = l.and(&c)?;
        }
        Ok(c)
    }
    // sessions: allocate from a fresh chunk, free on the same thread, some with a gc inside the session
    let sessions = if std::env::var("VH_NOSESS").is_ok() { 0 } else { rng.range(2, 6) };
    for s in 0..sessions {
        let cubes = rng.range(20, 400);
        let gc_inside = s % 2 == 0;
        let seeds: Vec<u64> = (0..cubes).map(|_| rng.next()).collect();
        mref.with_manager_shared(|m| {
            let mut tmp = Vec::new();
            let mut f = K::F::f(m);
            for &b in &seeds {
                if let Ok(c) = cube::<K>(m, b, n) {
                    if let Ok(g) = f.or(&c) {
                        f = g;
                    }
                    tmp.push(c);
                }
            }
            drop(tmp);
            drop(f);
            if gc_inside {
                m.gc();
            }
        });
        ctx.count("large_probe_sessions", 1);
    }
    let left = mref.with_manager_exclusive(|m| {
        m.gc();
        m.num_inner_nodes()
    });
    let floor = if K::SEM == Sem::ZeroSup { n as usize } else { 0 };
    ctx.check(left == floor, &format!("{}:probe-large:nodes-left-after-sessions", K::NAME), || format!("{label}: {left}"));
    // fill, phase A: union of random cubes; keep every intermediate union (distinct functions below variable 0)
    let mut keep: Vec<K::F> = Vec::new();
    let mut ooms = 0u32;
    // the top variable of the one-node fillers is created first and kept alive to the end
    let x0 = mref.with_manager_shared(|m| K::F::var(m, 0).unwrap());
    for _round in 0..4 {
        let seeds: Vec<u64> = (0..40_000).map(|_| rng.next()).collect();
        let full = mref.with_manager_shared(|m| {
            let mut f = keep.last().cloned().unwrap_or_else(|| K::F::f(m));
            for &b in &seeds {
                let Ok(c) = cube::<K>(m, b, n) else { return true };
                let Ok(g) = f.or(&c) else { return true };
                f = g;
                keep.push(f.clone());
            }
            false
        });
        if full {
            ooms += 1;
            break;
        }
    }
    // phase B: ite(x0, p, q) for kept p != q needs exactly one new node (x0 is above everything else)
    let mut stable = 0;
    let mut last = usize::MAX;
    let mut pair = 0usize;
    let base = keep.len(); // operands of the fillers: the functions of phase A only
    let mut fillers: Vec<K::F> = Vec::new();
    while stable < 4 && base > 2 {
        // dead nodes of failed operations; under the exclusive lock no background collection can be
        // in flight (gc() returns at once when another collection is running)
        mref.with_manager_exclusive(|m| m.gc());
        mref.with_manager_shared(|m| {
            loop {
                let (i, j) = (pair % base, (pair / base + 1 + pair) % base);
                pair += 1;
                if i == j {
                    continue;
                }
                match x0.ite(&keep[i], &keep[j]) {
                    Ok(f) => fillers.push(f),
                    Err(_) => {
                        ooms += 1;
                        return;
                    }
                }
                if pair > 4_000_000 {
                    return;
                }
            }
        });
        let stored = mref.with_manager_exclusive(|m| {
            m.gc();
            m.num_inner_nodes()
        });
        if std::env::var("VH_TRACE").is_ok() {
            eprintln!("phase B round: stored {stored} cap {cap} keep {} fillers {} pair {pair} ooms {ooms}", keep.len(), fillers.len());
        }
        if stored == cap {
            break;
        }
        // An OutOfMemory while the background collector (triggered at 95 % occupancy) is still
        // sweeping is legitimate: the slots it frees become available when it is done. Only a
        // store whose LIVE node count stays below its capacity over several attempts, each
        // preceded by a collection under the exclusive lock, has lost slots.
        std::thread::sleep(std::time::Duration::from_millis(20));
        if stored == last {
            stable += 1;
        } else {
            stable = 0;
            last = stored;
        }
    }
    ctx.eval();
    let stored = mref.with_manager_exclusive(|m| m.num_inner_nodes());
    // the ZBDD variable constructor itself needs nodes (don't-care chain), so the last few slots may stay empty there
    let slack = if K::SEM == Sem::ZeroSup { n as usize } else { 0 };
    if ooms == 0 {
        ctx.violation(&format!("{}:probe-large:never-ran-out-of-nodes", K::NAME), format!("{label}: {stored} stored"));
    } else if stored + slack < cap || stored > cap {
        ctx.violation(
            &format!("{}:probe-large:slots-not-conserved", K::NAME),
            format!("{label}: after {sessions} allocate-and-free sessions the store holds at most {stored} nodes, capacity {cap}"),
        );
    } else {
        ctx.distinct((K::NAME, "large-probe", cap));
    }
    ctx.count("large_probes", 1);
    drop(fillers);
    drop(keep);
    drop(x0);
}

pub fn probe_large(ctx: &mut Ctx) {
    let mut rng = ctx.rng(0xC05_1A);
    let n = ctx.by_tier(1, 6);
    for i in 0..n {
        // (the Boolean `ite` of ZBDDs needs more than one node, so the exact fill is done with BDDs and
        // BCDDs only; the node store is the same code for all kinds)
        match (i + ctx.shard) % 2 {
            0 => probe_large_kind::<Bdd>(ctx, &mut rng),
            _ => probe_large_kind::<Bcdd>(ctx, &mut rng),
        }
    }
    ctx.sample(|| "large capacity probe: 66000..150000 slots (chunked pre-allocation), allocate-and-free sessions with and without gc inside the session, fill with cubes and one-node functions until nothing fits: stored == capacity".into());
}

#[allow(unused)]
fn _t<F: BooleanFunction>() {}
