//! C05 — exact reference counts, exact GC (audit.rs::refcounts + reachability + capacity probe)

use oxidd::{BooleanFunction, HasLevel, HasWorkers, Manager, ManagerRef};
use oxidd_core::function::INodeOfFunc;

use crate::hist::*;
use crate::kinds::*;
use crate::mon::c01::{HistCfg, run_history};
use crate::tt::Tt;
use crate::Ctx;

/// clone/drop/gc-heavy histories, large capacity (no background collector interference)
pub fn histories(ctx: &mut Ctx) {
    let nh = ctx.by_tier(15, 500);
    let steps = ctx.by_tier(300, 1000);
    let mut rng = ctx.rng(0xC05);
    for h in 0..nh {
        for kind in 0..3 {
            let mut profile = Profile { gc_weight: 12, drop_weight: 30, max_live: 16, pick_cube: true, ..Profile::default() };
            if kind == 2 {
                profile.reorder = crate::known::ZBDD_REORDER_IN_HISTORIES;
            }
            let cfg = HistCfg {
                steps,
                audit_every: 5,
                nodes: 1 << 14,
                cache: 1 << rng.range(1, 10),
                threads: if h % 3 == 2 { 4 } else { 1 },
                nvars: rng.range(3, 6) as u32,
                profile,
                oom_ok: false,
            };
            let hseed = rng.next();
            let label = format!("c05 h={h}");
            match kind {
                0 => run_history::<Bdd>(ctx, &cfg, hseed, &label),
                1 => run_history::<Bcdd>(ctx, &cfg, hseed, &label),
                _ => run_history::<Zbdd>(ctx, &cfg, hseed, &label),
            }
        }
    }
}

/// Capacities 128..400: the high-water mark (95 %) is reached, so OxiDD's background collector
/// fires on its own while the history runs; operations may fail with OutOfMemory.
pub fn background_gc(ctx: &mut Ctx) {
    let nh = ctx.by_tier(12, 300);
    let steps = ctx.by_tier(600, 2000);
    let mut rng = ctx.rng(0xC05_B);
    for h in 0..nh {
        for kind in 0..3 {
            let profile = Profile {
                gc_weight: 1,
                drop_weight: 18,
                max_live: 40,
                reorder: false, // no error channel when out of nodes (C14)
                add_vars: false,
                max_vars: 6,
                ..Profile::default()
            };
            let cfg = HistCfg {
                steps,
                audit_every: 20,
                nodes: rng.range(128, 400),
                cache: 1 << rng.range(4, 10),
                threads: if h % 2 == 1 { 4 } else { 1 },
                nvars: 6,
                profile,
                oom_ok: true,
            };
            let hseed = rng.next();
            let label = format!("c05bg h={h} nodes={}", cfg.nodes);
            match kind {
                0 => run_history::<Bdd>(ctx, &cfg, hseed, &label),
                1 => run_history::<Bcdd>(ctx, &cfg, hseed, &label),
                _ => run_history::<Zbdd>(ctx, &cfg, hseed, &label),
            }
        }
    }
}

/// Capacity probe: after an arbitrary history + dropping everything + gc, every slot must be
/// usable again: fill the manager with distinct nodes until the first OutOfMemory; at that
/// moment exactly `capacity` inner nodes must be stored (capacity < 100: no background
/// collector, no chunked pre-allocation, single application thread).
fn probe_kind<K: BoolKind>(ctx: &mut Ctx, hseed: u64, cap: usize, steps: usize, reorder: bool)
where
    for<'id> MgrOf<'id, K>: HasWorkers,
    for<'x> INodeOfFunc<'x, K::F>: HasLevel,
{
    let mut rng = crate::rng::Rng::new(hseed);
    // reordering has no error channel when nodes run out (known finding under C14): the reorder
    // variant uses 4 variables, few live functions and collects right before every reordering
    let nvars = if reorder { 4u32 } else { 6u32 };
    let label = format!("c05probe kind={} cap={cap} hseed={hseed} reorder={reorder}", K::NAME);
    println!("@@{{\"t\":\"case\",\"case\":{}}}", crate::ctx::json_str(&label));
    let mut w = World::<K>::new(cap, 64, 1, nvars, label);
    w.oom_ok = true;
    let profile = Profile { reorder: false, add_vars: false, max_vars: nvars, thread_drop: true, gc_weight: 8, drop_weight: 25, max_live: if reorder { 4 } else { 10 }, ..Profile::default() };
    for i in 0..steps {
        let op = gen_op(&mut rng, w.n, w.hs.len(), K::HAS_QUANT, &profile);
        w.step(ctx, &op);
        if reorder && i % 8 == 7 {
            while w.hs.len() > 3 {
                w.step(ctx, &Op::Drop(0));
            }
            w.step(ctx, &Op::Gc);
            let o = rng.perm(nvars as usize);
            w.step(ctx, &Op::SetOrder(o, rng.bool()));
            ctx.count("probe_reorders", 1);
        }
    }
    w.audit(ctx, "end of probe history");
    let ooms = w.ooms;
    w.teardown(ctx);
    // fill
    let mut keep: Vec<K::F> = Vec::new();
    let mut filled = false;
    for _ in 0..10_000 {
        let t = Tt::random(nvars, &mut rng);
        match try_build_shannon::<K>(&w.mref, &t) {
            Ok(f) => keep.push(f),
            Err(_) => {
                filled = true;
                break;
            }
        }
    }
    ctx.eval();
    if !filled {
        ctx.violation(&w.sig("probe:never-ran-out-of-nodes"), w.witness(&format!("capacity {cap}")));
        return;
    }
    let stored = w.mref.with_manager_exclusive(|m| m.num_inner_nodes());
    if stored != cap {
        ctx.violation(
            &w.sig("probe:slots-not-conserved"),
            w.witness(&format!("first OutOfMemory with {stored} nodes stored in a manager of capacity {cap} (history had {ooms} failed operations)")),
        );
    } else {
        ctx.distinct((K::NAME, cap, hseed));
    }
    ctx.count("probes", 1);
    ctx.count("probe_history_ooms", ooms);
    drop(keep);
}

pub fn probe(ctx: &mut Ctx) {
    let n = ctx.by_tier(60, 3000);
    let mut rng = ctx.rng(0xC05_C);
    for i in 0..n {
        let cap = rng.range(30, 99);
        let hseed = rng.next();
        let steps = rng.range(20, 200);
        // reordering allocates and frees nodes in level_swap; with generous head room only
        let reorder = i % 3 == 0 && cap >= 80;
        match i % 3 {
            0 => probe_kind::<Bdd>(ctx, hseed, cap, steps, reorder),
            1 => probe_kind::<Bcdd>(ctx, hseed, cap, steps, false),
            _ => probe_kind::<Zbdd>(ctx, hseed, cap, steps, false),
        }
    }
    ctx.sample(|| "capacity probe: random history (with failing operations) in a manager of 30..99 slots, drop all, gc, fill until OutOfMemory: stored == capacity".into());
}

#[allow(unused)]
fn _t<F: BooleanFunction>() {}
