//! C12 — model counting (`sat_count`) for every number type, with fresh and re-used
//! `SatCountCache`s, and the arbitrary-precision `Natural` against a schoolbook big integer.
//!
//! Monitors: `c12_natural` (stand-alone `Natural`), `c12_satcount` (all 256 three-variable
//! functions x orders x vars x number types + random functions), `c12_cache` (one cache shared
//! across handles / gc / reorder / changing `vars` / `cache_all`).
//!
//! The oracle [`Big`] is a `Vec<u32>` schoolbook natural written here; no OxiDD (and no dashu)
//! code is used for expected values.

use std::cmp::Ordering;
use std::collections::hash_map::DefaultHasher;
use std::fmt;
use std::hash::{BuildHasherDefault, Hash, Hasher};

use oxidd::{BooleanFunction, HasLevel, HasWorkers, Manager, ManagerRef};
use oxidd_core::function::INodeOfFunc;
use oxidd_core::util::num::{F64, Natural, Saturating};
use oxidd_core::util::{SatCountCache, SatCountNumber};

use crate::Ctx;
use crate::ctx::{catch, json_str};
use crate::kinds::*;
use crate::mon::c02::All3;
use crate::rng::{Rng, all_perms};
use crate::tt::Tt;

// ---------------------------------------------------------------------------------------------
// Oracle: schoolbook natural numbers
// ---------------------------------------------------------------------------------------------

/// Little-endian base-2^32 natural number without most-significant zero limbs.
#[derive(Clone, PartialEq, Eq, Hash, Debug)]
pub struct Big {
    d: Vec<u32>,
}

impl Big {
    fn norm(mut d: Vec<u32>) -> Big {
        while d.last() == Some(&0) {
            d.pop();
        }
        Big { d }
    }
    pub fn zero() -> Big {
        Big { d: Vec::new() }
    }
    pub fn from_u128(mut x: u128) -> Big {
        let mut d = Vec::new();
        while x != 0 {
            d.push(x as u32);
            x >>= 32;
        }
        Big { d }
    }
    pub fn from_u64s(ds: &[u64]) -> Big {
        let mut d = Vec::with_capacity(ds.len() * 2);
        for &x in ds {
            d.push(x as u32);
            d.push((x >> 32) as u32);
        }
        Big::norm(d)
    }
    pub fn pow2(k: u64) -> Big {
        Big::from_u128(1).shl(k)
    }
    pub fn is_zero(&self) -> bool {
        self.d.is_empty()
    }
    /// number of significant bits (0 for zero)
    pub fn bits(&self) -> u64 {
        match self.d.last() {
            None => 0,
            Some(&t) => 32 * (self.d.len() as u64 - 1) + (32 - t.leading_zeros() as u64),
        }
    }
    pub fn bit(&self, i: u64) -> bool {
        let q = (i / 32) as usize;
        q < self.d.len() && (self.d[q] >> (i % 32)) & 1 == 1
    }
    /// number of trailing zero bits (0 for zero)
    pub fn tz(&self) -> u64 {
        for (i, &x) in self.d.iter().enumerate() {
            if x != 0 {
                return 32 * i as u64 + x.trailing_zeros() as u64;
            }
        }
        0
    }
    pub fn add(&self, o: &Big) -> Big {
        let n = self.d.len().max(o.d.len());
        let mut r = Vec::with_capacity(n + 1);
        let mut c = 0u64;
        for i in 0..n {
            let a = self.d.get(i).copied().unwrap_or(0) as u64;
            let b = o.d.get(i).copied().unwrap_or(0) as u64;
            let s = a + b + c;
            r.push(s as u32);
            c = s >> 32;
        }
        if c != 0 {
            r.push(c as u32);
        }
        Big { d: r }
    }
    /// self - o, requires self >= o
    pub fn sub(&self, o: &Big) -> Big {
        assert!(self.cmp(o) != Ordering::Less);
        let mut r = Vec::with_capacity(self.d.len());
        let mut borrow = 0i64;
        for i in 0..self.d.len() {
            let a = self.d[i] as i64;
            let b = o.d.get(i).copied().unwrap_or(0) as i64;
            let mut s = a - b - borrow;
            if s < 0 {
                s += 1 << 32;
                borrow = 1;
            } else {
                borrow = 0;
            }
            r.push(s as u32);
        }
        assert_eq!(borrow, 0);
        Big::norm(r)
    }
    pub fn shl(&self, k: u64) -> Big {
        if self.is_zero() {
            return Big::zero();
        }
        let (q, r) = ((k / 32) as usize, (k % 32) as u32);
        let mut d = vec![0u32; q];
        let mut carry = 0u32;
        for &x in &self.d {
            if r == 0 {
                d.push(x);
            } else {
                d.push((x << r) | carry);
                carry = x >> (32 - r);
            }
        }
        if carry != 0 {
            d.push(carry);
        }
        Big::norm(d)
    }
    /// (floor(self / 2^k), whether a 1-bit was shifted out)
    pub fn shr(&self, k: u64) -> (Big, bool) {
        let mut lost = false;
        for i in 0..k.min(self.bits()) {
            if self.bit(i) {
                lost = true;
                break;
            }
        }
        let (q, r) = ((k / 32) as usize, (k % 32) as u32);
        if k >= self.bits() {
            return (Big::zero(), lost);
        }
        let mut d = Vec::new();
        for i in q..self.d.len() {
            let lo = self.d[i] >> r;
            let hi = if r > 0 && i + 1 < self.d.len() { self.d[i + 1] << (32 - r) } else { 0 };
            d.push(lo | hi);
        }
        (Big::norm(d), lost)
    }
    #[allow(clippy::should_implement_trait)]
    pub fn cmp(&self, o: &Big) -> Ordering {
        if self.d.len() != o.d.len() {
            return self.d.len().cmp(&o.d.len());
        }
        for i in (0..self.d.len()).rev() {
            if self.d[i] != o.d[i] {
                return self.d[i].cmp(&o.d[i]);
            }
        }
        Ordering::Equal
    }
    /// minimal-length little-endian u64 digits, at least one element
    pub fn to_u64s(&self) -> Vec<u64> {
        let mut v = Vec::new();
        for c in self.d.chunks(2) {
            v.push(c[0] as u64 | ((c.get(1).copied().unwrap_or(0) as u64) << 32));
        }
        if v.is_empty() {
            v.push(0);
        }
        v
    }
    pub fn to_u128(&self) -> Option<u128> {
        if self.bits() > 128 {
            return None;
        }
        let mut x = 0u128;
        for (i, &l) in self.d.iter().enumerate() {
            x |= (l as u128) << (32 * i);
        }
        Some(x)
    }
    pub fn to_dec(&self) -> String {
        let mut v = self.d.clone();
        let mut chunks: Vec<u32> = Vec::new();
        while !v.is_empty() {
            let mut rem = 0u64;
            for x in v.iter_mut().rev() {
                let cur = (rem << 32) | *x as u64;
                *x = (cur / 1_000_000_000) as u32;
                rem = cur % 1_000_000_000;
            }
            while v.last() == Some(&0) {
                v.pop();
            }
            chunks.push(rem as u32);
        }
        match chunks.pop() {
            None => "0".to_string(),
            Some(top) => {
                let mut s = top.to_string();
                for c in chunks.iter().rev() {
                    s.push_str(&format!("{c:09}"));
                }
                s
            }
        }
    }
    /// digits in base 2^bpd (bpd in 1..=4)
    pub fn to_pow2_string(&self, bpd: u64, upper: bool) -> String {
        let bits = self.bits();
        if bits == 0 {
            return "0".to_string();
        }
        let nd = bits.div_ceil(bpd);
        let mut s = String::with_capacity(nd as usize);
        for i in (0..nd).rev() {
            let mut v = 0u32;
            for j in 0..bpd {
                if self.bit(i * bpd + j) {
                    v |= 1 << j;
                }
            }
            let c = char::from_digit(v, 16).unwrap();
            s.push(if upper { c.to_ascii_uppercase() } else { c });
        }
        s
    }
    pub fn hex(&self) -> String {
        format!("0x{}", self.to_pow2_string(4, false))
    }
    /// nearest f64, ties to even; +inf if the rounded value is >= 2^1024
    pub fn to_f64(&self) -> f64 {
        let b = self.bits();
        if b == 0 {
            return 0.0;
        }
        // top 53 bits as integer `top`, value ~ top * 2^shift
        let (mut top, mut shift) = if b <= 53 {
            let mut t = 0u64;
            for i in 0..b {
                if self.bit(i) {
                    t |= 1 << i;
                }
            }
            // normalise so that bit 52 is set
            (t << (53 - b), b as i64 - 53)
        } else {
            let shift = b - 53;
            let mut t = 0u64;
            for i in 0..53 {
                if self.bit(shift + i) {
                    t |= 1 << i;
                }
            }
            let half = self.bit(shift - 1);
            let sticky = self.tz() < shift - 1;
            if half && (sticky || t & 1 == 1) {
                t += 1;
            }
            (t, shift as i64)
        };
        if top == 1 << 53 {
            top >>= 1;
            shift += 1;
        }
        // value = top * 2^shift with 2^52 <= top < 2^53  => exponent of leading bit = shift + 52
        let e = shift + 52;
        if e > 1023 {
            return f64::INFINITY;
        }
        let biased = (e + 1023) as u64;
        f64::from_bits((biased << 52) | (top & ((1 << 52) - 1)))
    }
    pub fn random(rng: &mut Rng, max_bits: u64) -> Big {
        let bits = rng.below(max_bits + 1);
        let limbs = bits.div_ceil(32) as usize;
        let style = rng.below(5);
        let mut d: Vec<u32> = (0..limbs)
            .map(|_| match style {
                0 | 1 => rng.next() as u32,
                2 => *rng.pick(&[0u32, !0, !0, 1, 0x8000_0000, 0xffff_0000]),
                3 => {
                    if rng.chance(1, 3) {
                        rng.next() as u32
                    } else {
                        0
                    }
                }
                _ => !0,
            })
            .collect();
        if let Some(t) = d.last_mut() {
            let keep = (bits - 1) % 32 + 1;
            if keep < 32 {
                *t &= (1u32 << keep) - 1;
            }
            if style <= 1 {
                *t |= 1 << (keep - 1);
            }
        }
        let mut r = Big::norm(d);
        if rng.chance(1, 3) {
            // many trailing zeros, as in model counts
            let s = rng.below(200);
            r = r.shl(s);
        }
        r
    }
}

/// The documented decomposition m * 2^e: m odd unless the number is 0 (then m = e = 0);
/// mantissa digits little endian, minimal length, at least one element.
fn expect_parts(b: &Big) -> (Vec<u64>, u64) {
    if b.is_zero() {
        return (vec![0], 0);
    }
    let tz = b.tz();
    (b.shr(tz).0.to_u64s(), tz)
}

fn nat_is(n: &Natural, b: &Big) -> bool {
    let (m, e) = expect_parts(b);
    !n.is_nan() && n.exp() == e && n.mantissa() == m.as_slice()
}

/// Is the mantissa stored in a heap array? (through the FFI decomposition of a clone)
fn is_heap(n: &Natural) -> bool {
    let (p, len, e) = n.clone().into_raw_parts();
    let heap = !p.is_null();
    // SAFETY: the parts come from `into_raw_parts`
    drop(unsafe { Natural::from_raw_parts(p, len, e) });
    heap
}

/// Documented: "In case m fits into a single u64 digit, m is stored inline, i.e., without any
/// heap allocation" (and a heap array holds a number > u64::MAX).
fn repr_ok(n: &Natural, b: &Big) -> bool {
    n.is_nan() || is_heap(n) == (expect_parts(b).0.len() > 1)
}

fn show_nat(n: &Natural) -> String {
    if n.is_nan() {
        "NaN".to_string()
    } else {
        format!("mantissa {:x?} exp {}", n.mantissa(), n.exp())
    }
}

fn hash_of<T: Hash>(t: &T) -> u64 {
    let mut h = DefaultHasher::new();
    t.hash(&mut h);
    h.finish()
}

/// Run a library call; a panic is a violation `natural:<op>:panic`.
fn guard<T>(ctx: &mut Ctx, op: &str, what: &dyn Fn() -> String, f: impl FnOnce() -> T) -> Option<T> {
    match catch(f) {
        Ok(v) => Some(v),
        Err(msg) => {
            ctx.eval();
            ctx.violation(&format!("natural:{op}:panic"), format!("{}: panicked at {}: {msg}", what(), crate::ctx::last_panic_loc()));
            None
        }
    }
}

/// std's own integer padding applied to a digit string: reference for the format flags
struct Pad<'a> {
    prefix: &'a str,
    digits: &'a str,
}
macro_rules! pad_impl {
    ($($tr:ident),*) => {$(
        impl fmt::$tr for Pad<'_> {
            fn fmt(&self, f: &mut fmt::Formatter<'_>) -> fmt::Result {
                f.pad_integral(true, self.prefix, self.digits)
            }
        }
    )*};
}
pad_impl!(Display, Binary, Octal, LowerHex, UpperHex);

// ---------------------------------------------------------------------------------------------
// c12_natural
// ---------------------------------------------------------------------------------------------

const ROUTES: usize = 4;

/// State of the clone_from classes: once a class has been seen to corrupt memory, further
/// cases of that class are skipped (the process would crash instead of reporting).
#[derive(Default)]
struct NatState {
    disabled: std::collections::BTreeSet<&'static str>,
}

/// Build a `Natural` with value `b` through one of several public routes; every route is
/// checked against the documented representation.
fn mk(ctx: &mut Ctx, rng: &mut Rng, b: &Big, route: usize) -> Natural {
    let digits = b.to_u64s();
    let (n, name): (Result<Natural, String>, &str) = match route % ROUTES {
        0 => (catch(|| Natural::from_le_digits(&digits)), "from_le_digits"),
        1 => {
            if let Some(x) = b.to_u128() {
                // one of the integer conversions that can hold the value
                let fits = [u8::MAX as u128, u16::MAX as u128, u32::MAX as u128, u64::MAX as u128, u128::MAX];
                let first = fits.iter().position(|&m| x <= m).unwrap();
                match rng.range(first, 4) {
                    0 => (catch(|| Natural::from(x as u8)), "from-u8"),
                    1 => (catch(|| Natural::from(x as u16)), "from-u16"),
                    2 => (catch(|| Natural::from(x as u32)), "from-u32"),
                    3 => (catch(|| Natural::from(x as u64)), "from-u64"),
                    _ => (catch(|| Natural::from(x)), "from-u128"),
                }
            } else {
                // superfluous most-significant zero digits
                let mut d = digits.clone();
                d.extend(std::iter::repeat_n(0, rng.range(1, 3)));
                (catch(|| Natural::from_le_digits(&d)), "from_le_digits-padded")
            }
        }
        2 => {
            // as a sum of two parts (results of `+` may keep a spare most-significant digit)
            if b.is_zero() {
                (Ok(Natural::ZERO), "ZERO")
            } else {
                let mut r = Big::random(rng, b.bits());
                if r.cmp(b) == Ordering::Greater {
                    r = r.shr(r.bits() - b.bits() + 1).0;
                }
                let rest = b.sub(&r);
                let x = Natural::from_le_digits(&r.to_u64s());
                let y = Natural::from_le_digits(&rest.to_u64s());
                let swap = rng.bool();
                let what = || format!("{} + {}", r.hex(), rest.hex());
                let Some(s) = guard(ctx, "add", &what, || if swap { x + y } else { y + x }) else {
                    return Natural::from_le_digits(&digits);
                };
                if !ctx.check(nat_is(&s, b), "natural:add:wrong", || {
                    format!("{} + {} = {} want {}", r.hex(), rest.hex(), show_nat(&s), b.hex())
                }) || !ctx.check(repr_ok(&s, b), "natural:add:single-digit-mantissa-not-inline", || {
                    format!("{} + {} = {} stored on the heap: {}", r.hex(), rest.hex(), show_nat(&s), is_heap(&s))
                }) {
                    return Natural::from_le_digits(&digits);
                }
                return s;
            }
        }
        _ => {
            // odd part shifted left
            let tz = b.tz();
            let odd = Natural::from_le_digits(&b.shr(tz).0.to_u64s());
            if tz <= u32::MAX as u64 && rng.bool() {
                (catch(|| odd << tz as u32), "shl-u32")
            } else {
                (catch(|| odd << tz), "shl-u64")
            }
        }
    };
    let n = match n {
        Ok(n) => n,
        Err(msg) => {
            ctx.eval();
            ctx.violation(
                &format!("natural:construct:{name}:panic"),
                format!("value {}: panicked at {}: {msg}", b.hex(), crate::ctx::last_panic_loc()),
            );
            return Natural::from_le_digits(&digits);
        }
    };
    if !ctx.check(nat_is(&n, b), &format!("natural:construct:{name}:wrong"), || {
        format!("value {} got {}", b.hex(), show_nat(&n))
    }) {
        return Natural::from_le_digits(&digits);
    }
    if !ctx.check(repr_ok(&n, b), &format!("natural:construct:{name}:single-digit-mantissa-not-inline"), || {
        format!("value {}: heap {} but mantissa {:x?}", b.hex(), is_heap(&n), n.mantissa())
    }) {
        return Natural::from_le_digits(&digits);
    }
    n
}

fn boundary_set() -> Vec<Big> {
    let mut v = vec![Big::zero(), Big::from_u128(1)];
    for k in [1u64, 31, 32, 33, 63, 64, 65, 127, 128, 129, 191, 192, 193, 255, 256] {
        let p = Big::pow2(k);
        v.push(p.sub(&Big::from_u128(1)));
        v.push(p.add(&Big::from_u128(1)));
        v.push(p);
    }
    let mut out: Vec<Big> = Vec::new();
    for x in v {
        if !out.contains(&x) {
            out.push(x);
        }
    }
    out
}

const SHIFTS: [u64; 23] = [
    0, 1, 2, 3, 31, 32, 33, 63, 64, 65, 66, 127, 128, 129, 191, 192, 193, 255, 256, 257, 511, 512, 1000,
];

fn check_formats(ctx: &mut Ctx, n: &Natural, a: &Big, with_flags: bool) {
    let dec = a.to_dec();
    let bin = a.to_pow2_string(1, false);
    let oct = a.to_pow2_string(3, false);
    let hex = a.to_pow2_string(4, false);
    let hexu = a.to_pow2_string(4, true);
    let cmp = |ctx: &mut Ctx, what: &str, got: Result<String, String>, want: String| match got {
        Ok(got) => {
            // the text for zero is one character long although its bit width is 0
            let what = if what.starts_with("flags:") && a.is_zero() && got.chars().count() != want.chars().count() {
                "flags:width-of-zero"
            } else {
                what
            };
            ctx.check(got == want, &format!("natural:fmt:{what}:wrong"), || {
                format!("value {} formatted as {what}: got {got:?} want {want:?}", a.hex())
            });
        }
        Err(msg) => {
            ctx.eval();
            ctx.violation(&format!("natural:fmt:{what}:panic"), format!("value {} formatted as {what}: panicked: {msg}", a.hex()));
        }
    };
    cmp(ctx, "display", catch(|| format!("{n}")), dec.clone());
    cmp(ctx, "binary", catch(|| format!("{n:b}")), bin.clone());
    cmp(ctx, "octal", catch(|| format!("{n:o}")), oct.clone());
    cmp(ctx, "lowerhex", catch(|| format!("{n:x}")), hex.clone());
    cmp(ctx, "upperhex", catch(|| format!("{n:X}")), hexu.clone());
    cmp(ctx, "alt-binary", catch(|| format!("{n:#b}")), format!("0b{bin}"));
    cmp(ctx, "alt-octal", catch(|| format!("{n:#o}")), format!("0o{oct}"));
    cmp(ctx, "alt-lowerhex", catch(|| format!("{n:#x}")), format!("0x{hex}"));
    cmp(ctx, "alt-upperhex", catch(|| format!("{n:#X}")), format!("0x{hexu}"));
    if !with_flags {
        return;
    }
    // width / fill / alignment / sign / zero flags: the reference is std's integer padding
    // of the digit string (what every primitive integer does).
    macro_rules! flags {
        ($digits:expr, $prefix:expr; $(($cat:literal, $spec:literal)),*) => {$(
            let o = Pad { prefix: $prefix, digits: &$digits };
            cmp(ctx, concat!("flags:", $cat), catch(|| format!($spec, n)), format!($spec, o));
        )*};
    }
    // categories: "width" = width/fill/alignment only; "sign-prefix" = `+`/`#` with a width;
    // "zero-pad" = the `0` flag; "sign" = `+` alone
    flags!(dec, ""; ("width", "{:30}"), ("width", "{:<30}"), ("width", "{:^31}"), ("width", "{:*>90}"),
        ("zero-pad", "{:030}"), ("sign", "{:+}"), ("zero-pad", "{:+033}"));
    flags!(bin, "0b"; ("width", "{:70b}"), ("width", "{:<70b}"), ("width", "{:^71b}"), ("width", "{:_>300b}"),
        ("zero-pad", "{:#070b}"), ("sign", "{:+b}"), ("zero-pad", "{:+#075b}"), ("sign-prefix", "{:>+#75b}"));
    flags!(oct, "0o"; ("width", "{:30o}"), ("width", "{:<30o}"), ("width", "{:^31o}"), ("zero-pad", "{:#030o}"), ("sign", "{:+#o}"));
    flags!(hex, "0x"; ("width", "{:20x}"), ("width", "{:<20x}"), ("width", "{:^21x}"), ("width", "{:.>100x}"),
        ("zero-pad", "{:#020x}"), ("zero-pad", "{:020x}"), ("sign", "{:+x}"), ("zero-pad", "{:+#024x}"), ("sign-prefix", "{:<#24x}"));
    flags!(hexu, "0x"; ("width", "{:20X}"), ("zero-pad", "{:#020X}"), ("sign-prefix", "{:^+#23X}"));
}

/// accessors, conversions and textual output of `n`, which has value `a`
fn observe(ctx: &mut Ctx, n: &Natural, a: &Big, route: usize, formats: bool, with_flags: bool) {
    if !a.is_zero() {
        ctx.check(n.bit_width() == a.bits() as u128, "natural:bit_width:wrong", || {
            format!("route {route} value {} got {} want {}", a.hex(), n.bit_width(), a.bits())
        });
    }
    // conversions
    let want128 = a.to_u128();
    let Some(got128) = guard(ctx, "try_from-u128", &|| format!("{} (construction route {route})", a.hex()), || u128::try_from(n).ok()) else { return };
    // sub-kind: the mantissa was returned without applying the exponent
    let exp_ignored = a.tz() > 0 && want128.is_some() && got128 == want128.map(|w| w >> a.tz());
    let sig = if exp_ignored { "natural:try_from-u128:exponent-ignored" } else { "natural:try_from-u128:wrong" };
    ctx.check(got128 == want128, sig, || format!("route {route} value {} got {got128:?} want {want128:?}", a.hex()));
    let want64 = want128.and_then(|x| u64::try_from(x).ok());
    let Some(got64) = guard(ctx, "try_from-u64", &|| format!("{} (construction route {route})", a.hex()), || u64::try_from(n).ok()) else { return };
    ctx.check(got64 == want64, "natural:try_from-u64:wrong", || {
        format!("route {route} value {} got {got64:?} want {want64:?}", a.hex())
    });
    let wf = a.to_f64();
    let Some(gf) = guard(ctx, "to-f64", &|| format!("{} (construction route {route})", a.hex()), || f64::from(n)) else { return };
    ctx.check(gf.to_bits() == wf.to_bits(), "natural:to-f64:not-correctly-rounded", || {
        format!("route {route} value {} got {gf:e} ({:#x}) want {wf:e} ({:#x})", a.hex(), gf.to_bits(), wf.to_bits())
    });
    if gf.is_infinite() {
        ctx.count("natural_f64_infinite", 1);
    }
    if formats {
        check_formats(ctx, n, a, with_flags);
    }

}

/// all single-operand checks on value `a`
fn unary_suite(ctx: &mut Ctx, rng: &mut Rng, a: &Big, shifts: &[u64], with_flags: bool) {
    let n = mk(ctx, rng, a, 0);
    ctx.distinct(("unary", &a.d));
    // all construction routes agree; Eq / Hash consistent across representations
    for route in 1..ROUTES {
        let m = mk(ctx, rng, a, route);
        ctx.check(m == n && !(m != n), "natural:eq:equal-values-unequal", || {
            format!("value {} route {route}: {} vs {}", a.hex(), show_nat(&m), show_nat(&n))
        });
        ctx.check(hash_of(&m) == hash_of(&n), "natural:hash:equal-values-different-hash", || {
            format!("value {} route {route}", a.hex())
        });
        if let Some(c) = guard(ctx, "partial_cmp", &|| format!("{} compared with itself", a.hex()), || m.partial_cmp(&n)) {
            ctx.check(c == Some(Ordering::Equal), "natural:partial_cmp:wrong", || {
                format!("value {} route {route} compared with itself: {c:?}", a.hex())
            });
        }
        let c = m.clone();
        ctx.check(nat_is(&c, a) && nat_is(&m, a), "natural:clone:wrong", || {
            format!("value {} route {route}: clone {}", a.hex(), show_nat(&c))
        });
        // every observation must be independent of how the value was obtained
        observe(ctx, &m, a, route, route == 1, false);
    }
    observe(ctx, &n, a, 0, true, with_flags);

    // shifts
    let tz = a.tz();
    let mut ks: Vec<u64> = shifts.to_vec();
    ks.extend([tz.saturating_sub(1), tz, tz + 1]);
    for &k in &ks {
        let want = a.shl(k);
        let Some(r64) = guard(ctx, "shl-u64", &|| format!("{} << {k}", a.hex()), || n.clone() << k) else { continue };
        ctx.check(nat_is(&r64, &want), "natural:shl-u64:wrong", || {
            format!("{} << {k} = {} want {}", a.hex(), show_nat(&r64), want.hex())
        });
        let m2 = mk(ctx, rng, a, 2);
        let Some(r32) = guard(ctx, "shl-u32", &|| format!("{} << {k}", a.hex()), || m2 << k as u32) else { continue };
        ctx.check(nat_is(&r32, &want), "natural:shl-u32:wrong", || {
            format!("{} << {k}u32 = {} want {}", a.hex(), show_nat(&r32), want.hex())
        });
        // shifting back is exact
        let Some(back) = guard(ctx, "shr", &|| format!("({} << {k}) >> {k}", a.hex()), || r64 >> k) else { continue };
        ctx.check(nat_is(&back, a), "natural:shr:exact-shift-wrong", || {
            format!("({} << {k}) >> {k} = {}", a.hex(), show_nat(&back))
        });
        // right shift: exact division, NaN exactly when a 1-bit is lost
        let (q, lost) = a.shr(k);
        for via32 in [false, true] {
            let Some(r) = guard(ctx, "shr", &|| format!("{} >> {k}", a.hex()), || if via32 { n.clone() >> k as u32 } else { n.clone() >> k }) else {
                continue;
            };
            if lost {
                ctx.count("natural_shr_lossy_cases", 1);
                ctx.check(r.is_nan(), "natural:shr:lost-bit-not-nan", || {
                    format!("{} >> {k} loses a 1-bit but result is {}", a.hex(), show_nat(&r))
                });
            } else {
                ctx.check(nat_is(&r, &q), "natural:shr:exact-shift-wrong", || {
                    format!("{} >> {k} = {} want {}", a.hex(), show_nat(&r), q.hex())
                });
            }
        }
        ctx.distinct(("shift", &a.d, k));
    }
}

/// clone_from with target value `a` and source value `b`
fn clone_from_case(ctx: &mut Ctx, st: &mut NatState, rng: &mut Rng, a: &Big, b: &Big, ra: usize, rb: usize) {
    let heap = |x: &Big| x.shr(x.tz()).0.bits() > 64;
    let class: &'static str = match (heap(a), heap(b)) {
        (false, false) => "inline-from-inline",
        (false, true) => "inline-from-heap",
        (true, false) => "heap-from-inline",
        (true, true) => {
            if expect_parts(a).0.len() == expect_parts(b).0.len() {
                "heap-from-heap-same-len"
            } else {
                "heap-from-heap-different-len"
            }
        }
    };
    if st.disabled.contains(class) {
        ctx.count("clone_from_skipped_class_known_broken", 1);
        return;
    }
    let mut t = mk(ctx, rng, a, ra);
    let s = mk(ctx, rng, b, rb);
    let label = format!("clone_from {class}: target {} source {}", a.hex(), b.hex());
    if !cfg!(miri) {
        println!("@@{{\"t\":\"case\",\"case\":{}}}", json_str(&label));
    }
    ctx.distinct(("clone_from", &a.d, &b.d));
    ctx.count(&format!("clone_from_{class}"), 1);
    let sig = format!("natural:clone_from:{class}");
    let (wm, we) = expect_parts(b);
    match catch(|| t.clone_from(&s)) {
        Err(msg) => {
            ctx.violation(&sig, format!("{label}: panicked: {msg}"));
            ctx.eval();
            std::mem::forget(t);
            st.disabled.insert(class);
            return;
        }
        Ok(()) => {}
    }
    // `exp()` is a plain field read; reading the mantissa of a corrupted value may go wrong,
    // so copy it out once and judge on the copy.
    let e = t.exp();
    // (copied into a buffer of another allocation size class: a freed array of the target must
    // not be handed out again for the copy)
    let m = catch(|| {
        let ms = t.mantissa();
        let mut v: Vec<u64> = Vec::with_capacity(64 + wm.len());
        v.extend_from_slice(&ms[..ms.len().min(32)]);
        (ms.len(), v)
    });
    let ok = e == we && m.as_ref().map(|(l, m)| *l == wm.len() && m == &wm).unwrap_or(false);
    ctx.eval();
    if !ok {
        ctx.violation(&sig, format!("{label}: target afterwards has exp {e} mantissa {m:x?}, want exp {we} mantissa {wm:x?}"));
        // the value does not own what it points to any more: do not run its destructor
        std::mem::forget(t);
        st.disabled.insert(class);
        return;
    }
    ctx.check(nat_is(&s, b), &sig, || format!("{label}: source changed to {}", show_nat(&s)));
    // the target must be a fully usable, independent value
    let Some(sum) = guard(ctx, "add", &|| format!("{} + {}", b.hex(), b.hex()), || t.clone() + s.clone()) else { return };
    ctx.check(nat_is(&sum, &b.add(b)), &sig, || format!("{label}: target + source = {}", show_nat(&sum)));
    drop(s);
    ctx.check(nat_is(&t, b), &sig, || format!("{label}: target changed when the source was dropped: {}", show_nat(&t)));
    drop(t);
}

fn pair_suite(ctx: &mut Ctx, st: &mut NatState, rng: &mut Rng, a: &Big, b: &Big, idx: usize, do_clone_from: bool) {
    let (ra, rb) = (idx % ROUTES, (idx / ROUTES) % ROUTES);
    let na = mk(ctx, rng, a, ra);
    let nb = mk(ctx, rng, b, rb);
    ctx.distinct(("pair", &a.d, &b.d));
    // sum, both operand orders
    let want = a.add(b);
    let s1 = guard(ctx, "add", &|| format!("{} + {}", a.hex(), b.hex()), || na.clone() + nb.clone());
    if let Some(s1) = &s1 {
        ctx.check(nat_is(s1, &want), "natural:add:wrong", || {
            format!("{} + {} = {} want {}", a.hex(), b.hex(), show_nat(s1), want.hex())
        });
        ctx.check(repr_ok(s1, &want), "natural:add:single-digit-mantissa-not-inline", || {
            format!("{} + {} = {} stored on the heap: {}", a.hex(), b.hex(), show_nat(s1), is_heap(s1))
        });
    }
    if let Some(s2) = guard(ctx, "add", &|| format!("{} + {}", b.hex(), a.hex()), || nb.clone() + na.clone()) {
        ctx.check(nat_is(&s2, &want), "natural:add:wrong", || {
            format!("{} + {} = {} want {}", b.hex(), a.hex(), show_nat(&s2), want.hex())
        });
    }
    // operands are untouched clones
    ctx.check(nat_is(&na, a) && nat_is(&nb, b), "natural:clone:wrong", || {
        format!("operands changed by adding their clones: {} {}", a.hex(), b.hex())
    });
    // comparisons
    let wc = a.cmp(b);
    let cmp_what = || format!("{} compared with {}", a.hex(), b.hex());
    if let Some(gc) = guard(ctx, "partial_cmp", &cmp_what, || na.partial_cmp(&nb)) {
        ctx.check(gc == Some(wc), "natural:partial_cmp:wrong", || {
            format!("{} vs {}: got {gc:?} want {wc:?}", a.hex(), b.hex())
        });
    }
    let Some(ops) = guard(ctx, "comparison-operators", &cmp_what, || (na < nb, na <= nb, na > nb, na >= nb, na == nb, na != nb)) else {
        return;
    };
    let wops = (
        wc == Ordering::Less,
        wc != Ordering::Greater,
        wc == Ordering::Greater,
        wc != Ordering::Less,
        wc == Ordering::Equal,
        wc != Ordering::Equal,
    );
    ctx.check(ops == wops, "natural:comparison-operators:wrong", || {
        format!("{} vs {}: (<,<=,>,>=,==,!=) got {ops:?} want {wops:?}", a.hex(), b.hex())
    });
    if wc == Ordering::Equal {
        ctx.check(hash_of(&na) == hash_of(&nb), "natural:hash:equal-values-different-hash", || {
            format!("{} routes {ra},{rb}", a.hex())
        });
    }
    // sum compared with its operands (monotonicity through the library's own comparison)
    if let Some(s1) = &s1
        && !b.is_zero()
    {
        ctx.check(*s1 > na, "natural:partial_cmp:wrong", || format!("{} + {} not > first operand", a.hex(), b.hex()));
    }
    if do_clone_from {
        clone_from_case(ctx, st, rng, a, b, ra, rb);
    }
}

/// Numbers with exponents near u64::MAX (never expanded): oracle is (odd mantissa, exponent as u128)
fn huge_exponent_suite(ctx: &mut Ctx, rng: &mut Rng) {
    let smalls: Vec<Big> = vec![
        Big::from_u128(1),
        Big::from_u128(3),
        Big::from_u128(6),
        Big::from_u128(u64::MAX as u128),
        Big::from_u128((1u128 << 64) + 1),
        Big::from_u128(u128::MAX),
        Big::pow2(64),
        Big::pow2(130).add(&Big::from_u128(4)),
    ];
    let exps: Vec<u64> = vec![
        1 << 62,
        1 << 63,
        u64::MAX - 300,
        u64::MAX - 130,
        u64::MAX - 66,
        u64::MAX - 65,
        u64::MAX - 64,
        u64::MAX - 3,
        u64::MAX - 2,
        u64::MAX - 1,
        u64::MAX,
    ];
    // value = v * 2^e
    let judge = |ctx: &mut Ctx, what: &dyn Fn() -> String, got: &Natural, v: &Big, e: u128, sig: &str| {
        let (m, tz) = expect_parts(v);
        let te = e + tz as u128;
        ctx.distinct(("huge", &v.d, e, sig.len()));
        if v.is_zero() {
            ctx.check(nat_is(got, v), sig, || format!("{}: got {} want 0", what(), show_nat(got)));
        } else if te >= u64::MAX as u128 {
            ctx.count("natural_exponent_overflow_cases", 1);
            ctx.check(got.is_nan(), &format!("{sig}:exponent-overflow-not-nan"), || {
                format!("{}: exponent {te} is not representable but result is {}", what(), show_nat(got))
            });
        } else {
            ctx.check(
                !got.is_nan() && got.exp() as u128 == te && got.mantissa() == m.as_slice(),
                sig,
                || format!("{}: got {} want mantissa {m:x?} exp {te}", what(), show_nat(got)),
            );
        }
    };
    for v in &smalls {
        for &e in &exps {
            let x = mk(ctx, rng, v, 0) << e;
            judge(ctx, &|| format!("{} << {e}", v.hex()), &x, v, e as u128, "natural:shl-u64:wrong");
            if x.is_nan() {
                continue;
            }
            // shift further
            for k in [0u64, 1, 2, 64, 200] {
                let y = x.clone() << k;
                judge(ctx, &|| format!("{} << {e} << {k}", v.hex()), &y, v, e as u128 + k as u128, "natural:shl-u64:wrong");
            }
            // exact right shifts by the whole exponent and by one more bit
            let tz = v.tz();
            let back = x.clone() >> e;
            ctx.check(nat_is(&back, v), "natural:shr:exact-shift-wrong", || {
                format!("({} << {e}) >> {e} = {}", v.hex(), show_nat(&back))
            });
            if let Ok(k) = u64::try_from(e as u128 + tz as u128 + 1) {
                let r = x.clone() >> k;
                ctx.check(r.is_nan(), "natural:shr:lost-bit-not-nan", || {
                    format!("({} << {e}) >> {k} loses a 1-bit but result is {}", v.hex(), show_nat(&r))
                });
            }
            // sums of numbers with the same huge exponent offset
            for w in &smalls {
                let y = mk(ctx, rng, w, 0) << e;
                if y.is_nan() {
                    continue;
                }
                let Some(s) = guard(ctx, "add", &|| format!("({} << {e}) + ({} << {e})", v.hex(), w.hex()), || x.clone() + y.clone()) else {
                    continue;
                };
                let want = v.add(w);
                judge(ctx, &|| format!("({} << {e}) + ({} << {e})", v.hex(), w.hex()), &s, &want, e as u128, "natural:add:wrong");
                let wc = v.cmp(w);
                ctx.check(x.partial_cmp(&y) == Some(wc), "natural:partial_cmp:wrong", || {
                    format!("({} << {e}) vs ({} << {e}): got {:?} want {wc:?}", v.hex(), w.hex(), x.partial_cmp(&y))
                });
            }
            // not representable in machine integers / f64 overflow
            ctx.check(u128::try_from(&x).is_err() && u64::try_from(&x).is_err(), "natural:try_from-u128:wrong", || {
                format!("{} << {e} converted to an integer", v.hex())
            });
            ctx.check(f64::from(&x) == f64::INFINITY, "natural:to-f64:not-correctly-rounded", || {
                format!("{} << {e} as f64 = {}", v.hex(), f64::from(&x))
            });
        }
    }
}

/// Semantics of the error value
fn nan_suite(ctx: &mut Ctx, st: &NatState, rng: &mut Rng) {
    // three ways to obtain the error value
    let mk_nans = |ctx: &mut Ctx, rng: &mut Rng| -> Vec<(&'static str, Natural)> {
        let big = |m: u32| Natural::from(m) << (u64::MAX - 1);
        let sum = |ctx: &mut Ctx, a: u32, b: u32| {
            guard(ctx, "add", &|| format!("({a} << (u64::MAX-1)) + ({b} << (u64::MAX-1))"), || big(a) + big(b)).unwrap_or(big(1) << 1u32)
        };
        let (ov1, ov2) = (sum(ctx, 1, 1), sum(ctx, 3, 1));
        vec![
            ("inexact-shr-inline", mk(ctx, rng, &Big::from_u128(5), 0) >> 1u32),
            ("inexact-shr-heap", mk(ctx, rng, &Big::pow2(100).add(&Big::from_u128(1)), 0) >> 3u64),
            ("shl-overflow", (mk(ctx, rng, &Big::from_u128(1), 0) << u64::MAX) << 5u64),
            ("add-exponent-overflow", ov1),
            ("add-exponent-overflow-by-2", ov2),
        ]
    };
    let nans = mk_nans(ctx, rng);
    for (how, n) in &nans {
        ctx.check(n.is_nan(), "natural:nan:expected-error-value", || format!("{how}: {}", show_nat(n)));
    }
    let values = [Big::zero(), Big::from_u128(1), Big::from_u128(12), Big::pow2(64), Big::pow2(200).add(&Big::from_u128(7))];
    for (how, n) in &nans {
        if !n.is_nan() {
            continue;
        }
        ctx.distinct(("nan", how));
        // Eq is an equivalence (the type implements `Eq`), Hash agrees with it
        ctx.check(n == n, "natural:nan:eq-not-reflexive", || how.to_string());
        for (how2, n2) in &nans {
            if n2.is_nan() && n == n2 {
                ctx.check(hash_of(n) == hash_of(n2), "natural:hash:equal-values-different-hash", || {
                    format!("NaN from {how} vs NaN from {how2}")
                });
            }
        }
        let c = n.clone();
        ctx.check(c.is_nan(), "natural:clone:wrong", || format!("clone of NaN ({how}) is {}", show_nat(&c)));
        for k in [0u64, 1, 64, u64::MAX] {
            let l = n.clone() << k;
            let r = n.clone() >> k;
            ctx.check(l.is_nan() && r.is_nan(), "natural:nan:shift-recovers-from-error", || {
                format!("NaN ({how}) << {k} = {}, >> {k} = {}", show_nat(&l), show_nat(&r))
            });
        }
        ctx.check(u128::try_from(n).is_err() && u64::try_from(n).is_err(), "natural:nan:converts-to-integer", || how.to_string());
        ctx.check(f64::from(n).is_nan(), "natural:nan:to-f64-not-nan", || format!("{how}: {}", f64::from(n)));
        for v in &values {
            for route in [0, 2] {
                let x = mk(ctx, rng, v, route);
                ctx.check(x != *n && *n != x, "natural:nan:equal-to-number", || format!("NaN ({how}) == {}", v.hex()));
                // a failed computation stays failed: the sum with the error value is not a number
                let what = || format!("NaN ({how}) + {}", v.hex());
                let Some((s1, s2)) = guard(ctx, "add", &what, || (n.clone() + x.clone(), x.clone() + n.clone())) else { continue };
                ctx.check(s1.is_nan() && s2.is_nan(), "natural:add:nan-operand-dropped", || {
                    format!("NaN ({how}) + {} = {}; {} + NaN = {}", v.hex(), show_nat(&s1), v.hex(), show_nat(&s2))
                });
                // clone_from the error value (which may be stored inline or on the heap)
                let class = match (is_heap(&x), is_heap(n)) {
                    (false, false) => "inline-from-inline",
                    (false, true) => "inline-from-heap",
                    (true, false) => "heap-from-inline",
                    (true, true) => "heap-from-heap-different-len",
                };
                if st.disabled.contains(class) {
                    continue;
                }
                let mut t = x.clone();
                t.clone_from(n);
                ctx.check(t.is_nan(), "natural:clone_from:from-nan", || format!("target {} source NaN ({how}): {}", v.hex(), show_nat(&t)));
            }
        }
    }
}

pub fn natural(ctx: &mut Ctx) {
    let miri = cfg!(miri);
    let mut rng = ctx.rng(0xC12);
    let mut st = NatState::default();
    let bset = boundary_set();
    ctx.sample(|| {
        format!(
            "boundary set of {} values (0, 1, 2^k-1, 2^k, 2^k+1 for k in 1,31..33,63..65,127..129,191..193,255,256): all ordered pairs x shift pairs x (add, cmp, eq/hash, clone_from)",
            bset.len()
        )
    });

    // canaries: the benign representatives of each clone_from class first, so that a broken
    // class is recognised (and then skipped) before inputs that would crash the process
    let x = 0xDEAD_BEEF_1234_5679u64;
    let canaries: Vec<(Big, Big)> = vec![
        (Big::from_u128(1), Big::from_u128(7)),
        (Big::from_u128(1), Big::from_u64s(&[1, x])),
        (Big::from_u128(1), Big::from_u64s(&[1, x, x])),
        (Big::from_u64s(&[1, x]), Big::from_u128(1)),
        (Big::from_u64s(&[1, x, 5]), Big::from_u64s(&[3, x, 9])),
        (Big::from_u64s(&[1, x]), Big::from_u64s(&[3, x, 9])),
        (Big::from_u64s(&[1, x, x, 7]), Big::from_u64s(&[3, 9])),
    ];
    // (every shard runs them: each needs to know which classes are unsafe to exercise)
    for (a, b) in &canaries {
        clone_from_case(ctx, &mut st, &mut rng, a, b, 0, 0);
    }
    for c in st.disabled.clone() {
        ctx.count("clone_from_class_disabled", 1);
        ctx.sample(|| format!("clone_from class {c} corrupts memory: remaining cases of this class skipped"));
    }

    // unary: boundary values x shift set
    let shifts: Vec<u64> = if miri { vec![0, 1, 63, 64, 65, 129] } else { SHIFTS.to_vec() };
    let pre: &[u64] = if miri { &[0, 64] } else { &[0, 1, 63, 64, 65, 130] };
    let mut item = 0usize;
    for a in &bset {
        for &s in pre {
            let mine = ctx.mine(item);
            item += 1;
            if !mine {
                continue;
            }
            unary_suite(ctx, &mut rng, &a.shl(s), &shifts, !miri || s == 0);
        }
    }

    // all ordered pairs x shift pairs
    let mut idx = 0usize;
    for a in &bset {
        for b in &bset {
            let mine = ctx.mine(idx);
            idx += 1;
            if !mine {
                continue;
            }
            for &sa in pre {
                for &sb in pre {
                    let (x, y) = (a.shl(sa), b.shl(sb));
                    pair_suite(ctx, &mut st, &mut rng, &x, &y, idx + (sa + 7 * sb) as usize, true);
                }
            }
        }
    }
    ctx.count("boundary_pairs", (bset.len() * bset.len()) as u64);

    if ctx.mine(1) || miri {
        huge_exponent_suite(ctx, &mut rng);
        nan_suite(ctx, &st, &mut rng);
    }

    // seeded random operands up to 512 bits
    let nrand = if miri { 6 } else { ctx.by_tier(1500, 150_000) };
    for i in 0..nrand {
        let a = Big::random(&mut rng, 512);
        let b = match rng.below(4) {
            0 => a.clone(),
            1 => {
                // close to a: differs in one low bit / same bit length
                let one = Big::from_u128(1).shl(rng.below(a.bits() + 1));
                a.add(&one)
            }
            _ => Big::random(&mut rng, 512),
        };
        if i % 4 == 0 {
            let sh = [0, 1, 5, 64, rng.below(300)];
            unary_suite(ctx, &mut rng, &a, &sh, i % 16 == 0);
        }
        pair_suite(ctx, &mut st, &mut rng, &a, &b, i, true);
    }

    // accumulation chains: the running sum is re-used as operand (in-place paths)
    let chains = if miri { 1 } else { ctx.by_tier(40, 600) };
    for _ in 0..chains {
        let mut acc_b = Big::zero();
        let mut acc = Natural::ZERO;
        let len = if miri { 8 } else { 40 };
        for step in 0..len {
            let t = match rng.below(4) {
                0 => acc_b.clone(), // doubling
                1 => Big::random(&mut rng, 64),
                2 => Big::pow2(rng.below(300)),
                _ => Big::random(&mut rng, 300),
            };
            // doubling re-uses the accumulator's own representation
            let nt = if t == acc_b && rng.bool() { acc.clone() } else { let r = rng.usize(ROUTES); mk(ctx, &mut rng, &t, r) };
            let prev = acc_b.clone();
            acc_b = acc_b.add(&t);
            let swap = rng.bool();
            let what = || format!("running sum {} + {}", prev.hex(), t.hex());
            let a2 = acc.clone(); // same raw representation (spare digit included)
            let Some(r) = guard(ctx, "add", &what, || if swap { a2 + nt } else { nt + a2 }) else {
                acc_b = prev;
                break;
            };
            acc = r;
            if !ctx.check(nat_is(&acc, &acc_b), "natural:add:wrong", || {
                format!("running sum, step {step}: {} + {} gave {} want {}", prev.hex(), t.hex(), show_nat(&acc), acc_b.hex())
            }) {
                // continue from what the library holds
                acc = Natural::from_le_digits(&acc_b.to_u64s());
            }
            ctx.distinct(("chain", &acc_b.d));
        }
        let f = f64::from(&acc);
        ctx.check(f.to_bits() == acc_b.to_f64().to_bits(), "natural:to-f64:not-correctly-rounded", || {
            format!("value {} got {f:e} want {:e}", acc_b.hex(), acc_b.to_f64())
        });
    }
}

// ---------------------------------------------------------------------------------------------
// Number types for sat_count
// ---------------------------------------------------------------------------------------------

pub type Hb = BuildHasherDefault<DefaultHasher>;

#[derive(PartialEq, Eq, Clone, Copy, Debug)]
pub enum Outcome {
    Exact,
    Saturated,
    Infinite,
}

pub trait CountNum: SatCountNumber + 'static {
    const NAME: &'static str;
    /// may `sat_count` be asked for this many variables with this type at all?
    fn usable(_vars: u32) -> bool {
        true
    }
    fn judge(got: &Self, want: &Big, vars: u32) -> Result<Outcome, String>;
}

macro_rules! plain_int {
    ($t:ty, $name:literal, $maxvars:expr) => {
        impl CountNum for $t {
            const NAME: &'static str = $name;
            /// plain machine integers: only promised when 2^vars is representable
            fn usable(vars: u32) -> bool {
                vars <= $maxvars
            }
            fn judge(got: &Self, want: &Big, _vars: u32) -> Result<Outcome, String> {
                if *got >= 0 && Some(*got as u128) == want.to_u128() {
                    Ok(Outcome::Exact)
                } else {
                    Err(format!("got {got}"))
                }
            }
        }
    };
}
#[allow(unused_comparisons)]
mod plain {
    use super::*;
    plain_int!(u32, "u32", 31);
    plain_int!(u64, "u64", 63);
    plain_int!(u128, "u128", 127);
    plain_int!(i64, "i64", 62);
    plain_int!(i128, "i128", 126);
}

macro_rules! sat_int {
    ($t:ty, $name:literal) => {
        impl CountNum for Saturating<$t> {
            const NAME: &'static str = $name;
            fn judge(got: &Self, want: &Big, vars: u32) -> Result<Outcome, String> {
                let max = Big::from_u128(<$t>::MAX as u128);
                let exact = Some(got.0 as u128) == want.to_u128();
                if vars < <$t>::BITS {
                    // 2^vars representable: must be exact (the count is then < MAX)
                    if exact { Ok(Outcome::Exact) } else { Err(format!("got {}", got.0)) }
                } else if want.cmp(&max) != Ordering::Less {
                    // the count itself is out of bounds: MAX is the documented marker
                    if got.0 == <$t>::MAX { Ok(Outcome::Saturated) } else { Err(format!("got {} want the saturation marker MAX", got.0)) }
                } else if got.0 == <$t>::MAX {
                    // count fits but 2^vars does not: marker is acceptable
                    Ok(Outcome::Saturated)
                } else if exact {
                    Ok(Outcome::Exact)
                } else {
                    Err(format!("got {} (neither the exact count nor MAX)", got.0))
                }
            }
        }
    };
}
sat_int!(u64, "Saturating<u64>");
sat_int!(u128, "Saturating<u128>");

impl CountNum for F64 {
    const NAME: &'static str = "F64";
    fn judge(got: &Self, want: &Big, _vars: u32) -> Result<Outcome, String> {
        let g = got.0;
        if want.bits() > 1024 {
            // true value >= 2^1024
            return if g == f64::INFINITY { Ok(Outcome::Infinite) } else { Err(format!("got {g:e}, want +inf (count >= 2^1024)")) };
        }
        let w = want.to_f64();
        if !g.is_finite() {
            return Err(format!("got {g:e}, want about {w:e} (count < 2^1024)"));
        }
        let tol = w * (-40f64).exp2();
        if (g - w).abs() <= tol { Ok(Outcome::Exact) } else { Err(format!("got {g:e} want {w:e} (relative error > 2^-40)")) }
    }
}

impl CountNum for Natural {
    const NAME: &'static str = "Natural";
    fn judge(got: &Self, want: &Big, _vars: u32) -> Result<Outcome, String> {
        if nat_is(got, want) {
            // digit for digit also through the textual route
            let d = format!("{got}");
            if d != want.to_dec() {
                return Err(format!("Display gives {d}"));
            }
            Ok(Outcome::Exact)
        } else {
            Err(format!("got {}", show_nat(got)))
        }
    }
}

/// One `sat_count` call compared with the model `pop * 2^(vars - n)`.
/// `phase` names the cache situation ("fresh", "cache-reuse", "cache-reuse-after-gc", ...).
#[allow(clippy::too_many_arguments)]
fn count_one<K: BoolKind, N: CountNum>(
    ctx: &mut Ctx,
    f: &K::F,
    t: &Tt,
    vars: u32,
    cache: &mut SatCountCache<N, Hb>,
    phase: &str,
    what: &dyn Fn() -> String,
) -> bool
where
    for<'x> INodeOfFunc<'x, K::F>: HasLevel,
{
    let k = K::NAME;
    let n = t.n;
    debug_assert!(vars >= n);
    let want = Big::from_u128(t.count_ones() as u128).shl((vars - n) as u64);
    let sig_base = if phase == "fresh" { format!("{k}:sat_count:{}", N::NAME) } else { format!("{k}:sat_count:{phase}") };
    ctx.eval();
    let got = match catch(|| f.sat_count(vars, cache)) {
        Ok(g) => g,
        Err(msg) => {
            ctx.violation(&format!("{sig_base}:panic"), format!("{} type {} vars {vars} f={t}: panicked: {msg}", what(), N::NAME));
            return false;
        }
    };
    match N::judge(&got, &want, vars) {
        Ok(o) => {
            match o {
                Outcome::Saturated => ctx.count("saturated_results", 1),
                Outcome::Infinite => ctx.count("infinite_results", 1),
                Outcome::Exact => {}
            }
            true
        }
        Err(e) => {
            // attribute correctly: is the handle still the function we think it is?
            let it = if n <= 12 { Some(interp_tt::<K>(f)) } else { None };
            if let Some(it) = it.filter(|it| it != t) {
                ctx.violation(
                    &format!("{k}:sat_count:handle-denotes-other-function"),
                    format!("{} f={t} but the diagram now denotes {it}", what()),
                );
            } else {
                ctx.violation(
                    &format!("{sig_base}:wrong"),
                    format!("{} type {} vars {vars} f={t} (models {}): {e}; want {}", what(), N::NAME, t.count_ones(), want.hex()),
                );
            }
            false
        }
    }
}

fn vars_set(k: Sem, n: u32) -> Vec<u32> {
    if k == Sem::ZeroSup {
        // DESIGN 6.4: for ZBDDs only vars == number of manager variables is defined tightly enough
        return vec![n];
    }
    let mut v = vec![n, n + 1, n + 70, 1100];
    // representability boundaries of the integer types and of f64
    for x in [31u32, 32, 62, 63, 64, 65, 126, 127, 128, 129, 1020, 1021, 1022, 1023, 1024, 1025, 1026, 1027, 1028, 1040] {
        if x >= n && !v.contains(&x) {
            v.push(x);
        }
    }
    v
}

/// fresh cache for every call
fn count_fresh<K: BoolKind, N: CountNum>(ctx: &mut Ctx, f: &K::F, t: &Tt, vars: &[u32], what: &dyn Fn() -> String, key: u64)
where
    for<'x> INodeOfFunc<'x, K::F>: HasLevel,
{
    for &v in vars {
        if !N::usable(v) {
            continue;
        }
        let mut cache = SatCountCache::<N, Hb>::default();
        if count_one::<K, N>(ctx, f, t, v, &mut cache, "fresh", what) && !t.is_const() {
            ctx.distinct((K::NAME, N::NAME, v, key));
        }
    }
}

macro_rules! for_all_types {
    ($mac:ident) => {
        $mac!(Natural);
        $mac!(Saturating<u64>);
        $mac!(Saturating<u128>);
        $mac!(F64);
        $mac!(u32);
        $mac!(u64);
        $mac!(u128);
        $mac!(i64);
        $mac!(i128);
    };
}

fn sweep3<K: BoolKind>(ctx: &mut Ctx, order: &[u32])
where
    for<'id> MgrOf<'id, K>: HasWorkers,
    for<'x> INodeOfFunc<'x, K::F>: HasLevel,
{
    let n = 3;
    let all = All3::<K>::build(ctx, n, order, 1, 1 << 14, 1 << 10);
    let vars = vars_set(K::SEM, n);
    let ohash = order.iter().fold(0u64, |h, &v| h * 4 + v as u64);
    for bits in 0..256usize {
        let t = Tt::from_u64(n, bits as u64);
        let f = &all.funcs[bits];
        let what = || format!("order {order:?}");
        macro_rules! go {
            ($t:ty) => {
                count_fresh::<K, $t>(ctx, f, &t, &vars, &what, ohash * 256 + bits as u64);
            };
        }
        for_all_types!(go);
    }
    // the same sweep with ONE cache per number type shared by all 256 handles, vars changing
    macro_rules! shared {
        ($t:ty) => {{
            let mut cache = SatCountCache::<$t, Hb>::default();
            for cache_all in [false, true] {
                cache.cache_all = cache_all;
                for &v in &vars {
                    if !<$t as CountNum>::usable(v) {
                        continue;
                    }
                    for bits in 0..256usize {
                        let t = Tt::from_u64(n, bits as u64);
                        // first query with this `vars` on a cache filled for another `vars`
                        let phase = if bits == 0 { "cache-reuse-after-vars-change" } else { "cache-reuse" };
                        count_one::<K, $t>(ctx, &all.funcs[bits], &t, v, &mut cache, phase, &|| {
                            format!("order {order:?} shared cache (cache_all {cache_all})")
                        });
                    }
                }
            }
        }};
    }
    for_all_types!(shared);
    ctx.sample(|| format!("{} order {order:?}: all 256 functions x vars {vars:?} x 9 number types, fresh and shared cache", K::NAME));

    // outside the property (DESIGN 6.4): ZBDD with vars != number of variables; only observed
    if K::SEM == Sem::ZeroSup {
        let f = &all.funcs[0x96];
        let r = catch(|| f.sat_count(n + 1, &mut SatCountCache::<Natural, Hb>::default()));
        match r {
            Err(_) => ctx.count("zbdd_vars_gt_num_vars_panics(observed,not-asserted)", 1),
            Ok(x) => {
                if !nat_is(&x, &Big::from_u128(8)) {
                    ctx.count("zbdd_vars_gt_num_vars_other_value(observed,not-asserted)", 1)
                }
            }
        }
    }
}

/// Shannon expansion by halving the table on the highest variable number (O(2^n) table work)
fn build_fast<K: BoolKind>(mref: &MRefOf<K>, t: &Tt) -> K::F {
    fn rec<K: BoolKind>(m: &MgrOf<'_, K>, t: &Tt, lo: usize, len: usize, v: u32) -> K::F {
        // sub-table [lo, lo+len) depends on variables 0..v
        let first = t.get(lo);
        if (lo..lo + len).all(|a| t.get(a) == first) {
            return if first { K::F::t(m) } else { K::F::f(m) };
        }
        let half = len / 2;
        let f0 = rec::<K>(m, t, lo, half, v - 1);
        let f1 = rec::<K>(m, t, lo + half, half, v - 1);
        if f0 == f1 {
            return f0;
        }
        K::F::var(m, v - 1).unwrap().ite(&f1, &f0).unwrap()
    }
    mref.with_manager_shared(|m| {
        assert_eq!(m.num_vars(), t.n);
        rec::<K>(m, t, 0, 1usize << t.n, t.n)
    })
}

fn random_tt(n: u32, rng: &mut Rng) -> Tt {
    if n <= 12 {
        return Tt::random_biased(n, rng);
    }
    // cheap structured tables for many variables
    match rng.below(3) {
        0 => Tt::random(n, rng),
        1 => Tt::random(n, rng).and(&Tt::random(n, rng)).and(&Tt::random(n, rng)),
        _ => Tt::random(n, rng).or(&Tt::random(n, rng)),
    }
}

fn random_funcs<K: BoolKind>(ctx: &mut Ctx, rng: &mut Rng, n: u32)
where
    for<'id> MgrOf<'id, K>: HasWorkers,
    for<'x> INodeOfFunc<'x, K::F>: HasLevel,
{
    let mref = setup::<K>(1 << 20, 1 << 14, 1, n);
    let order = rng.perm(n as usize);
    set_order(&mref, &order);
    let vars = vars_set(K::SEM, n);
    let nf = if n <= 8 { 6 } else { 2 };
    let mut handles = Vec::new();
    for _ in 0..nf {
        let t = random_tt(n, rng);
        let f = if n <= 12 && rng.bool() { build_shannon::<K>(&mref, &t) } else { build_fast::<K>(&mref, &t) };
        // the handle must denote the table (sampled through the library's eval; full
        // interpretation for small n) — otherwise a count mismatch would be misattributed
        let ok = if n <= 10 {
            interp_tt::<K>(&f) == t
        } else {
            (0..64).all(|_| {
                let a = rng.usize(1 << n);
                f.eval((0..n).map(|v| (v, (a >> v) & 1 == 1))) == t.get(a)
            })
        };
        if !ctx.check(ok, &format!("{}:build:interp-table", K::NAME), || format!("order {order:?} table {t}")) {
            continue;
        }
        let what = || format!("random n={n} order {order:?}");
        let key = hash_of(&t);
        macro_rules! go {
            ($t:ty) => {
                count_fresh::<K, $t>(ctx, &f, &t, &vars, &what, key);
            };
        }
        for_all_types!(go);
        handles.push((f, t));
    }
    // one cache per type across the handles of this manager
    macro_rules! shared {
        ($t:ty) => {{
            let mut cache = SatCountCache::<$t, Hb>::default();
            cache.cache_all = rng.bool();
            for &v in &vars {
                if !<$t as CountNum>::usable(v) {
                    continue;
                }
                for (i, (f, t)) in handles.iter().enumerate() {
                    let phase = if i == 0 { "cache-reuse-after-vars-change" } else { "cache-reuse" };
                    count_one::<K, $t>(ctx, f, t, v, &mut cache, phase, &|| format!("random n={n} order {order:?} shared cache"));
                }
            }
        }};
    }
    for_all_types!(shared);
    ctx.count("random_functions", handles.len() as u64);
    ctx.count_max("max_vars_random_function", n as u64);
}

pub fn satcount(ctx: &mut Ctx) {
    let orders = all_perms(3);
    let mut i = 0;
    for order in &orders {
        for kind in 0..3 {
            let mine = ctx.mine(i);
            i += 1;
            if !mine {
                continue;
            }
            match kind {
                0 => sweep3::<Bdd>(ctx, order),
                1 => sweep3::<Bcdd>(ctx, order),
                _ => sweep3::<Zbdd>(ctx, order),
            }
            ctx.count("configs_3var", 1);
        }
    }
    // random functions with 4..=16 variables (<= 12 in quick)
    let mut rng = ctx.rng(0xC12_5A7);
    let maxn = ctx.by_tier(12, 16);
    let rounds = ctx.by_tier(12, 400);
    for r in 0..rounds {
        let n = if r < 2 && !ctx.quick() { maxn - r as u32 } else { rng.range(4, maxn as usize) as u32 };
        match rng.below(3) {
            0 => random_funcs::<Bdd>(ctx, &mut rng, n),
            1 => random_funcs::<Bcdd>(ctx, &mut rng, n),
            _ => random_funcs::<Zbdd>(ctx, &mut rng, n),
        }
    }
}

// ---------------------------------------------------------------------------------------------
// c12_cache: one cache across handles, gc, reorder, vars, cache_all
// ---------------------------------------------------------------------------------------------

fn cache_history<K: BoolKind, N: CountNum>(ctx: &mut Ctx, rng: &mut Rng, n: u32, steps: usize)
where
    for<'id> MgrOf<'id, K>: HasWorkers,
    for<'x> INodeOfFunc<'x, K::F>: HasLevel,
{
    let k = K::NAME;
    let reorder_ok = K::SEM != Sem::ZeroSup; // ZBDD reordering with live nodes: known broken feature
    let mref = setup::<K>(1 << 16, 1 << 10, 1, n);
    if rng.bool() {
        set_order(&mref, &rng.perm(n as usize));
    }
    let vars_choices: Vec<u32> = if K::SEM == Sem::ZeroSup {
        vec![n]
    } else {
        [n, n + 1, n + 2, n + 70, 63, 64, 1100].into_iter().filter(|&v| v >= n && N::usable(v)).collect()
    };
    let mut cache = if rng.bool() { SatCountCache::<N, Hb>::default() } else { SatCountCache::<N, Hb>::with_hasher(Hb::default()) };
    cache.cache_all = rng.bool();
    let mut live: Vec<(K::F, Tt)> = Vec::new();
    let mut vars = vars_choices[0];
    let mut gc_since = false;
    let mut reorder_since = false;
    let mut last_vars: Option<u32> = None;
    let mut log: Vec<String> = Vec::new();
    let build = |live: &mut Vec<(K::F, Tt)>, rng: &mut Rng, cnt: usize, log: &mut Vec<String>| {
        for _ in 0..cnt {
            let t = Tt::random_biased(n, rng);
            let f = if rng.bool() { build_shannon::<K>(&mref, &t) } else { build_fast::<K>(&mref, &t) };
            log.push(format!("build {t}"));
            live.push((f, t));
        }
    };
    build(&mut live, rng, 4, &mut log);
    let mut ok = true;
    for step in 0..steps {
        if !ok {
            break;
        }
        let act = rng.below(10);
        match act {
            0 => {
                let c = rng.range(1, 3);
                build(&mut live, rng, c, &mut log)
            }
            1 | 2 => {
                // drop handles, collect, then build *different* functions: node ids are recycled
                let ndrop = rng.range(1, live.len().max(1));
                for _ in 0..ndrop.min(live.len()) {
                    let i = rng.usize(live.len());
                    live.swap_remove(i);
                }
                let removed = mref.with_manager_shared(|m| m.gc());
                log.push(format!("drop {ndrop} handles; gc removed {removed}"));
                if removed > 0 {
                    gc_since = true;
                }
                let c = rng.range(2, 4);
                build(&mut live, rng, c, &mut log);
            }
            3 if reorder_ok => {
                let o = rng.perm(n as usize);
                let before = current_order(&mref);
                set_order(&mref, &o);
                log.push(format!("set_var_order {o:?}"));
                if before != o {
                    reorder_since = true;
                }
            }
            4 => {
                cache.cache_all = !cache.cache_all;
                log.push(format!("cache_all = {}", cache.cache_all));
            }
            5 => {
                vars = *rng.pick(&vars_choices);
            }
            6 | 7 if vars_choices.len() > 1 => {
                // scripted: count with a, invalidate (gc or reordering), exactly ONE count with b, back to a.
                // The epoch and the variable count change in the same call; the cache must forget both.
                let a = vars;
                let b = *rng.pick(&vars_choices.iter().copied().filter(|&v| v != a).collect::<Vec<_>>());
                let all = cache.cache_all;
                cache.cache_all = true;
                let tail = |log: &Vec<String>| log[log.len().saturating_sub(12)..].join("; ");
                for (i, (f, t)) in live.iter().enumerate().take(3) {
                    log.push(format!("scripted: sat_count({t}, vars {a}) #{i}"));
                    ok &= count_one::<K, N>(ctx, f, t, a, &mut cache, "cache-reuse", &|| format!("n={n} step {step}, history tail: {}", tail(&log)));
                }
                if reorder_ok && rng.bool() {
                    let o = rng.perm(n as usize);
                    set_order(&mref, &o);
                    log.push(format!("scripted: set_var_order {o:?}"));
                } else {
                    let t = Tt::random_biased(n, rng);
                    drop(build_shannon::<K>(&mref, &t));
                    let removed = mref.with_manager_shared(|m| m.gc());
                    log.push(format!("scripted: garbage + gc removed {removed}"));
                }
                let (f, t) = rng.pick(&live);
                log.push(format!("scripted: ONE sat_count({t}, vars {b})"));
                ok &= count_one::<K, N>(ctx, f, t, b, &mut cache, "cache-reuse-after-gc-and-vars-change", &|| format!("n={n} step {step}, history tail: {}", tail(&log)));
                for (f, t) in live.iter() {
                    log.push(format!("scripted: sat_count({t}, vars {a}) again"));
                    ok &= count_one::<K, N>(ctx, f, t, a, &mut cache, "cache-reuse-after-gc-and-vars-change", &|| format!("n={n} step {step}, history tail: {}", tail(&log)));
                }
                ctx.count("scripted_epoch_and_vars_change", 1);
                cache.cache_all = all;
                last_vars = Some(a);
                gc_since = false;
                reorder_since = false;
            }
            _ => {}
        }
        if live.is_empty() {
            build(&mut live, rng, 3, &mut log);
        }
        // queries (the newest handles first after a gc: they own the recycled ids)
        let nq = rng.range(1, 4);
        for q in 0..nq {
            if q > 0 && rng.chance(1, 3) {
                vars = *rng.pick(&vars_choices);
            }
            let i = if q == 0 && gc_since { live.len() - 1 } else { rng.usize(live.len()) };
            let (f, t) = &live[i];
            let had = !cache.map.is_empty();
            let phase = if had && gc_since {
                ctx.count("cache_reuse_after_gc", 1);
                "cache-reuse-after-gc"
            } else if had && reorder_since {
                ctx.count("cache_reuse_after_reorder", 1);
                "cache-reuse-after-reorder"
            } else if had && last_vars != Some(vars) {
                ctx.count("cache_reuse_after_vars_change", 1);
                "cache-reuse-after-vars-change"
            } else if had {
                "cache-reuse"
            } else {
                "fresh-or-cleared"
            };
            gc_since = false;
            reorder_since = false;
            last_vars = Some(vars);
            log.push(format!("sat_count::<{}>({t}, vars {vars}) [{phase}, cache_all {}, {} entries]", N::NAME, cache.cache_all, cache.map.len()));
            let phase_sig = if phase == "fresh-or-cleared" { "cache-reuse" } else { phase };
            let tail = |log: &Vec<String>| log[log.len().saturating_sub(12)..].join("; ");
            ok &= count_one::<K, N>(ctx, f, t, vars, &mut cache, phase_sig, &|| {
                format!("n={n} step {step}, history tail: {}", tail(&log))
            });
            if ok && !t.is_const() {
                ctx.distinct((k, N::NAME, vars, hash_of(t), phase));
            }
        }
    }
    ctx.count("cache_histories", 1);
}

pub fn cache(ctx: &mut Ctx) {
    let mut rng = ctx.rng(0xC12_CAC);
    let hist = ctx.by_tier(300, 2500);
    let steps = ctx.by_tier(40, 80);
    for h in 0..hist {
        let n = rng.range(3, ctx.by_tier(7, 10)) as u32;
        macro_rules! kinds {
            ($t:ty) => {
                match h % 3 {
                    0 => cache_history::<Bdd, $t>(ctx, &mut rng, n, steps),
                    1 => cache_history::<Bcdd, $t>(ctx, &mut rng, n, steps),
                    _ => cache_history::<Zbdd, $t>(ctx, &mut rng, n, steps),
                }
            };
        }
        match (h / 3) % 5 {
            0 => kinds!(Natural),
            1 => kinds!(Saturating<u64>),
            2 => kinds!(F64),
            3 => kinds!(u64),
            _ => kinds!(Saturating<u128>),
        }
    }
    ctx.sample(|| "one SatCountCache per history: random builds, drops + gc + rebuild (ids recycled), set_var_order (BDD/BCDD), vars changes, cache_all toggles; every count compared with popcount * 2^(vars-n)".to_string());
}
