//! C11 — TDD three-valued logic (constants, var, connectives, ite, eval, cofactors)
//!
//! Reference model: `T3`, an explicit table over {F,U,T}^n. Assignment index `i` gives variable
//! `v` the value `(i / 3^v) % 3` with 0 = F, 1 = U, 2 = T. All connectives are literal 3x3 truth
//! tables written out below (Kleene for not/and/or, Lukasiewicz for imp/equiv) and the derived
//! ones follow the property text word by word. Operands are constructed *directly* through the
//! manager's unique table (`LevelView::get_or_insert`), i.e. without any of the operators under
//! test, and are verified with an independent interpreter before they are used.
//!
//! Table notation in witnesses: `1v:FUT` lists the values for x0 = F,U,T; `2v:abc.def.ghi`
//! lists x0 = F,U,T within each group, groups are x1 = F,U,T.

use std::borrow::Borrow;
use std::collections::HashMap;

use oxidd::tdd::{TDDFunction, TDDManagerRef};
use oxidd::{Function, HasLevel, InnerNode, LevelNo, Manager, ManagerRef, Node, TVLFunction, WorkerPool};
use oxidd_core::HasWorkers;
use oxidd_rules_tdd::TDDTerminal;

use crate::Ctx;
use crate::audit::{self, Rule};
use crate::rng::Rng;

// --- three-valued model -----------------------------------------------------------------

pub const F: u8 = 0;
pub const U: u8 = 1;
pub const T: u8 = 2;

/// Kleene negation, index F,U,T
pub const NOT3: [u8; 3] = [T, U, F];
/// Kleene strong conjunction, `[a][b]`, index order F,U,T
pub const AND3: [[u8; 3]; 3] = [
    [F, F, F], // F and _
    [F, U, U], // U and _
    [F, U, T], // T and _
];
/// Kleene strong disjunction
pub const OR3: [[u8; 3]; 3] = [
    [F, U, T], // F or _
    [U, U, T], // U or _
    [T, T, T], // T or _
];
/// Lukasiewicz implication a -> b
pub const IMP3: [[u8; 3]; 3] = [
    [T, T, T], // F -> _
    [U, T, T], // U -> _
    [F, U, T], // T -> _
];
/// Lukasiewicz equivalence
pub const EQV3: [[u8; 3]; 3] = [
    [T, U, F], // F <-> _
    [U, T, U], // U <-> _
    [F, U, T], // T <-> _
];

#[derive(Clone, Copy, PartialEq, Eq, Hash, Debug)]
pub enum Op3 {
    And,
    Or,
    Nand,
    Nor,
    Xor,
    Equiv,
    Imp,
    ImpStrict,
}
pub const ALL_OPS: [Op3; 8] = [Op3::And, Op3::Or, Op3::Nand, Op3::Nor, Op3::Xor, Op3::Equiv, Op3::Imp, Op3::ImpStrict];

impl Op3 {
    #[inline]
    pub fn on(self, a: u8, b: u8) -> u8 {
        let (a, b) = (a as usize, b as usize);
        match self {
            Op3::And => AND3[a][b],
            Op3::Or => OR3[a][b],
            Op3::Nand => NOT3[AND3[a][b] as usize],
            Op3::Nor => NOT3[OR3[a][b] as usize],
            Op3::Equiv => EQV3[a][b],
            Op3::Xor => NOT3[EQV3[a][b] as usize],
            Op3::Imp => IMP3[a][b],
            // imp_strict(a, b) = not imp(b, a)
            Op3::ImpStrict => NOT3[IMP3[b][a] as usize],
        }
    }
    pub fn name(self) -> &'static str {
        match self {
            Op3::And => "and",
            Op3::Or => "or",
            Op3::Nand => "nand",
            Op3::Nor => "nor",
            Op3::Xor => "xor",
            Op3::Equiv => "equiv",
            Op3::Imp => "imp",
            Op3::ImpStrict => "imp_strict",
        }
    }
    pub fn apply(self, f: &TDDFunction, g: &TDDFunction) -> TDDFunction {
        match self {
            Op3::And => f.and(g),
            Op3::Or => f.or(g),
            Op3::Nand => f.nand(g),
            Op3::Nor => f.nor(g),
            Op3::Xor => f.xor(g),
            Op3::Equiv => f.equiv(g),
            Op3::Imp => f.imp(g),
            Op3::ImpStrict => f.imp_strict(g),
        }
        .expect("unexpected OutOfMemory with ample capacity")
    }
}

/// ite exactly as in the property statement
#[inline]
pub fn ite3(a: u8, b: u8, c: u8) -> u8 {
    if b == c || a == T {
        b
    } else if a == F {
        c
    } else if a == b {
        OR3[a as usize][c as usize]
    } else if a == c {
        AND3[a as usize][b as usize]
    } else {
        U
    }
}

pub fn pow3(n: u32) -> usize {
    3usize.pow(n)
}
#[inline]
fn digit(i: usize, v: u32) -> u8 {
    ((i / pow3(v)) % 3) as u8
}
fn ch3(x: u8) -> char {
    match x {
        F => 'F',
        U => 'U',
        T => 'T',
        _ => '?',
    }
}
fn opt3(x: u8) -> Option<bool> {
    match x {
        F => Some(false),
        T => Some(true),
        _ => None,
    }
}
fn from_opt(x: Option<bool>) -> u8 {
    match x {
        Some(false) => F,
        None => U,
        Some(true) => T,
    }
}

#[derive(Clone, PartialEq, Eq, Hash, Debug)]
pub struct T3 {
    pub n: u32,
    pub v: Vec<u8>,
}

impl T3 {
    pub fn from_fn(n: u32, f: impl FnMut(usize) -> u8) -> Self {
        T3 { n, v: (0..pow3(n)).map(f).collect() }
    }
    pub fn constant(n: u32, c: u8) -> Self {
        Self::from_fn(n, |_| c)
    }
    pub fn var(n: u32, v: u32) -> Self {
        Self::from_fn(n, |i| digit(i, v))
    }
    /// base-3 code (n <= 3)
    pub fn id(&self) -> u64 {
        self.v.iter().rev().fold(0u64, |acc, &x| acc * 3 + x as u64)
    }
    pub fn from_id(n: u32, mut id: u64) -> Self {
        Self::from_fn(n, |_| {
            let d = (id % 3) as u8;
            id /= 3;
            d
        })
    }
    pub fn not(&self) -> Self {
        Self::from_fn(self.n, |i| NOT3[self.v[i] as usize])
    }
    pub fn op(&self, op: Op3, o: &T3) -> Self {
        Self::from_fn(self.n, |i| op.on(self.v[i], o.v[i]))
    }
    pub fn ite(&self, b: &T3, c: &T3) -> Self {
        Self::from_fn(self.n, |i| ite3(self.v[i], b.v[i], c.v[i]))
    }
    pub fn is_const(&self) -> Option<u8> {
        self.v.iter().all(|&x| x == self.v[0]).then_some(self.v[0])
    }
    pub fn cofactor(&self, v: u32, val: u8) -> Self {
        let p = pow3(v);
        Self::from_fn(self.n, |i| self.v[i - digit(i, v) as usize * p + val as usize * p])
    }
    pub fn depends_on(&self, v: u32) -> bool {
        let c0 = self.cofactor(v, F);
        c0 != self.cofactor(v, U) || c0 != self.cofactor(v, T)
    }
}

impl std::fmt::Display for T3 {
    fn fmt(&self, f: &mut std::fmt::Formatter<'_>) -> std::fmt::Result {
        write!(f, "{}v:", self.n)?;
        for (i, &x) in self.v.iter().enumerate() {
            if i > 0 && i % 3 == 0 && self.n > 1 {
                write!(f, "{}", if i % 9 == 0 { '|' } else { '.' })?;
            }
            write!(f, "{}", ch3(x))?;
        }
        Ok(())
    }
}

/// Model of `cofactors()`: None iff constant, else w.r.t. the top-most variable the table
/// depends on under `order` (level -> var): (var, f_true, f_unknown, f_false)
pub fn model_cofactors(t: &T3, order: &[u32]) -> Option<(u32, T3, T3, T3)> {
    let v = *order.iter().find(|&&v| t.depends_on(v))?;
    Some((v, t.cofactor(v, T), t.cofactor(v, U), t.cofactor(v, F)))
}

// --- independent interpreter + direct construction ----------------------------------------

fn term_val(t: TDDTerminal) -> u8 {
    match t {
        TDDTerminal::False => F,
        TDDTerminal::Unknown => U,
        TDDTerminal::True => T,
    }
}
fn val_term(v: u8) -> TDDTerminal {
    match v {
        F => TDDTerminal::False,
        U => TDDTerminal::Unknown,
        _ => TDDTerminal::True,
    }
}

/// Node-by-node interpretation: child 0 / 1 / 2 for the node variable being T / U / F. Never
/// calls OxiDD's `eval`. Returns 9 on a malformed node (arity != 3).
pub fn interp_edge<M>(m: &M, e: &M::Edge, a: &dyn Fn(u32) -> u8) -> u8
where
    M: Manager<Terminal = TDDTerminal>,
    M::InnerNode: HasLevel,
{
    match m.get_node(e) {
        Node::Inner(n) => {
            let v = m.level_to_var(n.level());
            let ch: Vec<_> = n.children().collect();
            if ch.len() != 3 {
                return 9;
            }
            let k = match a(v) {
                T => 0,
                U => 1,
                _ => 2,
            };
            interp_edge(m, &ch[k], a)
        }
        Node::Terminal(t) => term_val(*t.borrow()),
    }
}

pub fn interp_t3(f: &TDDFunction) -> T3 {
    f.with_manager_shared(|m, e| {
        let n = m.num_vars();
        T3::from_fn(n, |i| interp_edge(m, e, &|v| digit(i, v)))
    })
}

/// Table through OxiDD's own `eval`, total assignments only. Arguments are passed in
/// ascending or descending variable order (`rev`).
pub fn eval_t3(f: &TDDFunction, rev: bool) -> T3 {
    let n = f.with_manager_shared(|m, _| m.num_vars());
    T3::from_fn(n, |i| {
        let args: Vec<(u32, Option<bool>)> = if rev {
            (0..n).rev().map(|v| (v, opt3(digit(i, v)))).collect()
        } else {
            (0..n).map(|v| (v, opt3(digit(i, v)))).collect()
        };
        from_opt(f.eval(args))
    })
}

/// Table through `eval` with hostile argument lists: variables whose value is unknown are
/// omitted (documented: a decision node for a variable without a value takes the `unknown`
/// branch), the others are passed in a rotated order and some of them twice (documented: the
/// last value counts).
pub fn eval_t3_sparse(f: &TDDFunction) -> T3 {
    let n = f.with_manager_shared(|m, _| m.num_vars());
    T3::from_fn(n, |i| {
        let mut args: Vec<(u32, Option<bool>)> = Vec::new();
        for k in 0..n {
            let v = (k + i as u32) % n;
            let val = opt3(digit(i, v));
            match val {
                None => {
                    if (i + v as usize) % 3 == 0 {
                        // explicitly unknown after a contradicting earlier value
                        args.push((v, Some(true)));
                        args.push((v, None));
                    }
                }
                Some(b) => {
                    if (i + v as usize) % 4 == 1 {
                        args.push((v, Some(!b)));
                    } else if (i + v as usize) % 4 == 2 {
                        args.push((v, None));
                    }
                    args.push((v, Some(b)));
                }
            }
        }
        from_opt(f.eval(args))
    })
}

fn mk_node<M>(m: &M, level: LevelNo, ch: [M::Edge; 3]) -> M::Edge
where
    M: Manager<Terminal = TDDTerminal>,
    M::InnerNode: HasLevel,
{
    if ch[0] == ch[1] && ch[1] == ch[2] {
        let [a, b, c] = ch;
        m.drop_edge(b);
        m.drop_edge(c);
        return a;
    }
    oxidd_core::LevelView::get_or_insert(&mut m.level(level), <M::InnerNode as InnerNode<M::Edge>>::new(level, ch))
        .expect("unexpected OutOfMemory with ample capacity")
}

/// Build the reduced ordered TDD of table `t` bottom-up, straight into the unique tables.
/// `order`: level -> var (must be the manager's current order).
fn build_direct_edge<M>(m: &M, t: &[u8], order: &[u32], level: usize, idx: usize) -> M::Edge
where
    M: Manager<Terminal = TDDTerminal>,
    M::InnerNode: HasLevel,
{
    if level == order.len() {
        return m.get_terminal(val_term(t[idx])).unwrap();
    }
    let p = pow3(order[level]);
    let ct = build_direct_edge(m, t, order, level + 1, idx + T as usize * p);
    let cu = build_direct_edge(m, t, order, level + 1, idx + U as usize * p);
    let cf = build_direct_edge(m, t, order, level + 1, idx + F as usize * p);
    mk_node(m, level as LevelNo, [ct, cu, cf])
}

pub fn build_direct(mref: &TDDManagerRef, t: &T3, order: &[u32]) -> TDDFunction {
    mref.with_manager_shared(|m| {
        assert_eq!(m.num_vars(), t.n);
        let e = build_direct_edge(m, &t.v, order, 0, 0);
        TDDFunction::from_edge(m, e)
    })
}

/// The two-valued indicator functions [x = F, x = U, x = T] of variable `v`, from operators
fn indicators(m: &<TDDFunction as Function>::Manager<'_>, v: u32) -> [TDDFunction; 3] {
    let x = TDDFunction::var(m, v).unwrap();
    let nx = x.not().unwrap();
    // imp_strict(a, b) = not imp(b, a): T only for a = F, b = T
    let is_t = nx.imp_strict(&x).unwrap();
    let is_f = x.imp_strict(&nx).unwrap();
    let is_u = is_t.nor(&is_f).unwrap();
    [is_f, is_u, is_t]
}

/// Generic construction through operators, route 0: or of (indicator-cube and constant),
/// route 1: nested ite on the two-valued indicators.
pub fn build_by_ops(mref: &TDDManagerRef, t: &T3, route: u32) -> TDDFunction {
    mref.with_manager_shared(|m| {
        let n = t.n;
        let ind: Vec<[TDDFunction; 3]> = (0..n).map(|v| indicators(m, v)).collect();
        let konst = |c: u8| match c {
            F => TDDFunction::f(m),
            // deliberately not `u()`: constructed as a terminal edge, `u()` is checked separately
            U => TDDFunction::from_edge(m, m.get_terminal(TDDTerminal::Unknown).unwrap()),
            _ => TDDFunction::t(m),
        };
        if route == 0 {
            let mut f = konst(F);
            for i in 0..pow3(n) {
                if t.v[i] == F {
                    continue;
                }
                let mut cube = konst(T);
                for v in 0..n {
                    cube = cube.and(&ind[v as usize][digit(i, v) as usize]).unwrap();
                }
                f = f.or(&cube.and(&konst(t.v[i])).unwrap()).unwrap();
            }
            f
        } else {
            fn rec(
                t: &T3,
                ind: &[[TDDFunction; 3]],
                konst: &dyn Fn(u8) -> TDDFunction,
                v: u32,
                idx: usize,
            ) -> TDDFunction {
                if v == t.n {
                    return konst(t.v[idx]);
                }
                let p = pow3(v);
                let ft = rec(t, ind, konst, v + 1, idx + T as usize * p);
                let fu = rec(t, ind, konst, v + 1, idx + U as usize * p);
                let ff = rec(t, ind, konst, v + 1, idx + F as usize * p);
                let [is_f, _, is_t] = &ind[v as usize];
                is_t.ite(&ft, &is_f.ite(&ff, &fu).unwrap()).unwrap()
            }
            rec(t, &ind, &konst, 0, 0)
        }
    })
}

pub fn tdd_setup(nodes: usize, cache: usize, threads: u32, nvars: u32, order: &[u32]) -> TDDManagerRef {
    let mref = oxidd::tdd::new_manager(nodes, cache, threads);
    mref.with_manager_exclusive(|m| {
        if threads > 1 {
            // mostly MAX (parallel recursion throughout); otherwise a small depth, so that the
            // parallel recursor hands over to the sequential one inside an operation
            let d = [u32::MAX, 1, u32::MAX, 2][(cache.trailing_zeros() as usize + nvars as usize + order.first().copied().unwrap_or(0) as usize) % 4];
            m.workers().set_split_depth(Some(d));
        }
        m.add_vars(nvars);
    });
    crate::kinds::set_order(&mref, order);
    mref
}

// --- complete function universe for n <= 2 ----------------------------------------------

/// All 3^(3^n) functions over n <= 2 variables in one manager + reverse map handle -> table id
pub struct World {
    pub mref: TDDManagerRef,
    pub n: u32,
    pub len: usize,
    pub order: Vec<u32>,
    pub threads: u32,
    pub cache: usize,
    /// table id -> table (first `len` entries)
    pub dec: Vec<[u8; 9]>,
    pub base: Vec<TDDFunction>,
    pub rev: HashMap<TDDFunction, u32>,
}

fn enc(t: &[u8]) -> u32 {
    t.iter().rev().fold(0u32, |acc, &x| acc * 3 + x as u32)
}

impl World {
    pub fn nfuncs(n: u32) -> usize {
        pow3(pow3(n) as u32)
    }

    pub fn t3(&self, id: u32) -> T3 {
        T3 { n: self.n, v: self.dec[id as usize][..self.len].to_vec() }
    }
    fn cfg(&self) -> String {
        format!("order {:?} threads {} cache {}", self.order, self.threads, self.cache)
    }

    pub fn build(ctx: &mut Ctx, n: u32, order: &[u32], threads: u32, nodes: usize, cache: usize) -> World {
        assert!(n <= 2);
        let mref = tdd_setup(nodes, cache, threads, n, order);
        let got = crate::kinds::current_order(&mref);
        ctx.check(got == order, "tdd:set_var_order-empty:order", || format!("requested {order:?} got {got:?}"));
        let len = pow3(n);
        let nf = Self::nfuncs(n);
        let mut w = World {
            mref,
            n,
            len,
            order: order.to_vec(),
            threads,
            cache,
            dec: Vec::with_capacity(nf),
            base: Vec::with_capacity(nf),
            rev: HashMap::with_capacity(nf),
        };
        for id in 0..nf {
            let t = T3::from_id(n, id as u64);
            debug_assert_eq!(t.id(), id as u64);
            let mut d = [0u8; 9];
            d[..len].copy_from_slice(&t.v);
            debug_assert_eq!(enc(&d[..len]) as usize, id);
            w.dec.push(d);
            let f = build_direct(&w.mref, &t, order);
            let it = interp_t3(&f);
            ctx.check(it == t, "tdd:build:interp-table", || format!("order {order:?} wanted {t} interp {it}"));
            let et = eval_t3(&f, id % 2 == 1);
            ctx.check(et == it, "tdd:eval-vs-interp", || format!("order {order:?} f={t} eval {et} interp {it}"));
            if let Some(prev) = w.rev.insert(f.clone(), id as u32) {
                ctx.violation(
                    "tdd:canonicity:distinct-functions-equal-handles",
                    format!("order {order:?} tables {} and {t}", w.t3(prev)),
                );
            }
            w.base.push(f);
        }
        ctx.count("functions", nf as u64);
        w
    }

    /// Compare result `r` with the wanted table id. Returns true iff fine.
    fn check_result(&self, ctx: &mut Ctx, r: &TDDFunction, want: u32, opname: &str, what: &dyn Fn() -> String) -> bool {
        ctx.eval();
        match self.rev.get(r) {
            Some(&got) if got == want => true,
            Some(&got) => {
                ctx.violation(
                    &format!("tdd:{opname}:wrong-table"),
                    format!("{}: {} = {} want {}", self.cfg(), what(), self.t3(got), self.t3(want)),
                );
                false
            }
            None => {
                let it = interp_t3(r);
                if it == self.t3(want) {
                    ctx.violation(
                        "tdd:canonicity:result-not-identical-to-existing-handle",
                        format!("{}: {} -> {it} (correct table, different handle)", self.cfg(), what()),
                    );
                } else {
                    ctx.violation(
                        &format!("tdd:{opname}:wrong-table"),
                        format!("{}: {} = {it} want {}", self.cfg(), what(), self.t3(want)),
                    );
                }
                false
            }
        }
    }

    #[inline]
    fn want_bin(&self, op: Op3, a: u32, b: u32) -> u32 {
        let (ta, tb) = (&self.dec[a as usize], &self.dec[b as usize]);
        let mut r = [0u8; 9];
        for i in 0..self.len {
            r[i] = op.on(ta[i], tb[i]);
        }
        enc(&r[..self.len])
    }
    #[inline]
    fn want_ite(&self, a: u32, b: u32, c: u32) -> u32 {
        let (ta, tb, tc) = (&self.dec[a as usize], &self.dec[b as usize], &self.dec[c as usize]);
        let mut r = [0u8; 9];
        for i in 0..self.len {
            r[i] = ite3(ta[i], tb[i], tc[i]);
        }
        enc(&r[..self.len])
    }
    fn is_const_id(&self, id: u32) -> bool {
        let d = &self.dec[id as usize];
        d[..self.len].iter().all(|&x| x == d[0])
    }
    fn okey(&self) -> u32 {
        self.order.first().copied().unwrap_or(0)
    }

    /// all 8 binary operators on (a, b), in the given operator order
    fn pair(&self, ctx: &mut Ctx, a: u32, b: u32, ops: &[Op3]) {
        let (f, g) = (&self.base[a as usize], &self.base[b as usize]);
        for &op in ops {
            let r = op.apply(f, g);
            let want = self.want_bin(op, a, b);
            let ok = self.check_result(ctx, &r, want, op.name(), &|| {
                format!("{} {} {}", self.t3(a), op.name(), self.t3(b))
            });
            if ok && !self.is_const_id(want) {
                ctx.distinct((op, self.n, a, b, self.okey()));
            }
        }
        ctx.count("pairs", 1);
    }

    fn triple(&self, ctx: &mut Ctx, a: u32, b: u32, c: u32) {
        let r = self.base[a as usize].ite(&self.base[b as usize], &self.base[c as usize]).unwrap();
        let want = self.want_ite(a, b, c);
        let ok = self.check_result(ctx, &r, want, "ite", &|| {
            format!("ite({}, {}, {})", self.t3(a), self.t3(b), self.t3(c))
        });
        if ok && !self.is_const_id(want) {
            ctx.distinct(("ite", self.n, a, b, c, self.okey()));
        }
        ctx.count("triples", 1);
    }

    /// constants and `var`
    fn consts(&self, ctx: &mut Ctx) {
        let n = self.n;
        let cid = |c: u8| T3::constant(n, c).id() as u32;
        self.mref.with_manager_shared(|m| {
            for (c, name, f) in [
                (F, "f", TDDFunction::f(m)),
                (T, "t", TDDFunction::t(m)),
                (U, "u", TDDFunction::u(m)),
            ] {
                let it = interp_t3(&f);
                let et = eval_t3(&f, false);
                ctx.check(it == T3::constant(n, c) && self.rev.get(&f) == Some(&cid(c)), &format!("tdd:const-{name}"), || {
                    format!("{}: TDDFunction::{name}() denotes {it}, want {}", self.cfg(), T3::constant(n, c))
                });
                ctx.check(et == it, "tdd:eval-vs-interp", || format!("{}: const {name}: eval {et} interp {it}", self.cfg()));
                ctx.check(f.cofactors().is_none(), "tdd:cofactors:none-iff-terminal", || format!("const {name}"));
            }
            for v in 0..n {
                let x = TDDFunction::var(m, v).unwrap();
                let want = T3::var(n, v);
                let it = interp_t3(&x);
                ctx.check(it == want && self.rev.get(&x) == Some(&(want.id() as u32)), "tdd:var", || {
                    format!("{}: var({v}) denotes {it} want {want}", self.cfg())
                });
                let et = eval_t3(&x, true);
                ctx.check(et == want, "tdd:var:eval", || format!("{}: var({v}) eval {et} want {want}", self.cfg()));
                // Observation only (outside the property, DESIGN.md §6.5): rustdoc says a variable without
                // a value is decided as `unknown`; record what the code does, never a violation.
                let partial = from_opt(x.eval(std::iter::empty()));
                ctx.count(&format!("observed_eval_var_with_no_args_is_{}", ch3(partial)), 1);
            }
        });
    }

    /// not / not_owned / eval (both argument orders, duplicate arguments) / cofactors
    fn unary(&self, ctx: &mut Ctx, a: u32) {
        let f = &self.base[a as usize];
        let ta = self.t3(a);
        let r = f.not().unwrap();
        let want = ta.not().id() as u32;
        let ok = self.check_result(ctx, &r, want, "not", &|| format!("not {ta}"));
        if ok && !self.is_const_id(want) {
            ctx.distinct(("not", self.n, a, self.okey()));
        }
        let r2 = f.clone().not_owned().unwrap();
        ctx.check(r2 == r, "tdd:not_owned", || format!("{}: f={ta}: not_owned differs from not", self.cfg()));

        // eval, the other argument order than in build()
        let et = eval_t3(f, a % 2 == 0);
        ctx.check(et == ta, "tdd:eval-vs-interp", || format!("{}: f={ta} eval {et}", self.cfg()));
        // rustdoc: "if the valuation for a variable is given multiple times, the last value counts"
        for i in 0..self.len {
            let mut args: Vec<(u32, Option<bool>)> = (0..self.n).map(|v| (v, opt3((digit(i, v) + 1) % 3))).collect();
            args.extend((0..self.n).map(|v| (v, opt3(digit(i, v)))));
            let got = from_opt(f.eval(args));
            ctx.check(got == ta.v[i], "tdd:eval:last-value-counts", || {
                format!("{}: f={ta} assignment #{i} given after a different one: {} want {}", self.cfg(), ch3(got), ch3(ta.v[i]))
            });
        }

        let mc = model_cofactors(&ta, &self.order);
        let c = f.cofactors();
        match (&mc, &c) {
            (None, None) => {
                ctx.check(
                    f.cofactor_true().is_none() && f.cofactor_unknown().is_none() && f.cofactor_false().is_none(),
                    "tdd:cofactor-none",
                    || format!("f={ta}"),
                );
            }
            (Some((v, mt, mu, mf)), Some((ct, cu, cf))) => {
                let want = [mt.id() as u32, mu.id() as u32, mf.id() as u32];
                let got = [self.rev.get(ct).copied(), self.rev.get(cu).copied(), self.rev.get(cf).copied()];
                ctx.check(got == [Some(want[0]), Some(want[1]), Some(want[2])], "tdd:cofactors", || {
                    format!(
                        "{}: f={ta} top var {v}: got ({},{},{}) want ({mt},{mu},{mf})",
                        self.cfg(),
                        interp_t3(ct),
                        interp_t3(cu),
                        interp_t3(cf)
                    )
                });
                let singles = (f.cofactor_true(), f.cofactor_unknown(), f.cofactor_false());
                ctx.check(
                    singles.0.as_ref() == Some(ct) && singles.1.as_ref() == Some(cu) && singles.2.as_ref() == Some(cf),
                    "tdd:cofactor_true/unknown/false-vs-cofactors",
                    || format!("{}: f={ta}", self.cfg()),
                );
                ctx.distinct(("cof", self.n, a, self.okey()));
            }
            _ => ctx.violation(
                "tdd:cofactors:none-iff-terminal",
                format!("{}: f={ta} model says {} got {}", self.cfg(), mc.is_some(), c.is_some()),
            ),
        }
    }

    /// the operator-based generic construction must hit the directly built handle
    fn by_ops(&self, ctx: &mut Ctx, a: u32) {
        let ta = self.t3(a);
        for route in 0..2 {
            let f = build_by_ops(&self.mref, &ta, route);
            self.check_result(ctx, &f, a, "build-by-ops", &|| format!("construction route {route} of {ta}"));
        }
    }

    /// structural audit, then drop everything, gc and require an empty store
    pub fn teardown(self, ctx: &mut Ctx) {
        let cfg = self.cfg();
        let World { mref, base, rev, .. } = self;
        let s = mref.with_manager_shared(|m| audit::structural(m, Rule::Tdd, &|_| false));
        ctx.eval();
        for (sig, w) in &s.errs {
            ctx.violation(&format!("tdd:structure:{sig}"), format!("{cfg}: {w}"));
        }
        ctx.count_max("max_nodes_in_store", s.nodes as u64);
        drop(rev);
        drop(base);
        let left = mref.with_manager_shared(|m| {
            m.gc();
            m.num_inner_nodes()
        });
        ctx.check(left == 0, "tdd:gc:nodes-left-after-dropping-everything", || {
            format!("{cfg}: {left} inner nodes left after dropping all handles + gc")
        });
    }
}

fn sample_ids(rng: &mut Rng, w: &World, k: usize) -> Vec<u32> {
    let nf = World::nfuncs(w.n);
    let n = w.n;
    // always include the constants, the variables and their negations
    let mut v: Vec<u32> = [F, U, T].iter().map(|&c| T3::constant(n, c).id() as u32).collect();
    for x in 0..n {
        v.push(T3::var(n, x).id() as u32);
        v.push(T3::var(n, x).not().id() as u32);
    }
    while v.len() < k {
        v.push(rng.usize(nf) as u32);
    }
    rng.shuffle(&mut v);
    v
}

fn shuffled_ops(rng: &mut Rng) -> [Op3; 8] {
    let mut o = ALL_OPS;
    rng.shuffle(&mut o);
    o
}

// --- work items -------------------------------------------------------------------------------

/// n = 1: everything exhaustively
fn one_var(ctx: &mut Ctx, threads: u32, cache: usize) {
    let w = World::build(ctx, 1, &[0], threads, 1 << 12, cache);
    w.consts(ctx);
    for a in 0..27 {
        w.unary(ctx, a);
        w.by_ops(ctx, a);
    }
    let mut rng = ctx.rng(100 + threads as u64 * 7 + cache as u64);
    for a in 0..27 {
        for b in 0..27 {
            let ops = if (a + b) % 2 == 0 { ALL_OPS } else { shuffled_ops(&mut rng) };
            w.pair(ctx, a, b, &ops);
        }
    }
    for a in 0..27 {
        for b in 0..27 {
            for c in 0..27 {
                w.triple(ctx, a, b, c);
            }
        }
    }
    ctx.sample(|| {
        format!("1 variable, threads {threads}, cache {cache}: all 27 functions, 27x27 pairs x 8 operators, 27^3 ite triples, e.g. ite(1v:FUT, 1v:UUT, 1v:TFU)")
    });
    w.teardown(ctx);
}

/// n = 2: unary checks (all functions in thorough, seeded sample in quick) + operator construction
fn two_unary(ctx: &mut Ctx, order: &[u32], threads: u32) {
    let w = World::build(ctx, 2, order, threads, 1 << 17, 1 << 12);
    w.consts(ctx);
    let nf = World::nfuncs(2) as u32;
    let mut rng = ctx.rng(200 + order[0] as u64 * 2 + threads as u64 * 5);
    if ctx.quick() {
        for a in sample_ids(&mut rng, &w, 4000) {
            w.unary(ctx, a);
        }
        for a in sample_ids(&mut rng, &w, 300) {
            w.by_ops(ctx, a);
        }
    } else {
        for a in 0..nf {
            w.unary(ctx, a);
        }
        for a in sample_ids(&mut rng, &w, 3000) {
            w.by_ops(ctx, a);
        }
        ctx.sample(|| format!("2 variables order {order:?} threads {threads}: not/not_owned/eval/cofactors on all 19683 functions"));
    }
    w.teardown(ctx);
}

/// n = 2: sampled pairs x all binary operators, sampled triples for ite
fn two_pairs(ctx: &mut Ctx, order: &[u32], threads: u32, chunk: u64, nchunks: u64) {
    let w = World::build(ctx, 2, order, threads, 1 << 17, 1 << 12);
    let mut rng = ctx.rng(300 + order[0] as u64 * 2 + threads as u64 * 5 + chunk * 17);
    // thorough: 2000 x 2000 per (order, threads) split into chunks by rows; quick: 600 x 600
    let (rows, cols) = if ctx.quick() { (600 / nchunks as usize, 600) } else { (2000 / nchunks as usize, 2000) };
    let sa = sample_ids(&mut rng, &w, rows);
    let sb = sample_ids(&mut rng, &w, cols);
    for &a in &sa {
        // f == g terminal cases
        w.pair(ctx, a, a, &ALL_OPS);
        for &b in &sb {
            if (a ^ b) & 1 == 0 {
                w.pair(ctx, a, b, &ALL_OPS);
            } else {
                let ops = shuffled_ops(&mut rng);
                w.pair(ctx, a, b, &ops);
            }
        }
    }
    ctx.sample(|| {
        format!(
            "2 variables order {order:?} threads {threads} chunk {chunk}: {} x {} sampled operand pairs x 8 operators, e.g. {} imp {}",
            sa.len(),
            sb.len(),
            w.t3(sa[0]),
            w.t3(sb[0])
        )
    });
    let ntriples = ctx.by_tier(200_000, 8_000_000) / nchunks as usize;
    let special = sample_ids(&mut rng, &w, 0);
    let nf = World::nfuncs(2);
    for _ in 0..ntriples {
        let pick = |rng: &mut Rng| if rng.chance(1, 8) { *rng.pick(&special) } else { rng.usize(nf) as u32 };
        let a = pick(&mut rng);
        let mut b = pick(&mut rng);
        let mut c = pick(&mut rng);
        match rng.below(16) {
            0 | 1 => b = a,
            2 | 3 => c = a,
            4 => c = b,
            _ => {}
        }
        w.triple(ctx, a, b, c);
    }
    w.teardown(ctx);
}

/// Tiny apply caches: different operators on the same operands back-to-back, swapped operands,
/// not / ite in between, so that every cache slot is shared by many (operator, operands) keys.
fn cache_mix(ctx: &mut Ctx, n: u32, order: &[u32], threads: u32, cache: usize) {
    let w = World::build(ctx, n, order, threads, 1 << 17, cache);
    let mut rng = ctx.rng(400 + order[0] as u64 * 2 + threads as u64 * 5 + cache as u64 * 31 + n as u64);
    let nf = World::nfuncs(n);
    let rounds = ctx.by_tier(5_000, 300_000);
    for _ in 0..rounds {
        let a = rng.usize(nf) as u32;
        let b = rng.usize(nf) as u32;
        let ops = shuffled_ops(&mut rng);
        w.pair(ctx, a, b, &ops);
        w.pair(ctx, b, a, &ops);
        if rng.chance(1, 2) {
            let c = rng.usize(nf) as u32;
            w.triple(ctx, a, b, c);
            w.triple(ctx, b, a, c);
            w.triple(ctx, c, a, b);
        }
        if rng.chance(1, 4) {
            let r = w.base[a as usize].not().unwrap();
            let want = w.t3(a).not().id() as u32;
            w.check_result(ctx, &r, want, "not", &|| format!("not {}", w.t3(a)));
        }
        // repeat the first operator: must hit the same answer again (possibly from the cache)
        w.pair(ctx, a, b, &ops[..1]);
    }
    ctx.count("cache_mix_configs", 1);
    w.teardown(ctx);
}

/// `not_edge_owned` consumes its operand edge: afterwards the operand's node must not be kept
/// alive. Control: the same sequence with `not_edge` + explicit `drop_edge`.
fn not_edge_owned(ctx: &mut Ctx, threads: u32) {
    for owned in [false, true] {
        let mref = tdd_setup(1 << 10, 1 << 6, threads, 1, &[0]);
        let ok_table = mref.with_manager_shared(|m| {
            let x = TDDFunction::var(m, 0).unwrap();
            let want = T3::var(1, 0).not();
            let e = m.clone_edge(x.as_edge(m));
            let r = if owned {
                TDDFunction::not_edge_owned(m, e).unwrap()
            } else {
                let r = TDDFunction::not_edge(m, &e).unwrap();
                m.drop_edge(e);
                r
            };
            let rf = TDDFunction::from_edge(m, r);
            interp_t3(&rf) == want
        });
        ctx.check(ok_table, "tdd:not_edge_owned:wrong-table", || format!("owned={owned}: not var(0)"));
        let left = mref.with_manager_shared(|m| {
            m.gc();
            m.num_inner_nodes()
        });
        let sig = if owned { "tdd:not_edge_owned:operand-edge-leaked" } else { "tdd:not_edge:control-leaks" };
        ctx.check(left == 0, sig, || {
            format!(
                "threads {threads}, 1 variable: x = var(0); r = {}(m, clone_edge(x)); drop r and x; gc() leaves {left} inner node(s) (want 0)",
                if owned { "not_edge_owned" } else { "not_edge + drop_edge" }
            )
        });
        ctx.count("not_edge_owned_cases", 1);
    }
}

/// `var` / `eval` with many variables (eval packs two bits per level into u32 blocks)
fn wide_eval(ctx: &mut Ctx, threads: u32) {
    let n = 40u32;
    let mut rng = ctx.rng(500 + threads as u64);
    let order = rng.perm(n as usize);
    let mref = tdd_setup(1 << 16, 1 << 8, threads, n, &order);
    let got = crate::kinds::current_order(&mref);
    ctx.check(got == order, "tdd:set_var_order-empty:order", || format!("requested {order:?} got {got:?}"));
    let vars: Vec<TDDFunction> = mref.with_manager_shared(|m| (0..n).map(|v| TDDFunction::var(m, v).unwrap()).collect());
    for round in 0..ctx.by_tier(200, 4000) {
        let a: Vec<u8> = (0..n).map(|_| rng.below(3) as u8).collect();
        let mut args: Vec<(u32, Option<bool>)> = (0..n).map(|v| (v, opt3(a[v as usize]))).collect();
        rng.shuffle(&mut args);
        let v = rng.below(n as u64) as u32;
        let got = from_opt(vars[v as usize].eval(args.iter().copied()));
        ctx.check(got == a[v as usize], "tdd:var:eval-many-vars", || {
            format!("40 variables: var({v}) under an assignment with x{v}={} evaluates to {}", ch3(a[v as usize]), ch3(got))
        });
        // a small random formula over three variables, value by the literal tables
        let (i, j, k) = (rng.below(n as u64) as u32, rng.below(n as u64) as u32, rng.below(n as u64) as u32);
        let (o1, o2) = (*rng.pick(&ALL_OPS), *rng.pick(&ALL_OPS));
        let g = o1.apply(&vars[i as usize], &vars[j as usize]);
        let h = o2.apply(&g, &vars[k as usize]);
        let want = o2.on(o1.on(a[i as usize], a[j as usize]), a[k as usize]);
        let got = from_opt(h.eval(args.iter().copied()));
        let itp = h.with_manager_shared(|m, e| interp_edge(m, e, &|v| a[v as usize]));
        ctx.check(itp == want, &format!("tdd:{}:wrong-table", o2.name()), || {
            format!("40 vars: (x{i} {} x{j}) {} x{k} under {},{},{}: interp {} want {}", o1.name(), o2.name(), ch3(a[i as usize]), ch3(a[j as usize]), ch3(a[k as usize]), ch3(itp), ch3(want))
        });
        ctx.check(got == itp, "tdd:eval-vs-interp", || {
            format!("40 vars: (x{i} {} x{j}) {} x{k}: eval {} interp {}", o1.name(), o2.name(), ch3(got), ch3(itp))
        });
        // the same assignment with the unknown variables OMITTED (documented: unknown), the rest shuffled
        let sparse: Vec<(u32, Option<bool>)> = args.iter().copied().filter(|x| x.1.is_some()).collect();
        let got_sparse = from_opt(h.eval(sparse.iter().copied()));
        ctx.check(got_sparse == itp, "tdd:eval:omitted-or-repeated-arguments", || {
            format!("40 vars, order {order:?}: (x{i} {} x{j}) {} x{k} under {},{},{} with the unknown variables omitted: eval {} interp {}", o1.name(), o2.name(), ch3(a[i as usize]), ch3(a[j as usize]), ch3(a[k as usize]), ch3(got_sparse), ch3(itp))
        });
        let got_var = from_opt(vars[v as usize].eval(sparse.iter().copied()));
        ctx.check(got_var == a[v as usize], "tdd:eval:omitted-or-repeated-arguments", || {
            format!("40 vars, order {order:?}: var({v}) (value {}) with the unknown variables omitted evaluates to {}", ch3(a[v as usize]), ch3(got_var))
        });
        ctx.distinct(("wide", i, j, k, o1, o2));
        if round % 512 == 511 {
            // intermediate results are dead by now; keep the store small
            drop((g, h));
            mref.with_manager_shared(|m| m.gc());
        }
    }
    let s = mref.with_manager_shared(|m| audit::structural(m, Rule::Tdd, &|_| false));
    for (sig, w) in &s.errs {
        ctx.violation(&format!("tdd:structure:{sig}"), format!("wide: {w}"));
    }
    drop(vars);
    let left = mref.with_manager_shared(|m| {
        m.gc();
        m.num_inner_nodes()
    });
    ctx.check(left == 0, "tdd:gc:nodes-left-after-dropping-everything", || format!("wide: {left} nodes left"));
}

#[derive(Clone, Debug)]
enum Item {
    One { threads: u32, cache: usize },
    TwoUnary { order: [u32; 2], threads: u32 },
    TwoPairs { order: [u32; 2], threads: u32, chunk: u64, nchunks: u64 },
    CacheMix { n: u32, order: [u32; 2], threads: u32, cache: usize },
    NotEdgeOwned { threads: u32 },
    Wide { threads: u32 },
}

/// Exhaustive for one variable, exhaustive/sampled for two variables in both orders
pub fn exhaustive(ctx: &mut Ctx) {
    let mut items = Vec::new();
    let nchunks = 8u64;
    // interleave heavy and light items so that shards are balanced
    for chunk in 0..nchunks {
        for threads in [1u32, 4] {
            for order in [[0u32, 1], [1, 0]] {
                items.push(Item::TwoPairs { order, threads, chunk, nchunks });
            }
        }
    }
    for threads in [1u32, 4] {
        for order in [[0u32, 1], [1, 0]] {
            items.push(Item::TwoUnary { order, threads });
        }
    }
    for threads in [1u32, 4] {
        items.push(Item::One { threads, cache: 1 << 10 });
        items.push(Item::One { threads, cache: 1 });
        items.push(Item::One { threads, cache: 4 });
    }
    for (k, cache) in [1usize, 2, 4, 16, 64].into_iter().enumerate() {
        for order in [[0u32, 1], [1, 0]] {
            items.push(Item::CacheMix { n: 2, order, threads: if k % 2 == 0 { 1 } else { 4 }, cache });
        }
    }
    for threads in [1u32, 4] {
        items.push(Item::NotEdgeOwned { threads });
        items.push(Item::Wide { threads });
    }
    for (i, it) in items.iter().enumerate() {
        if !ctx.mine(i) {
            continue;
        }
        println!("@@{{\"t\":\"case\",\"case\":{}}}", crate::ctx::json_str(&format!("{it:?}")));
        match *it {
            Item::One { threads, cache } => one_var(ctx, threads, cache),
            Item::TwoUnary { order, threads } => two_unary(ctx, &order, threads),
            Item::TwoPairs { order, threads, chunk, nchunks } => two_pairs(ctx, &order, threads, chunk, nchunks),
            Item::CacheMix { n, order, threads, cache } => cache_mix(ctx, n, &order[..n as usize], threads, cache),
            Item::NotEdgeOwned { threads } => not_edge_owned(ctx, threads),
            Item::Wide { threads } => wide_eval(ctx, threads),
        }
        ctx.count("configs", 1);
    }
}

// --- random expression DAGs over 3..4 variables -----------------------------------------------

/// Random operator applications over 3 or 4 (thorough: also 5) variables under a random order; every
/// result is compared (full table, 27 / 81 / 243 assignments) with the pointwise model, `eval` with the
/// interpreter, and handles are equal iff tables are equal.
pub fn random(ctx: &mut Ctx) {
    let nruns = ctx.by_tier(32, 192);
    for run in 0..nruns {
        if !ctx.mine(run) {
            continue;
        }
        let mut rng = ctx.rng(600 + run as u64);
        let n = if ctx.quick() { 3 + (run as u32 % 2) } else { 3 + (run as u32 % 3) };
        let threads = if run % 4 < 2 { 1 } else { 4 };
        let cache = *rng.pick(&[1usize, 8, 64, 1 << 12]);
        let mut order = rng.perm(n as usize);
        println!("@@{{\"t\":\"case\",\"case\":{}}}", crate::ctx::json_str(&format!("random run {run} n {n} order {order:?} threads {threads} cache {cache}")));
        let mref = tdd_setup(1 << 18, cache, threads, n, &order);
        let got = crate::kinds::current_order(&mref);
        ctx.check(got == order, "tdd:set_var_order-empty:order", || format!("requested {order:?} got {got:?}"));
        let cfg = format!("order {order:?} threads {threads} cache {cache}");

        let mut pool: Vec<(TDDFunction, T3)> = Vec::new();
        let mut by_table: HashMap<T3, TDDFunction> = HashMap::new();
        let mut by_handle: HashMap<TDDFunction, usize> = HashMap::new();
        let add = |ctx: &mut Ctx,
                       pool: &mut Vec<(TDDFunction, T3)>,
                       by_table: &mut HashMap<T3, TDDFunction>,
                       by_handle: &mut HashMap<TDDFunction, usize>,
                       f: TDDFunction,
                       want: T3,
                       opname: &str,
                       what: &dyn Fn() -> String|
         -> bool {
            let it = interp_t3(&f);
            let ok = ctx.check(it == want, &format!("tdd:{opname}:wrong-table"), || {
                format!("{cfg}: {} = {it} want {want}", what())
            });
            let et = eval_t3(&f, pool.len() % 2 == 0);
            ctx.check(et == it, "tdd:eval-vs-interp", || format!("{cfg}: {} eval {et} interp {it}", what()));
            if pool.len() % 8 == 3 {
                let st = eval_t3_sparse(&f);
                ctx.check(st == it, "tdd:eval:omitted-or-repeated-arguments", || {
                    format!("{cfg}: {}: eval with unknown variables omitted / values repeated gives {st}, interpretation {it}", what())
                });
            }
            // canonicity both ways, keyed on the interpreted table
            match by_table.get(&it) {
                Some(h) => {
                    ctx.check(*h == f, "tdd:canonicity:result-not-identical-to-existing-handle", || {
                        format!("{cfg}: {} -> {it}", what())
                    });
                }
                None => {
                    if let Some(&k) = by_handle.get(&f) {
                        ctx.violation(
                            "tdd:canonicity:distinct-functions-equal-handles",
                            format!("{cfg}: {} -> {it} but handle equals that of {}", what(), pool[k].1),
                        );
                    }
                    by_table.insert(it.clone(), f.clone());
                }
            }
            by_handle.entry(f.clone()).or_insert(pool.len());
            pool.push((f, it));
            ok
        };

        mref.with_manager_shared(|m| {
            for (c, f) in [(F, TDDFunction::f(m)), (T, TDDFunction::t(m))] {
                add(ctx, &mut pool, &mut by_table, &mut by_handle, f, T3::constant(n, c), "const", &|| format!("const {}", ch3(c)));
            }
            let u = TDDFunction::from_edge(m, m.get_terminal(TDDTerminal::Unknown).unwrap());
            add(ctx, &mut pool, &mut by_table, &mut by_handle, u, T3::constant(n, U), "const", &|| "terminal U".into());
            for v in 0..n {
                let x = TDDFunction::var(m, v).unwrap();
                add(ctx, &mut pool, &mut by_table, &mut by_handle, x, T3::var(n, v), "var", &|| format!("var({v})"));
            }
        });
        // a few directly built random functions as operands with rich structure
        for _ in 0..12 {
            let t = T3::from_fn(n, |_| rng.below(3) as u8);
            let f = build_direct(&mref, &t, &order);
            add(ctx, &mut pool, &mut by_table, &mut by_handle, f, t.clone(), "build", &|| format!("direct {t}"));
        }
        ctx.count("functions", pool.len() as u64);

        let steps = ctx.by_tier(3000, 8000);
        for _ in 0..steps {
            // prefer recent results so that expressions get deep
            let pick = |rng: &mut Rng| {
                let l = pool.len();
                if rng.chance(1, 2) { l - 1 - rng.usize(l.min(24)) } else { rng.usize(l) }
            };
            let (a, b, c) = (pick(&mut rng), pick(&mut rng), pick(&mut rng));
            match rng.below(12) {
                0 => {
                    let r = pool[a].0.not().unwrap();
                    let want = pool[a].1.not();
                    let wit = format!("not {}", pool[a].1);
                    add(ctx, &mut pool, &mut by_table, &mut by_handle, r, want, "not", &|| wit.clone());
                }
                1..=3 => {
                    let r = pool[a].0.ite(&pool[b].0, &pool[c].0).unwrap();
                    let want = pool[a].1.ite(&pool[b].1, &pool[c].1);
                    let wit = format!("ite({}, {}, {})", pool[a].1, pool[b].1, pool[c].1);
                    let nonconst = want.is_const().is_none();
                    if add(ctx, &mut pool, &mut by_table, &mut by_handle, r, want, "ite", &|| wit.clone()) && nonconst {
                        ctx.distinct(("ite", wit.clone()));
                    }
                    ctx.count("triples", 1);
                }
                _ => {
                    let op = *rng.pick(&ALL_OPS);
                    let r = op.apply(&pool[a].0, &pool[b].0);
                    let want = pool[a].1.op(op, &pool[b].1);
                    let wit = format!("{} {} {}", pool[a].1, op.name(), pool[b].1);
                    let nonconst = want.is_const().is_none();
                    if add(ctx, &mut pool, &mut by_table, &mut by_handle, r, want, op.name(), &|| wit.clone()) && nonconst {
                        ctx.distinct((op.name(), wit.clone()));
                    }
                    ctx.count("pairs", 1);
                }
            }
            // cofactors of the newest result
            let (f, t) = pool.last().unwrap();
            let mc = model_cofactors(t, &order);
            match (mc, f.cofactors()) {
                (None, None) => ctx.eval(),
                (Some((v, mt, mu, mf)), Some((ct, cu, cf))) => {
                    let got = (interp_t3(&ct), interp_t3(&cu), interp_t3(&cf));
                    ctx.check(got.0 == mt && got.1 == mu && got.2 == mf, "tdd:cofactors", || {
                        format!("{cfg}: f={t} top var {v}: got ({},{},{}) want ({mt},{mu},{mf})", got.0, got.1, got.2)
                    });
                }
                (mc, c) => ctx.violation(
                    "tdd:cofactors:none-iff-terminal",
                    format!("{cfg}: f={t} model says {} got {}", mc.is_some(), c.is_some()),
                ),
            }
            if pool.len() > 600 {
                // forget old results (keeps the store small, lets nodes die)
                let keep = pool.split_off(pool.len() - 200);
                pool = keep;
                by_table.clear();
                by_handle.clear();
                for (k, (f, t)) in pool.iter().enumerate() {
                    by_table.entry(t.clone()).or_insert_with(|| f.clone());
                    by_handle.entry(f.clone()).or_insert(k);
                }
                if rng.chance(1, 2) {
                    mref.with_manager_shared(|m| m.gc());
                    ctx.count("gcs", 1);
                }
                // reordering with 200 live functions (and dead nodes unless the gc above ran): every
                // handle keeps its table, the structure stays reduced, rebuilt functions are identical
                let mut req = rng.perm(n as usize);
                if rng.chance(1, 3) {
                    req.truncate(2);
                }
                let seq = rng.chance(1, 3);
                mref.with_manager_exclusive(|m| if seq { oxidd_reorder::set_var_order_seq(m, &req) } else { oxidd_reorder::set_var_order(m, &req) });
                let after = crate::kinds::current_order(&mref);
                ctx.check(crate::mon::c08::consistent(&after, &req), "tdd:set_var_order:requested-relative-order", || format!("{cfg}: request {req:?} after {after:?}"));
                order = after;
                for (f, t) in pool.iter() {
                    let it = interp_t3(f);
                    if !ctx.check(it == *t, "tdd:set_var_order:handle-changed-function", || format!("{cfg}: new order {order:?}: {t} became {it}")) {
                        break;
                    }
                }
                let s = mref.with_manager_shared(|m| audit::structural(m, Rule::Tdd, &|_| false));
                for (sig, w) in s.errs.iter().take(3) {
                    ctx.violation(&format!("tdd:structure:{sig}"), format!("{cfg}: after set_var_order to {order:?}: {w}"));
                }
                for k in [0usize, pool.len() / 2, pool.len() - 1] {
                    let g = build_direct(&mref, &pool[k].1, &order);
                    ctx.check(g == pool[k].0, "tdd:set_var_order:rebuilt-function-differs-from-surviving-handle", || format!("{cfg}: new order {order:?}: {}", pool[k].1));
                }
                ctx.count("reorderings_with_live_nodes", 1);
            }
        }
        let s = mref.with_manager_shared(|m| audit::structural(m, Rule::Tdd, &|_| false));
        ctx.eval();
        for (sig, w) in &s.errs {
            ctx.violation(&format!("tdd:structure:{sig}"), format!("{cfg}: {w}"));
        }
        drop(pool);
        drop(by_table);
        drop(by_handle);
        let left = mref.with_manager_shared(|m| {
            m.gc();
            m.num_inner_nodes()
        });
        ctx.check(left == 0, "tdd:gc:nodes-left-after-dropping-everything", || {
            format!("{cfg}: {left} inner nodes left after dropping all handles + gc")
        });
        ctx.count("configs", 1);
    }
    ctx.sample(|| "random operator DAGs over 3, 4 (thorough: 5) variables, random orders, full 27/81/243-entry tables".into());
}
