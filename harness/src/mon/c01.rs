//! C01 — canonicity after any history (plus the shared history runner used by C03/C05)

use oxidd::{HasLevel, HasWorkers};
use oxidd_core::function::INodeOfFunc;

use crate::hist::*;
use crate::kinds::*;
use crate::Ctx;

pub struct HistCfg {
    pub steps: usize,
    pub audit_every: usize,
    pub nodes: usize,
    pub cache: usize,
    pub threads: u32,
    pub nvars: u32,
    pub profile: Profile,
    pub oom_ok: bool,
}

/// Run one random history; audits every `audit_every` steps and at the end; teardown check.
pub fn run_history<K: BoolKind>(ctx: &mut Ctx, cfg: &HistCfg, hseed: u64, label: &str)
where
    for<'id> MgrOf<'id, K>: HasWorkers,
    for<'x> INodeOfFunc<'x, K::F>: HasLevel,
{
    let mut rng = crate::rng::Rng::new(hseed);
    let mut w = World::<K>::new(cfg.nodes, cfg.cache, cfg.threads, cfg.nvars, format!("{label} kind={} hseed={hseed}", K::NAME));
    w.oom_ok = cfg.oom_ok;
    println!("@@{{\"t\":\"case\",\"case\":{}}}", crate::ctx::json_str(&w.label));
    for i in 0..cfg.steps {
        let op = gen_op(&mut rng, w.n, w.hs.len(), K::HAS_QUANT, &cfg.profile);
        if i == 0 {
            ctx.sample(|| format!("{}: first ops {:?} ...", w.label, op));
        }
        w.step(ctx, &op);
        if ctx.num_violations() > 50 {
            return;
        }
        if cfg.audit_every > 0 && (i + 1) % cfg.audit_every == 0 {
            w.audit(ctx, "periodic");
        }
    }
    w.audit(ctx, "end of history");
    ctx.count("history_steps", w.steps);
    ctx.count("failed_operations_oom", w.ooms);
    ctx.count("background_gcs_observed", w.background_gcs());
    ctx.count("histories", 1);
    w.teardown(ctx);
}

pub fn random_histories(ctx: &mut Ctx) {
    let nh = ctx.by_tier(6, 60);
    let steps = ctx.by_tier(300, 1200);
    let mut rng = ctx.rng(0xC01);
    for h in 0..nh {
        for kind in 0..3 {
            let threads = if h % 3 == 2 { 4 } else { 1 };
            let nvars = 3 + (h % 4) as u32;
            let mut profile = Profile::default();
            if kind == 2 {
                profile.reorder = crate::known::ZBDD_REORDER_IN_HISTORIES;
            }
            let cfg = HistCfg { steps, audit_every: 25, nodes: 1 << 14, cache: 1 << (2 + (h % 5) * 2), threads, nvars, profile, oom_ok: false };
            let hseed = rng.next();
            let label = format!("c01 h={h} threads={threads} nvars={nvars}");
            match kind {
                0 => run_history::<Bdd>(ctx, &cfg, hseed, &label),
                1 => run_history::<Bcdd>(ctx, &cfg, hseed, &label),
                _ => run_history::<Zbdd>(ctx, &cfg, hseed, &label),
            }
        }
    }
}
