//! C01 — canonicity after any history (plus the shared history runner used by C03/C05)

use oxidd::{HasLevel, HasWorkers};
use oxidd_core::function::INodeOfFunc;

use crate::hist::*;
use crate::kinds::*;
use crate::Ctx;

pub struct HistCfg {
    pub steps: usize,
    pub audit_every: usize,
    pub nodes: usize,
    pub cache: usize,
    pub threads: u32,
    pub nvars: u32,
    pub profile: Profile,
    pub oom_ok: bool,
}

/// Execute a fixed op list (audits as configured); returns the world's trace length
fn exec_ops<K: BoolKind>(ctx: &mut Ctx, cfg: &HistCfg, ops: &[Op], label: String) -> (u64, u64, u64)
where
    for<'id> MgrOf<'id, K>: HasWorkers,
    for<'x> INodeOfFunc<'x, K::F>: HasLevel,
{
    let mut w = World::<K>::new(cfg.nodes, cfg.cache, cfg.threads, cfg.nvars, label);
    w.oom_ok = cfg.oom_ok;
    for (i, op) in ops.iter().enumerate() {
        w.step(ctx, op);
        if cfg.audit_every > 0 && (i + 1) % cfg.audit_every == 0 {
            w.audit(ctx, "periodic");
        }
    }
    w.audit(ctx, "end of history");
    let r = (w.steps, w.ooms, w.background_gcs());
    w.teardown(ctx);
    r
}

/// Delta-debugging style minimisation: delete chunks of the history as long as a violation with
/// signature `sig` still appears. Deterministic single-threaded histories only.
pub fn minimize<K: BoolKind>(ctx: &Ctx, cfg: &HistCfg, ops: &[Op], sig: &str) -> Vec<Op>
where
    for<'id> MgrOf<'id, K>: HasWorkers,
    for<'x> INodeOfFunc<'x, K::F>: HasLevel,
{
    let fails = |ops: &[Op]| -> bool {
        let mut sc = ctx.scratch();
        let r = crate::ctx::catch(|| exec_ops::<K>(&mut sc, cfg, ops, "minimize".into()));
        r.is_ok() && sc.has_sig(sig)
    };
    let mut cur = ops.to_vec();
    if !fails(&cur) {
        return cur;
    }
    let mut chunk = cur.len() / 2;
    let mut budget = 400;
    while chunk >= 1 && budget > 0 {
        let mut i = 0;
        let mut progressed = false;
        while i < cur.len() && budget > 0 {
            let end = (i + chunk).min(cur.len());
            let mut cand = cur[..i].to_vec();
            cand.extend_from_slice(&cur[end..]);
            budget -= 1;
            if !cand.is_empty() && fails(&cand) {
                cur = cand;
                progressed = true;
            } else {
                i += chunk;
            }
        }
        if !progressed || chunk == 1 {
            if chunk == 1 {
                break;
            }
        }
        chunk /= 2;
    }
    cur
}

/// Run one random history; audits every `audit_every` steps and at the end; teardown check.
/// The first violated signature of a history is minimised and reported once more with the
/// short witness (sig suffix `#min`, same known-finding matching rules apply to the base sig).
pub fn run_history<K: BoolKind>(ctx: &mut Ctx, cfg: &HistCfg, hseed: u64, label: &str)
where
    for<'id> MgrOf<'id, K>: HasWorkers,
    for<'x> INodeOfFunc<'x, K::F>: HasLevel,
{
    let mut rng = crate::rng::Rng::new(hseed);
    let lbl = format!("{label} kind={} hseed={hseed}", K::NAME);
    println!("@@{{\"t\":\"case\",\"case\":{}}}", crate::ctx::json_str(&lbl));
    // ops are generated against the evolving world (they depend on #live handles and #vars only)
    let mut w = World::<K>::new(cfg.nodes, cfg.cache, cfg.threads, cfg.nvars, lbl.clone());
    w.oom_ok = cfg.oom_ok;
    let before: std::collections::BTreeSet<String> = ctx.sigs().into_iter().collect();
    let mut ops = Vec::with_capacity(cfg.steps);
    for i in 0..cfg.steps {
        let op = gen_op(&mut rng, w.n, w.hs.len(), K::HAS_QUANT, &cfg.profile);
        w.step(ctx, &op);
        ops.push(op);
        if i == 11 {
            ctx.sample(|| format!("{} ({} steps, audit every {}): first ops {:?} ...", w.label, cfg.steps, cfg.audit_every, &ops));
        }
        if ctx.num_violations() > 50 {
            break;
        }
        if cfg.audit_every > 0 && (i + 1) % cfg.audit_every == 0 {
            w.audit(ctx, "periodic");
        }
    }
    w.audit(ctx, "end of history");
    ctx.count("history_steps", w.steps);
    ctx.count("failed_operations_oom", w.ooms);
    ctx.count("background_gcs_observed", w.background_gcs());
    ctx.count("histories", 1);
    w.teardown(ctx);
    let new_sigs: Vec<String> = ctx.sigs().into_iter().filter(|s| !before.contains(s)).collect();
    if let Some(sig) = new_sigs.first() {
        if cfg.threads == 1 && !(cfg.nodes >= 100 && cfg.oom_ok) {
            let small = minimize::<K>(ctx, cfg, &ops, sig);
            println!(
                "@@{{\"t\":\"note\",\"sig\":{},\"minimized\":{}}}",
                crate::ctx::json_str(sig),
                crate::ctx::json_str(&format!("{lbl} nvars={} cache={} nodes={}: {:?}", cfg.nvars, cfg.cache, cfg.nodes, small))
            );
            eprintln!("[minimized] {sig}: nvars={} cache={} nodes={}: {:?}", cfg.nvars, cfg.cache, cfg.nodes, small);
        }
    }
}

pub fn random_histories(ctx: &mut Ctx) {
    let nh = ctx.by_tier(20, 600);
    let steps = ctx.by_tier(400, 1500);
    let mut rng = ctx.rng(0xC01);
    for h in 0..nh {
        for kind in 0..3 {
            let threads = if h % 3 == 2 { 4 } else { 1 };
            let nvars = 3 + (h % 4) as u32;
            let mut profile = Profile::default();
            if kind == 2 {
                profile.reorder = crate::known::ZBDD_REORDER_IN_HISTORIES;
            }
            let cfg = HistCfg { steps, audit_every: 25, nodes: 1 << 14, cache: 1 << (2 + (h % 5) * 2), threads, nvars, profile, oom_ok: false };
            let hseed = rng.next();
            let label = format!("c01 h={h} threads={threads} nvars={nvars}");
            match kind {
                0 => run_history::<Bdd>(ctx, &cfg, hseed, &label),
                1 => run_history::<Bcdd>(ctx, &cfg, hseed, &label),
                _ => run_history::<Zbdd>(ctx, &cfg, hseed, &label),
            }
        }
    }
}
