//! C03 — stored diagram ordered, reduced, duplicate-free; level bookkeeping consistent.
//! The structural audit (audit.rs) runs after EVERY step of histories that are rich in
//! reordering, variable additions (named and unnamed) and failing (out-of-memory) operations.

use crate::hist::Profile;
use crate::kinds::*;
use crate::mon::c01::{HistCfg, run_history};
use crate::Ctx;

pub fn histories(ctx: &mut Ctx) {
    let nh = ctx.by_tier(12, 400);
    let steps = ctx.by_tier(150, 500);
    let mut rng = ctx.rng(0xC03);
    for h in 0..nh {
        for kind in 0..3 {
            // three flavours: reorder-heavy, variable-addition-heavy, capacity-starved
            let flavour = h % 3;
            let mut profile = Profile { max_vars: 8, ..Profile::default() };
            let mut nodes = 1 << 14;
            let mut oom = false;
            match flavour {
                0 => {}
                1 => profile.max_vars = 10,
                _ => {
                    // below 100 slots the background collector is off: deterministic
                    nodes = rng.range(24, 99);
                    oom = true;
                    // reordering / ZBDD variable creation have no error channel (abort when out of
                    // nodes; recorded under C14), keep them out of starved histories
                    profile.reorder = false;
                    profile.add_vars = kind != 2;
                    profile.from_table = true;
                }
            }
            if kind == 2 {
                profile.reorder = profile.reorder && crate::known::ZBDD_REORDER_IN_HISTORIES;
            }
            let cfg = HistCfg {
                steps,
                audit_every: 1,
                nodes,
                cache: 1 << rng.range(1, 10),
                threads: if h % 4 == 3 { 4 } else { 1 },
                nvars: rng.range(3, 5) as u32,
                profile,
                oom_ok: oom,
            };
            let hseed = rng.next();
            let label = format!("c03 h={h} flavour={flavour} nodes={nodes}");
            match kind {
                0 => run_history::<Bdd>(ctx, &cfg, hseed, &label),
                1 => run_history::<Bcdd>(ctx, &cfg, hseed, &label),
                _ => run_history::<Zbdd>(ctx, &cfg, hseed, &label),
            }
        }
    }
}
