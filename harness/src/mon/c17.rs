//! C17 — open-addressing table (`linear_hashtbl::raw::RawTable`) against a set model
//!
//! Oracle: `Model`, a direct-address set (key -> tag of the element that was inserted last and
//! not removed since), written here; plus (under `--cfg oxidd_verif`) the in-crate hook
//! `RawTable::verif_audit()` / `verif_stats()` and the probe-step bound that turns a diverging
//! probe loop into the panic "verif: probe cycle".
//!
//! Elements are `Elem { key, tag }`; equality closures compare the key only, so a stale element
//! (same key, older tag) is distinguishable from the right one. `Elem` counts its live instances
//! per key (`LIVE`), so "contains exactly the elements inserted and not since removed" is also
//! checked at the ownership level (no element dropped twice, none leaked by the table).
//!
//! Monitors: `c17_exh` (`exhaustive`), `c17_rand` (`random`).

use std::cell::Cell;
use std::mem::ManuallyDrop;

use linear_hashtbl::raw::{RawTable, Status};

use crate::ctx::{catch, json_str};
use crate::rng::Rng;
use crate::Ctx;

// === elements with live-instance accounting =================================================

const MAXK: usize = 2048;

thread_local! {
    static LIVE: [Cell<i32>; MAXK] = const { [const { Cell::new(0) }; MAXK] };
}

fn live_add(key: u32, d: i32) {
    LIVE.with(|l| {
        let c = &l[key as usize];
        c.set(c.get() + d);
    });
}
fn live_get(key: u32) -> i32 {
    LIVE.with(|l| l[key as usize].get())
}
fn live_reset() {
    LIVE.with(|l| l.iter().for_each(|c| c.set(0)));
}

pub struct Elem {
    key: u32,
    tag: u32,
}
impl Elem {
    fn new(key: u32, tag: u32) -> Self {
        live_add(key, 1);
        Elem { key, tag }
    }
}
impl Clone for Elem {
    fn clone(&self) -> Self {
        Elem::new(self.key, self.tag)
    }
}
impl Drop for Elem {
    fn drop(&mut self) {
        live_add(self.key, -1);
    }
}

// === reference model ========================================================================

/// Set of (key, tag) with at most one tag per key; `tag[k] == 0` means "k absent".
#[derive(Clone)]
struct Model {
    tag: Vec<u32>,
    n: usize,
}
impl Model {
    fn new(universe: u32) -> Self {
        Model { tag: vec![0; universe as usize], n: 0 }
    }
    fn get(&self, k: u32) -> Option<u32> {
        match self.tag.get(k as usize) {
            Some(&t) if t != 0 => Some(t),
            _ => None,
        }
    }
    fn insert(&mut self, k: u32, t: u32) {
        debug_assert!(t != 0);
        if self.tag[k as usize] == 0 {
            self.n += 1;
        }
        self.tag[k as usize] = t;
    }
    fn remove(&mut self, k: u32) -> Option<u32> {
        let t = self.tag[k as usize];
        if t != 0 {
            self.tag[k as usize] = 0;
            self.n -= 1;
            Some(t)
        } else {
            None
        }
    }
    fn clear(&mut self) {
        self.tag.iter_mut().for_each(|t| *t = 0);
        self.n = 0;
    }
    fn keys(&self) -> impl Iterator<Item = u32> + '_ {
        self.tag.iter().enumerate().filter(|(_, t)| **t != 0).map(|(k, _)| k as u32)
    }
}

// === hash functions =========================================================================

#[derive(Clone, Copy, PartialEq, Eq, Hash, Debug)]
pub enum HashKind {
    /// every key hashes to 0
    Equal0,
    /// every key hashes to u64::MAX: home slot is the last slot, every cluster wraps around
    EqualMax,
    /// equal in the low 29 bits, different above (bits 29..): same home slot for every capacity
    /// used here, different status words; some pairs differ only in bits >= 31, i.e. have the
    /// same `u32` status but different 64-bit hashes
    HighOnly,
    /// pairs of keys share a home slot; homes 30, 31, 32, ..: consecutive clusters that wrap
    /// around the end of a 16- and a 32-slot table
    WrapPairs,
    /// groups of 12 keys share a home slot, homes 10, 26, 42, .. (all = 10 mod 16)
    Cluster,
    /// hash = key
    Identity,
    /// hash = key * 0x9E3779B97F4A7C15
    MulOdd,
}

impl HashKind {
    fn h(self, k: u32) -> u64 {
        let k = k as u64;
        match self {
            HashKind::Equal0 => 0,
            HashKind::EqualMax => u64::MAX,
            HashKind::HighOnly => 3 | ((k + 1) << 29),
            HashKind::WrapPairs => 30 + k / 2,
            HashKind::Cluster => (k / 12) * 16 + 10,
            HashKind::Identity => k,
            HashKind::MulOdd => k.wrapping_mul(0x9E37_79B9_7F4A_7C15),
        }
    }
}

// === operations =============================================================================

#[derive(Clone, Copy, PartialEq, Eq, Hash, Debug)]
pub enum Op {
    /// find_or_find_insert_slot + insert_in_slot_unchecked if absent
    Ins(u32),
    /// remove_entry
    Rem(u32),
    /// find + remove_at_slot_unchecked
    RemAt(u32),
    /// retain(key % m != r)  (RetMod(2, 1) = "retain even keys")
    RetMod(u32, u32),
    /// retain(|_| false)
    RetNone,
    /// drain, consumed completely
    Drain,
    /// drain, half of the elements taken, then the iterator is dropped
    DrainHalf,
    Clear,
    ClearNoDrop,
    ResetNoDrop,
    Reserve(u32),
    /// clone the table, check both, drop the original, continue on the clone
    CloneSwap,
}

impl Op {
    fn kind(self) -> &'static str {
        match self {
            Op::Ins(_) => "insert",
            Op::Rem(_) => "remove_entry",
            Op::RemAt(_) => "remove_at_slot",
            Op::RetMod(..) => "retain",
            Op::RetNone => "retain",
            Op::Drain => "drain",
            Op::DrainHalf => "drain",
            Op::Clear => "clear",
            Op::ClearNoDrop => "clear_no_drop",
            Op::ResetNoDrop => "reset_no_drop",
            Op::Reserve(_) => "reserve",
            Op::CloneSwap => "clone",
        }
    }
    fn short(self) -> String {
        match self {
            Op::Ins(k) => format!("i{k}"),
            Op::Rem(k) => format!("r{k}"),
            Op::RemAt(k) => format!("ra{k}"),
            Op::RetMod(2, 1) => "retain-even".into(),
            Op::RetMod(m, r) => format!("retain(k%{m}!={r})"),
            Op::RetNone => "retain-none".into(),
            Op::Drain => "drain".into(),
            Op::DrainHalf => "drain-half".into(),
            Op::Clear => "clear".into(),
            Op::ClearNoDrop => "clear_no_drop".into(),
            Op::ResetNoDrop => "reset_no_drop".into(),
            Op::Reserve(n) => format!("reserve({n})"),
            Op::CloneSwap => "clone".into(),
        }
    }
}

fn show_ops(ops: &[Op]) -> String {
    const HALF: usize = 40;
    let words = |r: &[Op]| r.iter().map(|o| o.short()).collect::<Vec<_>>().join(" ");
    if ops.len() <= 2 * HALF {
        words(ops)
    } else {
        format!("{} ... <{} ops omitted> ... {}", words(&ops[..HALF]), ops.len() - 2 * HALF, words(&ops[ops.len() - HALF..]))
    }
}

// === status types ===========================================================================

pub trait SName: Status {
    const NAME: &'static str;
}
impl SName for u32 {
    const NAME: &'static str = "u32";
}
impl SName for usize {
    const NAME: &'static str = "usize";
}

// === engine =================================================================================

#[derive(Clone, Copy, PartialEq, Eq, Debug)]
enum Level {
    /// only the checks on the values the operation itself returns (+ safety guards)
    Quiet,
    /// + len, lookup of the touched key, audit hook
    Touch,
    /// + full comparison with the model
    Full,
}

#[derive(Clone, Debug)]
struct Fail {
    /// "<S>:<op kind>:<clause>"
    sig: String,
    detail: String,
    /// the table can still be used (accounting defect that is not yet observable)
    benign: bool,
}

fn fail<S: SName>(op: &str, clause: &str, detail: String) -> Fail {
    Fail { sig: format!("{}:{}:{}", S::NAME, op, clause), detail, benign: false }
}

/// What the operation did to the table layout (for evidence)
#[derive(Default, Clone, Copy)]
struct Effect {
    changed: bool,
    grew: bool,
    rehash_or_shrink: bool,
}

struct Credit {
    slots: usize,
    left: u32,
}

struct St<S: SName> {
    /// never dropped implicitly: after a panic inside the table its fields may be inconsistent
    t: ManuallyDrop<RawTable<Elem, S>>,
    m: Model,
    hk: HashKind,
    universe: u32,
    /// reserve(n) promise still open: (slots at that time, insertions left)
    credit: Option<Credit>,
    tomb_max: u64,
    evals: u64,
    /// a benign accounting defect (`free` over-count) exists already and has been (or will
    /// be, by the sequence where it arises) reported: do not report it again for every
    /// operation that merely inherits it
    tainted: bool,
    /// the state before the next operation has been audited already (end of the last step)
    audited: bool,
    /// number of tombstones seen by the last audit (0 without the hook)
    last_tomb: usize,
}

#[derive(Clone, Copy, PartialEq, Eq, Hash, Debug)]
pub enum Ctor {
    New,
    Default,
    WithCap(usize),
}

impl<S: SName> St<S> {
    fn new(ctor: Ctor, hk: HashKind, universe: u32) -> Self {
        let t = match ctor {
            Ctor::New => RawTable::new(),
            Ctor::Default => RawTable::default(),
            Ctor::WithCap(n) => RawTable::with_capacity(n),
        };
        St { t: ManuallyDrop::new(t), m: Model::new(universe), hk, universe, credit: None, tomb_max: 0, evals: 0, tainted: false, audited: false, last_tomb: 0 }
    }

    /// Positions (slot indices) of all model elements; only used while a reserve promise is open
    fn positions(&self) -> Vec<(u32, Option<usize>)> {
        self.m.keys().map(|k| (k, self.t.find(self.hk.h(k), |e| e.key == k))).collect()
    }

    #[cfg(oxidd_verif)]
    fn tombstones(&self) -> usize {
        self.t.verif_stats().tombstone_slots
    }
    #[cfg(not(oxidd_verif))]
    fn tombstones(&self) -> usize {
        0
    }

    /// `Err` iff using the table any further would be memory-unsafe (independent of `Level`)
    fn safety_guard(&self, op: Op) -> Result<(), Fail> {
        #[cfg(oxidd_verif)]
        if self.t.slots() == 0 {
            let s = self.t.verif_stats();
            if s.free != 0 {
                // `reserve()` would skip the allocation and the probe loop would index an
                // empty slice with `hash & usize::MAX`
                return Err(fail::<S>(
                    op.kind(),
                    "audit:free-overcount",
                    format!("0 slots but free field = {}", s.free),
                ));
            }
        }
        let _ = op;
        Ok(())
    }

    fn audit(&mut self, op: Op) -> Result<(), Fail> {
        #[cfg(oxidd_verif)]
        {
            self.evals += 1;
            let s = self.t.verif_stats();
            self.tomb_max = self.tomb_max.max(s.tombstone_slots as u64);
            self.last_tomb = s.tombstone_slots;
            if let Err(msg) = self.t.verif_audit() {
                let clause = msg.split(':').next().unwrap_or("?").to_string();
                let mut f = fail::<S>(op.kind(), &format!("audit:{clause}"), msg);
                // an over-count alone does not break anything yet: keep going so that the
                // consequence (table without FREE slot, diverging lookup) becomes visible
                f.benign = clause == "free-overcount" && s.slots != 0;
                return Err(f);
            }
        }
        let _ = op;
        Ok(())
    }

    /// lookup of one key through every lookup function, compared with the model
    fn check_key(&mut self, op: Op, k: u32) -> Result<(), Fail> {
        let kind = op.kind();
        let hv = self.hk.h(k);
        let want = self.m.get(k);
        let m = &self.m;
        let bad_eq = Cell::new(None);
        let eq = |e: &Elem| {
            if m.get(e.key) != Some(e.tag) {
                bad_eq.set(Some((e.key, e.tag)));
            }
            e.key == k
        };
        let found = self.t.find(hv, eq);
        self.evals += 1;
        if let Some((bk, bt)) = bad_eq.get() {
            return Err(fail::<S>(kind, "find:eq-called-on-absent-entry", format!("find({k}) called eq on (key {bk}, tag {bt}), not in the table")));
        }
        match (found, want) {
            (None, None) => {
                if self.t.get(hv, |e| e.key == k).is_some() || self.t.get_mut(hv, |e| e.key == k).is_some() {
                    return Err(fail::<S>(kind, "get:phantom-element", format!("find({k}) = None but get/get_mut = Some")));
                }
            }
            (None, Some(tag)) => {
                return Err(fail::<S>(kind, "find:missing-element", format!("key {k} (tag {tag}) is in the model, find = None")));
            }
            (Some(i), None) => {
                return Err(fail::<S>(kind, "find:phantom-element", format!("key {k} not in the model, find = Some({i})")));
            }
            (Some(i), Some(tag)) => {
                if i >= self.t.slots() {
                    return Err(fail::<S>(kind, "find:index-out-of-bounds", format!("find({k}) = {i}, slots = {}", self.t.slots())));
                }
                // SAFETY: i < slots
                if !unsafe { self.t.is_slot_occupied_unchecked(i) } {
                    return Err(fail::<S>(kind, "find:slot-not-occupied", format!("find({k}) = {i}")));
                }
                // SAFETY: slot i is occupied (just checked)
                let e = unsafe { self.t.get_at_slot_unchecked(i) };
                if e.key != k || e.tag != tag {
                    return Err(fail::<S>(kind, "find:wrong-element", format!("find({k}) -> (key {}, tag {}), model tag {tag}", e.key, e.tag)));
                }
                let ep = e as *const Elem;
                let g = self.t.get(hv, |e| e.key == k).map(|e| e as *const Elem);
                let gm = self.t.get_mut(hv, |e| e.key == k).map(|e| e as *const Elem);
                // SAFETY: as above
                let gs = unsafe { self.t.get_at_slot_unchecked_mut(i) } as *const Elem;
                if g != Some(ep) || gm != Some(ep) || gs != ep {
                    return Err(fail::<S>(kind, "get:differs-from-find", format!("key {k}: find slot {i}, get {g:?}, get_mut {gm:?}")));
                }
            }
        }
        Ok(())
    }

    fn check_live(&mut self, op: Op) -> Result<(), Fail> {
        for k in 0..self.universe {
            let want = self.m.get(k).is_some() as i32;
            let got = live_get(k);
            self.evals += 1;
            if got != want {
                let clause = if got < want { "element-dropped-twice-or-lost" } else { "element-leaked-or-duplicated" };
                return Err(fail::<S>(op.kind(), clause, format!("key {k}: {got} live instance(s), model says {want}")));
            }
        }
        Ok(())
    }

    /// full comparison with the model
    fn check_full(&mut self, op: Op) -> Result<(), Fail> {
        let kind = op.kind();
        self.evals += 1;
        if self.t.len() != self.m.n || self.t.is_empty() != (self.m.n == 0) {
            return Err(fail::<S>(kind, "len", format!("len {} is_empty {} model {}", self.t.len(), self.t.is_empty(), self.m.n)));
        }
        if self.t.capacity() != self.t.slots() / 4 * 3 {
            return Err(fail::<S>(kind, "capacity", format!("capacity {} slots {}", self.t.capacity(), self.t.slots())));
        }
        for k in 0..self.universe {
            self.check_key(op, k)?;
        }
        // iter / iter_mut: every model element exactly once, nothing else, exact size
        for mutable in [false, true] {
            let name = if mutable { "iter_mut" } else { "iter" };
            let mut seen = vec![false; self.universe as usize];
            let mut cnt = 0usize;
            let mut err = None;
            let mut visit = |key: u32, tag: u32| {
                if err.is_some() {
                    return;
                }
                cnt += 1;
                if self.m.get(key) != Some(tag) {
                    err = Some(("phantom-element", format!("{name} yields (key {key}, tag {tag}), not in the model")));
                } else if std::mem::replace(&mut seen[key as usize], true) {
                    err = Some(("duplicate-element", format!("{name} yields key {key} twice")));
                }
            };
            let (hint, after_end);
            if mutable {
                let mut it = self.t.iter_mut();
                hint = (it.len(), it.size_hint());
                for e in it.by_ref() {
                    visit(e.key, e.tag);
                }
                after_end = it.next().is_none() && it.len() == 0;
            } else {
                let mut it = self.t.iter();
                hint = (it.len(), it.size_hint());
                for e in it.by_ref() {
                    visit(e.key, e.tag);
                }
                after_end = it.next().is_none() && it.len() == 0;
            }
            self.evals += 1;
            if let Some((clause, detail)) = err {
                return Err(fail::<S>(kind, &format!("{name}:{clause}"), detail));
            }
            if cnt != self.m.n {
                return Err(fail::<S>(kind, &format!("{name}:missing-element"), format!("{name} yields {cnt} elements, model has {}", self.m.n)));
            }
            if hint != (self.m.n, (self.m.n, Some(self.m.n))) || !after_end {
                return Err(fail::<S>(kind, &format!("{name}:exact-size"), format!("len/size_hint {hint:?}, model {}, fused {after_end}", self.m.n)));
            }
        }
        self.check_live(op)
    }

    /// Apply one operation to table and model, checking everything the operation itself
    /// returns. `tag` is the tag for an inserted element (non-zero).
    fn apply(&mut self, op: Op, tag: u32) -> Result<Effect, Fail> {
        let kind = op.kind();
        let hk = self.hk;
        let slots0 = self.t.slots();
        let mut changed = false;
        let mut credit = self.credit.take();
        match op {
            Op::Ins(k) => {
                let hv = hk.h(k);
                let m = &self.m;
                let bad_eq = Cell::new(None);
                let pos0 = if credit.as_ref().is_some_and(|c| c.left > 0) && m.get(k).is_none() && m.n <= 64 {
                    Some(self.positions())
                } else {
                    None
                };
                let r = self.t.find_or_find_insert_slot(hv, |e: &Elem| {
                    if m.get(e.key) != Some(e.tag) {
                        bad_eq.set(Some((e.key, e.tag)));
                    }
                    e.key == k
                });
                if let Some((bk, bt)) = bad_eq.get() {
                    return Err(fail::<S>(kind, "eq-called-on-absent-entry", format!("find_or_find_insert_slot({k}) called eq on (key {bk}, tag {bt})")));
                }
                match (r, self.m.get(k)) {
                    (Ok(i), Some(t)) => {
                        if i >= self.t.slots() || !unsafe { self.t.is_slot_occupied_unchecked(i) } {
                            return Err(fail::<S>(kind, "found-slot-not-occupied", format!("key {k}: Ok({i})")));
                        }
                        // SAFETY: occupied slot (checked above)
                        let e = unsafe { self.t.get_at_slot_unchecked(i) };
                        if e.key != k || e.tag != t {
                            return Err(fail::<S>(kind, "find:wrong-element", format!("key {k}: Ok({i}) holds (key {}, tag {}), model tag {t}", e.key, e.tag)));
                        }
                        // not an insertion: an open reserve promise stays open
                    }
                    (Ok(i), None) => {
                        return Err(fail::<S>(kind, "find:phantom-element", format!("key {k} not in the model, find_or_find_insert_slot = Ok({i})")));
                    }
                    (Err(i), Some(t)) => {
                        return Err(fail::<S>(kind, "find:missing-element", format!("key {k} (tag {t}) in the model, find_or_find_insert_slot = Err({i})")));
                    }
                    (Err(i), None) => {
                        if i >= self.t.slots() || unsafe { self.t.is_slot_occupied_unchecked(i) } {
                            return Err(fail::<S>(kind, "insert-slot-not-empty", format!("key {k}: Err({i}), slots {}", self.t.slots())));
                        }
                        // SAFETY: slot i was returned by find_or_find_insert_slot (Err case), is
                        // in bounds and not occupied; no modification in between
                        let e = unsafe { self.t.insert_in_slot_unchecked(hv, i, Elem::new(k, tag)) };
                        if e.key != k || e.tag != tag {
                            return Err(fail::<S>(kind, "returned-reference", format!("key {k}")));
                        }
                        self.m.insert(k, tag);
                        changed = true;
                        if let Some(c) = credit.as_mut().filter(|c| c.left > 0) {
                            c.left -= 1;
                            self.evals += 1;
                            if self.t.slots() != c.slots {
                                return Err(fail::<S>(kind, "reserve:resize-despite-reserve", format!("slots {} -> {} with {} reserved insertions left", c.slots, self.t.slots(), c.left + 1)));
                            }
                            if let Some(p0) = pos0 {
                                for (pk, pi) in p0 {
                                    let now = self.t.find(hk.h(pk), |e| e.key == pk);
                                    if now != pi {
                                        return Err(fail::<S>(kind, "reserve:rehash-despite-reserve", format!("key {pk} moved from slot {pi:?} to {now:?} while inserting {k}")));
                                    }
                                }
                            }
                        }
                    }
                }
                // the promise survives insertions only
                self.credit = credit.filter(|c| c.left > 0);
            }
            Op::Rem(k) | Op::RemAt(k) => {
                let hv = hk.h(k);
                let r = if let Op::Rem(_) = op {
                    self.t.remove_entry(hv, |e| e.key == k)
                } else {
                    match self.t.find(hv, |e| e.key == k) {
                        // SAFETY: find returned the index of an occupied slot, no modification
                        // in between (a wrong index is caught by the checks on the result
                        // only if it is in bounds: guard it)
                        Some(i) if i < self.t.slots() && unsafe { self.t.is_slot_occupied_unchecked(i) } => {
                            Some(unsafe { self.t.remove_at_slot_unchecked(i) })
                        }
                        Some(i) => return Err(fail::<S>(kind, "find:slot-not-occupied", format!("find({k}) = {i}"))),
                        None => None,
                    }
                };
                match (r, self.m.remove(k)) {
                    (None, None) => {}
                    (Some(e), Some(t)) => {
                        changed = true;
                        if e.key != k || e.tag != t {
                            return Err(fail::<S>(kind, "wrong-element", format!("remove {k} returned (key {}, tag {}), model tag {t}", e.key, e.tag)));
                        }
                    }
                    (None, Some(t)) => {
                        return Err(fail::<S>(kind, "find:missing-element", format!("key {k} (tag {t}) in the model, remove = None")));
                    }
                    (Some(e), None) => {
                        return Err(fail::<S>(kind, "find:phantom-element", format!("key {k} not in the model, remove returned (key {}, tag {})", e.key, e.tag)));
                    }
                }
            }
            Op::RetMod(..) | Op::RetNone => {
                let keep = |k: u32| match op {
                    Op::RetMod(m, r) => k % m != r,
                    _ => false,
                };
                let mut pred_on: Vec<(u32, u32)> = Vec::new();
                let mut dropped: Vec<(u32, u32)> = Vec::new();
                self.t.retain(
                    |e| {
                        pred_on.push((e.key, e.tag));
                        keep(e.key)
                    },
                    |e| dropped.push((e.key, e.tag)),
                );
                pred_on.sort_unstable();
                dropped.sort_unstable();
                let all: Vec<(u32, u32)> = self.m.keys().map(|k| (k, self.m.get(k).unwrap())).collect();
                let rejected: Vec<(u32, u32)> = all.iter().copied().filter(|&(k, _)| !keep(k)).collect();
                self.evals += 2;
                if pred_on != all {
                    return Err(fail::<S>(kind, "predicate-calls", format!("predicate called on {} entries {:?}.., table holds {} {:?}..", pred_on.len(), &pred_on[..pred_on.len().min(8)], all.len(), &all[..all.len().min(8)])));
                }
                if dropped != rejected {
                    return Err(fail::<S>(kind, "drop-calls", format!("drop called on {} entries {:?}.., predicate rejected {} {:?}..", dropped.len(), &dropped[..dropped.len().min(8)], rejected.len(), &rejected[..rejected.len().min(8)])));
                }
                changed = !rejected.is_empty();
                for (k, _) in rejected {
                    self.m.remove(k);
                }
            }
            Op::Drain | Op::DrainHalf => {
                let n = self.m.n;
                let take = if let Op::Drain = op { n } else { n / 2 };
                let mut d = self.t.drain();
                let hint = (d.len(), d.size_hint());
                let mut got: Vec<(u32, u32)> = Vec::new();
                for _ in 0..take {
                    match d.next() {
                        Some(e) => got.push((e.key, e.tag)),
                        None => break,
                    }
                }
                let end_ok = take < n || (d.next().is_none() && d.len() == 0);
                drop(d);
                self.evals += 2;
                if hint != (n, (n, Some(n))) || !end_ok {
                    return Err(fail::<S>(kind, "exact-size", format!("len/size_hint {hint:?}, model {n}")));
                }
                got.sort_unstable();
                let dup = got.windows(2).any(|w| w[0].0 == w[1].0);
                let phantom = got.iter().find(|&&(k, t)| self.m.get(k) != Some(t));
                if let Some(&(k, t)) = phantom {
                    return Err(fail::<S>(kind, "phantom-element", format!("drain yields (key {k}, tag {t}), not in the model")));
                }
                if dup {
                    return Err(fail::<S>(kind, "duplicate-element", format!("drain yields {got:?}")));
                }
                if got.len() != take {
                    return Err(fail::<S>(kind, "missing-element", format!("drain yields {} of {take} requested elements, model has {n}", got.len())));
                }
                changed = n != 0;
                self.m.clear();
                if self.t.slots() != slots0 {
                    return Err(fail::<S>(kind, "capacity-changed", format!("slots {slots0} -> {}", self.t.slots())));
                }
            }
            Op::Clear => {
                self.t.clear();
                changed = self.m.n != 0;
                self.m.clear();
                if self.t.slots() != slots0 {
                    return Err(fail::<S>(kind, "capacity-changed", format!("slots {slots0} -> {}", self.t.slots())));
                }
            }
            Op::ClearNoDrop | Op::ResetNoDrop => {
                let before: Vec<u32> = self.m.keys().collect();
                if let Op::ClearNoDrop = op {
                    self.t.clear_no_drop();
                    if self.t.slots() != slots0 {
                        return Err(fail::<S>(kind, "capacity-changed", format!("slots {slots0} -> {}", self.t.slots())));
                    }
                } else {
                    self.t.reset_no_drop();
                    if self.t.slots() != 0 || self.t.capacity() != 0 {
                        return Err(fail::<S>(kind, "capacity-not-zero", format!("slots {}", self.t.slots())));
                    }
                }
                // "without dropping any entry": the elements are leaked by contract
                for k in before {
                    self.evals += 1;
                    if live_get(k) != 1 {
                        return Err(fail::<S>(kind, "dropped-an-entry", format!("key {k}: {} live instances after {kind}", live_get(k))));
                    }
                    live_add(k, -1);
                    changed = true;
                }
                self.m.clear();
            }
            Op::Reserve(n) => {
                self.t.reserve(n as usize);
                self.evals += 1;
                if self.t.capacity() < self.m.n + n as usize {
                    return Err(fail::<S>(kind, "capacity-too-small", format!("reserve({n}) with {} elements: capacity {}", self.m.n, self.t.capacity())));
                }
                credit = Some(Credit { slots: self.t.slots(), left: n });
                self.credit = credit.filter(|c| c.left > 0);
            }
            Op::CloneSwap => {
                let c = self.t.clone();
                // the clone holds a second instance of every element
                for k in self.m.keys() {
                    self.evals += 1;
                    if live_get(k) != 2 {
                        return Err(fail::<S>(kind, "element-count", format!("key {k}: {} live instances after clone", live_get(k))));
                    }
                }
                // compare the *original* first (clone takes &self, must not disturb it) ...
                self.check_full_no_live(op)?;
                let old = std::mem::replace(&mut self.t, c);
                drop(ManuallyDrop::into_inner(old));
                // ... the clone is compared by the caller like after any other operation
            }
        }
        if !matches!(op, Op::Ins(_) | Op::Reserve(_)) {
            self.credit = None;
        }
        let slots1 = self.t.slots();
        let mut eff = Effect { changed, grew: slots1 > slots0, rehash_or_shrink: false };
        if matches!(op, Op::Ins(_) | Op::Reserve(_) | Op::RetMod(..) | Op::RetNone) {
            // (a rehash that keeps the size is recognised in `step`, by the audit statistics)
            eff.rehash_or_shrink = slots1 < slots0;
        }
        Ok(eff)
    }

    fn check_full_no_live(&mut self, op: Op) -> Result<(), Fail> {
        // check_full ends with check_live, which expects one instance per element
        let keys: Vec<u32> = self.m.keys().collect();
        keys.iter().for_each(|&k| live_add(k, -1));
        let r = self.check_full(op);
        keys.iter().for_each(|&k| live_add(k, 1));
        r
    }

    /// apply + checks according to `level`
    fn step(&mut self, op: Op, tag: u32, level: Level) -> Result<Effect, Fail> {
        self.safety_guard(op)?;
        if level != Level::Quiet && !self.audited {
            // state before the operation (steps replayed at `Level::Quiet` are not audited)
            let pre_bad = self.audit(op).is_err_and(|f| f.benign);
            self.tainted |= pre_bad;
        }
        self.audited = false;
        let (slots0, tomb0) = (self.t.slots(), self.last_tomb);
        let mut eff = self.apply(op, tag)?;
        self.safety_guard(op)?;
        if level == Level::Quiet {
            return Ok(eff);
        }
        self.audited = true;
        // audit first: it is read-only and cannot diverge
        let mut audit = self.audit(op);
        if let Err(f) = &audit {
            if !f.benign {
                return audit.map(|_| eff);
            }
            if self.tainted {
                audit = Ok(()); // inherited
            }
            self.tainted = true;
        } else {
            self.tainted = false; // a rehash repaired the accounting
        }
        if matches!(op, Op::Ins(_) | Op::Reserve(_)) && self.t.slots() == slots0 && tomb0 > 0 && self.last_tomb == 0 {
            eff.rehash_or_shrink = true; // all tombstones gone: rehash into a table of the same size
        }
        self.evals += 1;
        if self.t.len() != self.m.n {
            return Err(fail::<S>(op.kind(), "len", format!("len {} model {}", self.t.len(), self.m.n)));
        }
        match level {
            Level::Full => self.check_full(op)?,
            _ => {
                if let Op::Ins(k) | Op::Rem(k) | Op::RemAt(k) = op {
                    self.check_key(op, k)?;
                    // an absent neighbour: unsuccessful lookups are the ones that may diverge
                    self.check_key(op, (k + 1) % self.universe)?;
                }
            }
        }
        audit.map(|_| eff)
    }

    /// Drop the table if that is memory-safe (len field = number of occupied slots), else leak
    fn dispose(mut self) {
        #[cfg(oxidd_verif)]
        {
            let s = self.t.verif_stats();
            if s.len == s.occupied_slots {
                // SAFETY: `self.t` is not used afterwards
                unsafe { ManuallyDrop::drop(&mut self.t) };
            }
        }
        let _ = &mut self;
    }

    /// Consume the table in one of four ways and verify contents and ownership
    fn consume(mut self, variant: usize) -> Result<u64, Fail> {
        let n = self.m.n;
        let op = ["into_iter", "into_iter-half", "drain-then-drop", "drop"][variant % 4];
        // SAFETY: `self.t` is not used afterwards (`self` is consumed, St has no Drop)
        let t = unsafe { ManuallyDrop::take(&mut self.t) };
        let mut got: Vec<(u32, u32)> = Vec::new();
        let mut exact = true;
        let expect_all;
        match variant % 4 {
            0 => {
                let mut it = t.into_iter();
                exact &= it.len() == n && it.size_hint() == (n, Some(n));
                for e in it.by_ref() {
                    got.push((e.key, e.tag));
                }
                exact &= it.next().is_none() && it.len() == 0;
                expect_all = true;
            }
            1 => {
                let mut it = t.into_iter();
                exact &= it.len() == n;
                for _ in 0..n / 2 {
                    if let Some(e) = it.next() {
                        got.push((e.key, e.tag));
                    }
                }
                exact &= it.len() == n - n / 2;
                drop(it);
                expect_all = false;
            }
            2 => {
                let mut t = t;
                {
                    let d = t.drain();
                    exact &= d.len() == n;
                    for e in d {
                        got.push((e.key, e.tag));
                    }
                }
                exact &= t.len() == 0 && t.iter().next().is_none();
                drop(t);
                expect_all = true;
            }
            _ => {
                drop(t);
                expect_all = false;
            }
        }
        self.evals += 3;
        if !exact {
            return Err(fail::<S>(op, "exact-size", format!("model has {n} elements")));
        }
        got.sort_unstable();
        if let Some(&(k, t)) = got.iter().find(|&&(k, t)| self.m.get(k) != Some(t)) {
            return Err(fail::<S>(op, "phantom-element", format!("yields (key {k}, tag {t}), not in the model")));
        }
        if got.windows(2).any(|w| w[0].0 == w[1].0) {
            return Err(fail::<S>(op, "duplicate-element", format!("yields {got:?}")));
        }
        let want = if expect_all { n } else if variant % 4 == 1 { n / 2 } else { 0 };
        if got.len() != want {
            return Err(fail::<S>(op, "missing-element", format!("yields {} elements, expected {want} (model {n})", got.len())));
        }
        drop(got);
        for k in 0..self.universe {
            if live_get(k) != 0 {
                let clause = if live_get(k) < 0 { "element-dropped-twice" } else { "element-leaked" };
                return Err(fail::<S>(op, clause, format!("key {k}: {} live instance(s) after the table is gone", live_get(k))));
            }
        }
        Ok(self.evals)
    }
}

fn panic_fail<S: SName>(op: Op, msg: String) -> Fail {
    if msg.contains("verif: probe cycle") {
        // the same for every operation that performs a lookup
        Fail { sig: format!("{}:probe-cycle", S::NAME), detail: format!("{}: {msg}", op.short()), benign: false }
    } else {
        fail::<S>(op.kind(), "panic", format!("{msg} [{}]", crate::ctx::last_panic_loc()))
    }
}

// === whole-sequence runner (used by the exhaustive monitor and by witness minimisation) ====

#[derive(Clone)]
struct Setup {
    ctor: Ctor,
    hk: HashKind,
    universe: u32,
    /// operations that build the start state (never checked beyond `Level::Quiet`)
    prefix: Vec<Op>,
    prefix_name: &'static str,
}

impl Setup {
    fn describe<S: SName>(&self) -> String {
        format!("S={} hash={:?} ctor={:?} start={}", S::NAME, self.hk, self.ctor, self.prefix_name)
    }
}

struct RunOk {
    effects: Vec<Effect>,
    evals: u64,
    tomb_max: u64,
    slots: usize,
    len: usize,
    tombstones: usize,
}

/// How a sequence is checked
#[derive(Clone, Copy)]
enum Plan {
    /// quiet replay of all but the last operation, full check after the last, then consume
    LastOnly,
    /// full check after every `n`-th operation and after the last one, touch check otherwise
    Every(usize),
}

/// Runs prefix + seq on a fresh table. Returns the failure (with the index of the failing
/// operation in `seq`, `seq.len()` = while consuming) or what was observed.
/// A benign failure is returned as (index, fail) as well, but only after the sequence has
/// been run to its end without any other failure (`Err` wins).
fn run_seq<S: SName>(setup: &Setup, seq: &[Op], plan: Plan, consume_variant: usize) -> (Result<RunOk, (usize, Fail)>, Option<(usize, Fail)>) {
    live_reset();
    let mut st = St::<S>::new(setup.ctor, setup.hk, setup.universe);
    let mut benign: Option<(usize, Fail)> = None;
    let mut at = 0usize;
    let mut cur = Op::Clear;
    let r = catch(|| -> Result<RunOk, (usize, Fail)> {
        for (i, &op) in setup.prefix.iter().enumerate() {
            cur = op;
            st.step(op, 1_000_000 + i as u32, Level::Quiet).map_err(|f| (0, f))?;
        }
        let mut effects = Vec::with_capacity(seq.len());
        for (i, &op) in seq.iter().enumerate() {
            at = i;
            cur = op;
            let last = i + 1 == seq.len();
            let level = match plan {
                Plan::LastOnly => if last { Level::Full } else { Level::Quiet },
                Plan::Every(n) => if last || (i + 1) % n == 0 { Level::Full } else { Level::Touch },
            };
            match st.step(op, i as u32 + 1, level) {
                Ok(e) => effects.push(e),
                Err(f) if f.benign => {
                    if benign.is_none() {
                        benign = Some((i, f));
                    }
                    // (`step` has run all other checks of this level before returning it)
                    effects.push(Effect::default());
                }
                Err(f) => return Err((i, f)),
            }
        }
        at = seq.len();
        let (slots, len, tombstones, tomb_max) = (st.t.slots(), st.t.len(), st.tombstones(), st.tomb_max);
        // take the state out so that `consume` owns it
        let st_owned = std::mem::replace(&mut st, St::<S>::new(Ctor::New, setup.hk, setup.universe));
        let evals = st_owned.consume(consume_variant).map_err(|f| (seq.len(), f))?;
        Ok(RunOk { effects, evals, tomb_max, slots, len, tombstones })
    });
    let r = match r {
        Ok(r) => r,
        Err(msg) => Err((at, panic_fail::<S>(cur, msg))),
    };
    if let Err((_, f)) = &r {
        // after a panic inside the table its fields may be inconsistent: leak it (ManuallyDrop)
        if !f.sig.ends_with(":probe-cycle") && !f.sig.ends_with(":panic") {
            st.dispose();
        }
        live_reset();
    }
    (r, benign)
}

/// Greedy chunk-removal minimisation: the result still fails with signature `sig`.
fn minimise<S: SName>(setup: &Setup, seq: &[Op], sig: &str, plan: Plan, budget_ops: u64) -> Vec<Op> {
    let fails = |s: &[Op], spent: &mut u64| -> Option<usize> {
        progress();
        *spent += s.len() as u64 + setup.prefix.len() as u64 + 1;
        let (r, benign) = run_seq::<S>(setup, s, plan, 0);
        match (r, benign) {
            (Err((i, f)), _) if f.sig == sig => Some(i),
            (_, Some((i, f))) if f.sig == sig => Some(i),
            _ => None,
        }
    };
    let mut spent = 0u64;
    let mut cur: Vec<Op> = seq.to_vec();
    match fails(&cur, &mut spent) {
        Some(i) => cur.truncate((i + 1).min(cur.len())),
        None => return cur, // not reproducible under this plan: keep as is
    }
    let mut chunk = cur.len().div_ceil(2).max(1);
    loop {
        let mut i = 0;
        while i < cur.len() {
            if spent > budget_ops {
                return cur;
            }
            let mut cand = cur[..i].to_vec();
            cand.extend_from_slice(&cur[(i + chunk).min(cur.len())..]);
            if let Some(at) = fails(&cand, &mut spent) {
                cand.truncate((at + 1).min(cand.len()));
                cur = cand;
            } else {
                i += chunk;
            }
        }
        if chunk == 1 {
            break;
        }
        chunk = chunk.div_ceil(2);
    }
    cur
}

thread_local! {
    /// number of reports per signature (only the first three witnesses are minimised/printed)
    static REPORTED: std::cell::RefCell<std::collections::HashMap<String, u32>> = std::cell::RefCell::new(Default::default());
}

fn report<S: SName>(ctx: &mut Ctx, setup: &Setup, seq: &[Op], at: usize, f: &Fail, plan: Plan) {
    // minimise only what will be printed (ctx prints the first three witnesses per signature)
    let n = REPORTED.with(|r| {
        let mut r = r.borrow_mut();
        let n = r.entry(f.sig.clone()).or_insert(0);
        *n += 1;
        *n - 1
    });
    let witness = if n < 3 {
        let upto = (at + 1).min(seq.len());
        // replays may panic (probe cycle) thousands of times: keep stderr quiet meanwhile
        let hook = std::panic::take_hook();
        std::panic::set_hook(Box::new(|_| {}));
        let mut min = minimise::<S>(setup, &seq[..upto], &f.sig, plan, 20_000_000);
        if min.len() <= 400 {
            // second pass with a full comparison after every operation
            min = minimise::<S>(setup, &min, &f.sig, Plan::Every(1), 5_000_000);
        }
        std::panic::set_hook(hook);
        // the details (numbers) of the minimised sequence, not of the original one
        let mut detail = f.detail.clone();
        for pl in [Plan::Every(1), plan] {
            let (r, benign) = run_seq::<S>(setup, &min, pl, 0);
            let hit = match (r, benign) {
                (Err((_, g)), _) if g.sig == f.sig => Some(g),
                (_, Some((_, g))) if g.sig == f.sig => Some(g),
                _ => None,
            };
            if let Some(g) = hit {
                detail = g.detail;
                break;
            }
        }
        format!("[{}] {} ({} ops, minimised from {}) => {}", setup.describe::<S>(), show_ops(&min), min.len(), upto, detail)
    } else {
        format!("[{}] <{} ops> => {}", setup.describe::<S>(), at + 1, f.detail)
    };
    ctx.violation(&f.sig, witness);
}

// === no-hook fallback ========================================================================

/// Without `--cfg oxidd_verif` there is no probe-step bound, so a lookup in a table without a
/// FREE slot spins forever. This fallback (a clock, hence only a fallback) turns that into a
/// report + exit instead of a hang: the monitors bump `PROGRESS` after every sequence /
/// operation; if it stands still for 30 s the process reports and exits with code 1.
#[cfg(not(oxidd_verif))]
static PROGRESS: std::sync::atomic::AtomicU64 = std::sync::atomic::AtomicU64::new(0);

#[inline]
fn progress() {
    #[cfg(not(oxidd_verif))]
    PROGRESS.fetch_add(1, std::sync::atomic::Ordering::Relaxed);
}

fn start_watchdog(monitor: &'static str) {
    #[cfg(not(oxidd_verif))]
    std::thread::spawn(move || {
        use std::sync::atomic::Ordering::Relaxed;
        let mut last = PROGRESS.load(Relaxed);
        let mut still = 0;
        loop {
            std::thread::sleep(std::time::Duration::from_secs(1));
            let now = PROGRESS.load(Relaxed);
            still = if now == last { still + 1 } else { 0 };
            last = now;
            if still >= 30 {
                println!(
                    "@@{{\"t\":\"viol\",\"prop\":\"C17\",\"monitor\":{},\"sig\":\"no-hook:operation-does-not-terminate\",\"witness\":\"no progress for 30 s (build without --cfg oxidd_verif: no probe bound, no witness)\"}}",
                    json_str(monitor)
                );
                std::process::exit(1);
            }
        }
    });
    let _ = monitor;
}

// === c17_exh ================================================================================

fn exh_alphabet(nkeys: u32) -> Vec<Op> {
    let mut a = Vec::new();
    for k in 0..nkeys {
        a.push(Op::Ins(k));
    }
    for k in 0..nkeys {
        // alternate the two removal entry points
        a.push(if k % 2 == 0 { Op::Rem(k) } else { Op::RemAt(k) });
    }
    a.extend([
        Op::RetMod(2, 1),
        Op::RetNone,
        Op::Drain,
        Op::DrainHalf,
        Op::Clear,
        Op::ClearNoDrop,
        Op::ResetNoDrop,
        Op::Reserve(2),
        Op::Reserve(13),
        Op::CloneSwap,
    ]);
    a
}

const AUX0: u32 = 6;
const EXH_UNIVERSE: u32 = 20;

fn exh_starts() -> Vec<(Ctor, &'static str, Vec<Op>)> {
    let ins = |r: std::ops::Range<u32>| r.map(Op::Ins).collect::<Vec<_>>();
    let rem = |r: std::ops::Range<u32>| r.map(Op::Rem).collect::<Vec<_>>();
    vec![
        (Ctor::New, "empty", vec![]),
        (Ctor::WithCap(1), "empty-16-slots", vec![]),
        // 12 auxiliary keys inserted (16 slots full up to the 3/4 limit), the first 11 removed
        // in insertion order: tombstone-rich
        (Ctor::New, "i6..i17,r6..r16(tombstones)", [ins(AUX0..AUX0 + 12), rem(AUX0..AUX0 + 11)].concat()),
        // the same, removed back to front except the first: no tombstones, free slots restored
        (Ctor::New, "i6..i17(full-16)", ins(AUX0..AUX0 + 12)),
        // 13 keys force 32 slots; 10 removed again: sparse 32-slot table with tombstones
        (Ctor::Default, "i6..i18,r7..r16(grown-32-sparse)", [ins(AUX0..AUX0 + 13), rem(AUX0 + 1..AUX0 + 11)].concat()),
    ]
}

const EXH_HASHES: [HashKind; 6] = [
    HashKind::Equal0,
    HashKind::EqualMax,
    HashKind::HighOnly,
    HashKind::WrapPairs,
    HashKind::Identity,
    HashKind::MulOdd,
];

struct Exh<'a> {
    ctx: &'a mut Ctx,
    alphabet: Vec<Op>,
    max_len: usize,
    item: usize,
    cfg_index: usize,
}

impl Exh<'_> {
    /// Returns true iff the sequence may be extended
    fn node<S: SName>(&mut self, setup: &Setup, seq: &[Op], do_report: bool) -> bool {
        let variant = seq.len() + self.cfg_index + seq.last().map_or(0, |&o| self.alphabet.iter().position(|&a| a == o).unwrap());
        let (r, benign) = run_seq::<S>(setup, seq, Plan::LastOnly, variant);
        progress();
        if !do_report {
            return r.is_ok();
        }
        self.ctx.count("sequences", 1);
        // report a benign failure only where it arises (its extensions inherit it)
        if let Some((i, f)) = &benign {
            if i + 1 == seq.len() {
                report::<S>(self.ctx, setup, seq, *i, f, Plan::Every(1));
            }
        }
        match r {
            Ok(ok) => {
                self.ctx.evals(ok.evals);
                self.ctx.count_max("tombstones_max", ok.tomb_max.max(ok.tombstones as u64));
                if let Some(e) = ok.effects.last() {
                    if e.grew {
                        self.ctx.count("grows", 1);
                    }
                    if e.rehash_or_shrink {
                        self.ctx.count("rehashes_or_shrinks", 1);
                    }
                    if e.changed {
                        // distinct non-trivial case: see the sample string in `exhaustive`
                        self.ctx.distinct((S::NAME, setup.hk, setup.ctor, setup.prefix_name, seq));
                    }
                }
                true
            }
            Err((at, f)) => {
                report::<S>(self.ctx, setup, seq, at, &f, Plan::Every(1));
                false
            }
        }
    }

    fn dfs<S: SName>(&mut self, setup: &Setup, seq: &mut Vec<Op>, owned: bool) {
        let d = seq.len();
        // depth 0 and 1 are executed by every shard (cheap; needed for consistent pruning) but
        // reported only by the shard that owns the first item below; depth-2 nodes are the items
        let (run_it, do_report) = if d < 2 {
            (true, self.ctx.mine(self.item))
        } else if d == 2 {
            let mine = self.ctx.mine(self.item);
            self.item += 1;
            (mine, mine)
        } else {
            (owned, owned)
        };
        if !run_it {
            return;
        }
        let extend = self.node::<S>(setup, seq, do_report);
        if d == self.max_len {
            return;
        }
        if !extend {
            if d < 2 {
                // keep item numbering aligned
                let a = self.alphabet.len();
                self.item += if d == 0 { a * a } else { a };
            }
            return;
        }
        for i in 0..self.alphabet.len() {
            seq.push(self.alphabet[i]);
            self.dfs::<S>(setup, seq, do_report);
            seq.pop();
        }
    }
}

/// `c17_exh`: every operation sequence up to length L over `exh_alphabet`, from five start
/// states, for six adversarial hash functions and both status types.
pub fn exhaustive(ctx: &mut Ctx) {
    start_watchdog("c17_exh");
    // (number of user keys, maximal length, start states used)
    let all = vec![0, 1, 2, 3, 4];
    let plans: Vec<(u32, usize, Vec<usize>)> = if ctx.quick() {
        vec![(6, 4, all.clone()), (3, 5, all.clone())]
    } else {
        vec![(6, 5, all.clone()), (3, 6, all.clone()), (2, 7, vec![0])]
    };
    let starts = exh_starts();
    let mut item = 0usize;
    let mut cfg_index = 0usize;
    for (nkeys, max_len, start_ids) in &plans {
        let alphabet = exh_alphabet(*nkeys);
        ctx.sample(|| {
            format!(
                "exhaustive: all sequences of length <= {max_len} over the {} operations {{{}}} from start states {:?}, x {} hash functions {:?} x status {{u32, usize}}; lookup of all {EXH_UNIVERSE} keys + len + iter + iter_mut + live-instance count + audit hook after the last operation of every sequence, then the table is consumed by into_iter / into_iter dropped half-way / drain + drop / drop. distinct = distinct (status, hash, start, sequence) whose last operation changed the table contents",
                alphabet.len(),
                alphabet.iter().map(|o| o.short()).collect::<Vec<_>>().join(" "),
                start_ids.iter().map(|&i| starts[i].1).collect::<Vec<_>>(),
                EXH_HASHES.len(),
                EXH_HASHES,
            )
        });
        for &sid in start_ids {
            let (ctor, name, prefix) = &starts[sid];
            for hk in EXH_HASHES {
                for s in 0..2 {
                    let setup = Setup { ctor: *ctor, hk, universe: EXH_UNIVERSE, prefix: prefix.clone(), prefix_name: name };
                    let mut e = Exh { ctx, alphabet: alphabet.clone(), max_len: *max_len, item, cfg_index };
                    let mut seq = Vec::new();
                    if s == 0 {
                        e.dfs::<u32>(&setup, &mut seq, false);
                    } else {
                        e.dfs::<usize>(&setup, &mut seq, false);
                    }
                    item = e.item;
                    cfg_index += 1;
                }
            }
        }
    }
    ctx.count("configs", cfg_index as u64);
}

// === c17_rand ===============================================================================

struct RandCfg {
    hk: HashKind,
    universe: u32,
    nops: usize,
    /// upper bound for a grow phase target
    peak: usize,
    ctor: Ctor,
}

fn gen_op(rng: &mut Rng, cfg: &RandCfg, len: usize, growing: bool) -> Op {
    let u = cfg.universe;
    let key = |rng: &mut Rng| rng.below(u as u64) as u32;
    let r = rng.below(1000);
    let (p_ins, p_rem) = if growing { (780, 200) } else { (150, 800) };
    if r < p_ins {
        return Op::Ins(key(rng));
    }
    if r < p_ins + p_rem {
        let k = key(rng);
        return if rng.bool() { Op::Rem(k) } else { Op::RemAt(k) };
    }
    // the remaining 2-5 %: bulk operations; the expensive/destructive ones are rarer in big tables
    let big = len > 256;
    match rng.below(if big { 40 } else { 16 }) {
        0 => Op::Drain,
        1 => Op::DrainHalf,
        2 => Op::Clear,
        3 => Op::ClearNoDrop,
        4 => Op::RetNone,
        5 => Op::ResetNoDrop,
        6 | 7 => Op::CloneSwap,
        8 | 9 => Op::Reserve(rng.below(20) as u32),
        10 => Op::Reserve(rng.below(2 * cfg.peak as u64 + 1) as u32),
        _ => {
            let m = rng.range(2, 9) as u32;
            Op::RetMod(m, rng.below(m as u64) as u32)
        }
    }
}

fn rand_run<S: SName>(ctx: &mut Ctx, cfg: &RandCfg, run_id: u64) {
    let mut rng = ctx.rng(0xC17_0000 + run_id);
    let setup = Setup { ctor: cfg.ctor, hk: cfg.hk, universe: cfg.universe, prefix: vec![], prefix_name: "empty" };
    let full_every = (cfg.universe as usize / 4).max(4);
    let mut done = 0usize;
    let mut failures = 0;
    let mut cycles = 0u64;
    'restart: while done < cfg.nops && failures < 2000 {
        live_reset();
        let mut st = St::<S>::new(cfg.ctor, cfg.hk, cfg.universe);
        let mut log: Vec<Op> = Vec::new();
        let mut growing = true;
        let mut target = rng.range(cfg.peak / 4 + 1, cfg.peak);
        let mut benign_seen = false;
        while done < cfg.nops {
            let len = st.m.n;
            if growing && len >= target {
                growing = false;
                target = *rng.pick(&[0usize, 0, 1, 2, 5, cfg.peak / 16]);
            } else if !growing && len <= target {
                growing = true;
                target = rng.range(cfg.peak / 4 + 1, cfg.peak);
                cycles += 1;
            }
            let op = gen_op(&mut rng, cfg, len, growing);
            progress();
            log.push(op);
            done += 1;
            let bulk = !matches!(op, Op::Ins(_) | Op::Rem(_) | Op::RemAt(_));
            let level = if bulk || log.len() % full_every == 0 { Level::Full } else { Level::Touch };
            let (slots0, tomb0) = (st.t.slots(), st.tombstones());
            let tag = log.len() as u32;
            let r = match catch(|| st.step(op, tag, level)) {
                Ok(r) => r,
                Err(msg) => Err(panic_fail::<S>(op, msg)),
            };
            let r = match r {
                Err(f) if f.benign => {
                    if !benign_seen {
                        benign_seen = true;
                        report::<S>(ctx, &setup, &log, log.len() - 1, &f, Plan::Every(full_every));
                        // `report` replays sequences: restore this run's live counts
                        live_reset();
                        for k in st.m.keys() {
                            live_add(k, 1);
                        }
                    }
                    Ok(Effect::default())
                }
                r => r,
            };
            match r {
                Ok(e) => {
                    if e.grew {
                        ctx.count("grows", 1);
                    }
                    if e.rehash_or_shrink {
                        ctx.count("rehashes_or_shrinks", 1);
                    }
                    if e.changed {
                        // distinct non-trivial case: see the sample string in `random`
                        let slots = st.t.slots();
                        let occ = if slots == 0 { 0 } else { st.m.n * 8 / slots };
                        let tb = if slots0 == 0 { 0 } else { tomb0 * 8 / slots0 };
                        ctx.distinct((S::NAME, cfg.hk, op.kind(), slots0, slots, occ, tb, level == Level::Full));
                    }
                }
                Err(f) => {
                    failures += 1;
                    ctx.evals(st.evals);
                    ctx.count_max("tombstones_max", st.tomb_max);
                    report::<S>(ctx, &setup, &log, log.len() - 1, &f, Plan::Every(full_every));
                    // start over with a fresh table; the old one is leaked after a panic
                    if !f.sig.ends_with(":probe-cycle") && !f.sig.ends_with(":panic") {
                        st.dispose();
                    }
                    continue 'restart;
                }
            }
        }
        ctx.evals(st.evals);
        ctx.count_max("tombstones_max", st.tomb_max);
        let variant = (run_id as usize) + log.len();
        let r = match catch(|| st.consume(variant)) {
            Ok(r) => r,
            Err(msg) => Err(panic_fail::<S>(Op::Drain, msg)),
        };
        match r {
            Ok(ev) => ctx.evals(ev),
            Err(f) => report::<S>(ctx, &setup, &log, log.len(), &f, Plan::Every(full_every)),
        }
    }
    live_reset();
    ctx.count("sequences", 1);
    ctx.count("operations", done as u64);
    ctx.count("grow_shrink_cycles", cycles);
}

/// `with_capacity(n)` / `reserve(n)` on an empty table for every n up to `max`: capacity covers n,
/// slot count is 0 or a power of two, and n insertions follow without a resize.
fn capacity_sweep<S: SName>(ctx: &mut Ctx, max: usize) {
    for n in 0..=max {
        for via_reserve in [false, true] {
            live_reset();
            let what = if via_reserve { "reserve" } else { "with_capacity" };
            let r = catch(|| -> Result<(), Fail> {
                let mut st = St::<S>::new(if via_reserve { Ctor::New } else { Ctor::WithCap(n) }, HashKind::MulOdd, MAXK as u32);
                if via_reserve {
                    st.step(Op::Reserve(n as u32), 1, Level::Touch)?;
                }
                st.audit(Op::Reserve(n as u32))?;
                let (slots, cap) = (st.t.slots(), st.t.capacity());
                if cap < n || !(slots == 0 || slots.is_power_of_two()) || (n == 0) != (slots == 0) || st.t.len() != 0 {
                    return Err(fail::<S>(what, "capacity-too-small", format!("{what}({n}): capacity {cap}, slots {slots}")));
                }
                // n insertions (at most MAXK distinct keys exist) must not resize the table
                for k in 0..n.min(MAXK) {
                    st.step(Op::Ins(k as u32), k as u32 + 1, Level::Quiet)?;
                    if st.t.slots() != slots {
                        return Err(fail::<S>(what, "resize-despite-capacity", format!("{what}({n}): {slots} slots became {} at insertion {}", st.t.slots(), k + 1)));
                    }
                }
                st.audit(Op::Ins(0))?;
                st.consume(n).map(|_| ())
            });
            ctx.eval();
            match r {
                Ok(Ok(())) => {
                    if n > 0 {
                        ctx.distinct((S::NAME, what, n));
                    }
                }
                Ok(Err(f)) => ctx.violation(&f.sig, format!("{what}({n}) on an empty table => {}", f.detail)),
                Err(msg) => ctx.violation(&format!("{}:{what}:panic", S::NAME), format!("{what}({n}) on an empty table => {msg}")),
            }
        }
    }
    live_reset();
    ctx.count("capacity_sweep_cases", 2 * (max as u64 + 1));
}

/// `c17_rand`: long random operation sequences that repeatedly grow the table to a peak and
/// shrink it back to (nearly) empty, against the set model; both status types.
pub fn random(ctx: &mut Ctx) {
    start_watchdog("c17_rand");
    let q = ctx.quick();
    // (universe, peak, ops quick, ops thorough)
    // `--param tiny`: a few thousand operations in total (for running under Miri)
    let tiny = ctx.param.as_deref() == Some("tiny");
    let sizes: [(u32, usize, usize, usize); 6] = if tiny {
        [(8, 8, 400, 400), (14, 13, 500, 500), (24, 20, 700, 700), (64, 60, 900, 900), (64, 40, 0, 0), (64, 40, 0, 0)]
    } else {
        [
        (8, 8, 100_000, 400_000),
        (14, 13, 100_000, 400_000),
        (24, 20, 100_000, 400_000),
        (64, 60, 100_000, 500_000),
        (400, 300, 100_000, 700_000),
        (2000, 1500, 100_000, 1_000_000),
    ]
    };
    let hashes = [
        HashKind::Equal0,
        HashKind::EqualMax,
        HashKind::HighOnly,
        HashKind::WrapPairs,
        HashKind::Cluster,
        HashKind::Identity,
        HashKind::MulOdd,
    ];
    ctx.sample(|| {
        format!(
            "random: universes {:?} (keys, peak size) x hashes {:?} x status {{u32, usize}}; insert/remove_entry/remove_at_slot with grow phases (78% inserts) up to a random peak and shrink phases (80% removals, retain(k%m!=r), retain-none, drain, drain-half, clear, clear_no_drop, reset_no_drop, reserve, clone) down to 0..peak/16 elements; after every operation: result of the operation, len, lookup of the touched key and its (mostly absent) neighbour, audit hook; full comparison (all keys, iter, iter_mut, live instances) after every bulk operation and every universe/4 operations. distinct = distinct (status, hash, operation kind, slots before, slots after, occupancy eighth, tombstone eighth before, check level) of operations that changed the contents",
            sizes.iter().map(|s| (s.0, s.1)).collect::<Vec<_>>(),
            hashes
        )
    });
    // every (size, hash, status) combination `reps` times with different random streams
    let reps = if tiny { 1 } else { ctx.by_tier(6, 8) };
    // (not under Miri: one sweep step costs half a minute there; the native jobs cover it)
    if ctx.mine(0) && !tiny {
        let max = ctx.by_tier(2000, 9000);
        capacity_sweep::<u32>(ctx, max);
        capacity_sweep::<usize>(ctx, max);
    }
    let mut i = 0usize;
    for rep in 0..reps {
        for (universe, peak, nq, nt) in sizes {
            for hk in hashes {
                for s in 0..2 {
                    // (+ rep: rotate the assignment so that a shard does not see one status only)
                    let mine = ctx.mine(i + rep);
                    i += 1;
                    if !mine || (if q { nq } else { nt }) == 0 {
                        continue;
                    }
                    // totally colliding hashes cost O(len) per probe: fewer operations there
                    let colliding = matches!(hk, HashKind::Equal0 | HashKind::EqualMax | HashKind::HighOnly);
                    let mut nops = if q { nq } else { nt };
                    if colliding && universe > 64 {
                        nops /= if universe > 400 { 8 } else { 2 };
                    }
                    let ctor = match i % 3 {
                        0 => Ctor::New,
                        1 => Ctor::Default,
                        _ => Ctor::WithCap(peak / 2),
                    };
                    let cfg = RandCfg { hk, universe, nops, peak, ctor };
                    println!("@@{{\"t\":\"case\",\"case\":{}}}", json_str(&format!("c17_rand run {i}: universe {universe} hash {hk:?} status {}", if s == 0 { "u32" } else { "usize" })));
                    if s == 0 {
                        rand_run::<u32>(ctx, &cfg, i as u64);
                    } else {
                        rand_run::<usize>(ctx, &cfg, i as u64);
                    }
                }
            }
        }
    }
}

// === c17_case: replay of one witness =========================================================

fn parse_op(t: &str) -> Option<Op> {
    let num = |s: &str| s.parse::<u32>().ok();
    Some(match t {
        "retain-even" => Op::RetMod(2, 1),
        "retain-none" => Op::RetNone,
        "drain" => Op::Drain,
        "drain-half" => Op::DrainHalf,
        "clear" => Op::Clear,
        "clear_no_drop" => Op::ClearNoDrop,
        "reset_no_drop" => Op::ResetNoDrop,
        "clone" => Op::CloneSwap,
        _ => {
            if let Some(r) = t.strip_prefix("reserve(") {
                Op::Reserve(num(r.strip_suffix(')')?)?)
            } else if let Some(r) = t.strip_prefix("retain(k%") {
                let (m, r) = r.strip_suffix(')')?.split_once("!=")?;
                Op::RetMod(num(m)?, num(r)?)
            } else if let Some(r) = t.strip_prefix("ra") {
                Op::RemAt(num(r)?)
            } else if let Some(r) = t.strip_prefix('r') {
                Op::Rem(num(r)?)
            } else if let Some(r) = t.strip_prefix('i') {
                Op::Ins(num(r)?)
            } else {
                return None;
            }
        }
    })
}

/// `c17_case --param "<u32|usize>;<HashKind>;<universe>;<ops separated by blanks>"`: runs one
/// sequence from an empty table (`RawTable::new()`) with a full comparison after every operation.
pub fn single(ctx: &mut Ctx) {
    let p = ctx.param.clone().expect("--param \"u32;Identity;20;i0 i1 r0 drain\"");
    let parts: Vec<&str> = p.split(';').collect();
    assert!(parts.len() == 4, "expected 4 fields separated by ';'");
    let hk = match parts[1] {
        "Equal0" => HashKind::Equal0,
        "EqualMax" => HashKind::EqualMax,
        "HighOnly" => HashKind::HighOnly,
        "WrapPairs" => HashKind::WrapPairs,
        "Cluster" => HashKind::Cluster,
        "Identity" => HashKind::Identity,
        "MulOdd" => HashKind::MulOdd,
        x => panic!("unknown hash kind {x}"),
    };
    let universe: u32 = parts[2].parse().expect("universe");
    let ops: Vec<Op> = parts[3].split_whitespace().map(|t| parse_op(t).unwrap_or_else(|| panic!("bad op {t}"))).collect();
    assert!(ops.iter().all(|o| match *o {
        Op::Ins(k) | Op::Rem(k) | Op::RemAt(k) => k < universe,
        _ => true,
    }));
    let setup = Setup { ctor: Ctor::New, hk, universe, prefix: vec![], prefix_name: "empty" };
    let (r, benign) = match parts[0] {
        "u32" => run_seq::<u32>(&setup, &ops, Plan::Every(1), 0),
        "usize" => run_seq::<usize>(&setup, &ops, Plan::Every(1), 0),
        x => panic!("unknown status type {x}"),
    };
    ctx.count("sequences", 1);
    ctx.distinct(&p);
    if let Some((i, f)) = benign {
        ctx.violation(&f.sig, format!("[{p}] at op {i} ({}) => {}", ops[i].short(), f.detail));
    }
    match r {
        Ok(ok) => {
            ctx.evals(ok.evals);
            ctx.sample(|| format!("{p}: ok, {} slots, {} elements, {} tombstones at the end", ok.slots, ok.len, ok.tombstones));
        }
        Err((i, f)) => ctx.violation(&f.sig, format!("[{p}] at op {i} ({}) => {}", ops.get(i).map_or("consume".into(), |o| o.short()), f.detail)),
    }
}

// === c17_plain: element types WITHOUT drop glue ================================================
//
// The other C17 monitors use an element type that counts live instances (to see leaks and double
// drops), so every element has drop glue. `RawTable` (like `Vec`) may special-case types for which
// `needs_drop::<T>()` is false; those paths are exercised here with plain `u64` elements against
// a `BTreeSet`, with the audit hook after every step.

fn plain_run<S>(ctx: &mut Ctx, rng: &mut Rng, hash: fn(u64) -> u64, hname: &str, steps: usize)
where
    S: linear_hashtbl::raw::Status,
{
    use std::collections::BTreeSet;
    let mut t: RawTable<u64, S> = RawTable::new();
    let mut m: BTreeSet<u64> = BTreeSet::new();
    let universe = 48u64;
    let mut log: Vec<String> = Vec::new();
    let sname = std::any::type_name::<S>();
    let check = |ctx: &mut Ctx, t: &RawTable<u64, S>, m: &BTreeSet<u64>, log: &Vec<String>, what: &str| -> bool {
        let mut ok = true;
        let tail = || log[log.len().saturating_sub(14)..].join(" ");
        if let Err(e) = t.verif_audit() {
            ctx.violation(&format!("plain:{what}:audit"), format!("{sname} hash {hname}: {e}; ops: {}", tail()));
            ok = false;
        }
        ctx.eval();
        if t.len() != m.len() {
            ctx.violation(&format!("plain:{what}:len"), format!("{sname} hash {hname}: len {} model {}; ops: {}", t.len(), m.len(), tail()));
            ok = false;
        }
        let mut seen: Vec<u64> = t.iter().copied().collect();
        seen.sort();
        if seen != m.iter().copied().collect::<Vec<_>>() {
            ctx.violation(&format!("plain:{what}:iter"), format!("{sname} hash {hname}: iter yields {seen:?}, model {m:?}; ops: {}", tail()));
            ok = false;
        }
        for k in 0..universe {
            let f = t.find(hash(k), |&e| e == k).is_some();
            if f != m.contains(&k) {
                ctx.violation(&format!("plain:{what}:find"), format!("{sname} hash {hname}: find({k}) = {f}, model {}; ops: {}", m.contains(&k), tail()));
                ok = false;
                break;
            }
        }
        ok
    };
    for _ in 0..steps {
        let k = rng.below(universe);
        let what = match rng.below(100) {
            0..=54 => {
                log.push(format!("i{k}"));
                match t.find_or_find_insert_slot(hash(k), |&e| e == k) {
                    Ok(_) => {
                        if !m.contains(&k) {
                            ctx.violation("plain:insert:phantom-element", format!("{sname} hash {hname}: key {k} reported present; ops: {}", log[log.len().saturating_sub(14)..].join(" ")));
                            return;
                        }
                    }
                    Err(slot) => {
                        if m.contains(&k) {
                            ctx.violation("plain:insert:missing-element", format!("{sname} hash {hname}: key {k} reported absent; ops: {}", log[log.len().saturating_sub(14)..].join(" ")));
                            return;
                        }
                        // SAFETY: `slot` was just returned by find_or_find_insert_slot for this hash
                        unsafe { t.insert_in_slot_unchecked(hash(k), slot, k) };
                        m.insert(k);
                    }
                }
                "insert"
            }
            55..=74 => {
                log.push(format!("r{k}"));
                let r = t.remove_entry(hash(k), |&e| e == k);
                if r.is_some() != m.remove(&k) {
                    ctx.violation("plain:remove_entry:result", format!("{sname} hash {hname}: remove_entry({k}) = {r:?}; ops: {}", log[log.len().saturating_sub(14)..].join(" ")));
                    return;
                }
                "remove_entry"
            }
            75..=82 => {
                // drain, dropped after `take` elements (possibly all, possibly none)
                let take = rng.usize(t.len() + 2);
                log.push(format!("drain-take{take}"));
                let mut got: Vec<u64> = Vec::new();
                {
                    let mut d = t.drain();
                    for _ in 0..take {
                        match d.next() {
                            Some(e) => got.push(e),
                            None => break,
                        }
                    }
                }
                if got.iter().any(|e| !m.contains(e)) || got.len() > m.len() {
                    ctx.violation("plain:drain:yielded", format!("{sname} hash {hname}: drain yielded {got:?} from {m:?}"));
                    return;
                }
                m.clear();
                "drain-partial"
            }
            83..=88 => {
                let md = rng.range(2, 4) as u64;
                log.push(format!("retain(k%{md}!=0)"));
                t.retain(|e| *e % md != 0, |_| {});
                m.retain(|e| *e % md != 0);
                "retain"
            }
            89..=91 => {
                log.push("clear".into());
                t.clear();
                m.clear();
                "clear"
            }
            92..=94 => {
                log.push("clone".into());
                t = t.clone();
                "clone"
            }
            95..=97 => {
                let add = rng.range(0, 40);
                log.push(format!("reserve({add})"));
                t.reserve(add);
                "reserve"
            }
            _ => {
                log.push("into_iter+rebuild".into());
                let mut all: Vec<u64> = std::mem::replace(&mut t, RawTable::new()).into_iter().collect();
                all.sort();
                if all != m.iter().copied().collect::<Vec<_>>() {
                    ctx.violation("plain:into_iter:elements", format!("{sname} hash {hname}: {all:?} vs {m:?}"));
                    return;
                }
                for k in all {
                    if let Err(slot) = t.find_or_find_insert_slot(hash(k), |&e| e == k) {
                        unsafe { t.insert_in_slot_unchecked(hash(k), slot, k) };
                    }
                }
                "into_iter"
            }
        };
        if !check(ctx, &t, &m, &log, what) {
            return;
        }
        ctx.distinct(("plain", hname.to_string(), what, t.slots(), m.len() / 4));
    }
    ctx.count("plain_element_sequences", 1);
}

/// `c17_plain`: `RawTable<u64, _>` (no drop glue) under random operation sequences
pub fn plain(ctx: &mut Ctx) {
    let mut rng = ctx.rng(0xC17_91);
    let seqs = ctx.by_tier(40, 400);
    let steps = ctx.by_tier(1500, 6000);
    let hashes: [(fn(u64) -> u64, &str); 5] = [
        (|k| k, "identity"),
        (|_| 0, "all-equal"),
        (|k| k.wrapping_mul(0x9E37_79B9_7F4A_7C15), "multiplicative"),
        (|k| (k / 3) << 29, "equal-below-bit-29"),
        (|k| u64::MAX - (k % 5), "wrapping-cluster"),
    ];
    for s in 0..seqs {
        let (h, name) = hashes[(s + ctx.shard) % hashes.len()];
        if s % 2 == 0 {
            plain_run::<u32>(ctx, &mut rng, h, name, steps);
        } else {
            plain_run::<usize>(ctx, &mut rng, h, name, steps);
        }
    }
    ctx.sample(|| "RawTable<u64, u32|usize> (element type without drop glue): random insert / remove_entry / partially consumed drain / retain / clear / clone / reserve / into_iter under 5 hash functions, BTreeSet model, audit hook + len + iter + find of all keys after every operation".into());
}
