//! C15 — DDDMP export / import (oxidd-dump::dddmp)
//!
//! Monitors:
//!  * `c15_roundtrip`: export -> `DumpHeader::load` + `import` into the same manager (handle
//!    equality) and into fresh managers built from the header (table equality, audit), header
//!    accessors against an independent expectation (names sanitised as documented, support,
//!    order, root names), strict-mode error reporting.
//!  * `c15_malformed`: every truncation point and seeded mutations of valid files; the importer
//!    must return (Ok or Err), never panic; Ok => audit passes, and for ASCII files the imported
//!    roots are compared with an independent evaluation of the node lines.
//!  * `c15_huge`: header counts that make the importer reserve memory (capacity overflow panics
//!    in-process; plain "allocation failed" aborts observed in a child with `ulimit -v`).
//!  * `c15_case`: replay helper (`--param kind:hex` or `--param m:<corpus>:<mutation>`).

use std::collections::HashSet;
use std::fmt::Debug;
use std::io;

use oxidd::{BooleanFunction, Edge, Function, HasLevel, InnerNode, Manager, ManagerRef, Node, NodeID};
use oxidd_dump::dddmp::{self, DDDMPVersion, DumpHeader, ExportSettings};

use crate::audit;
use crate::ctx::{self, Ctx};
use crate::kinds::{self, BoolKind, Sem};
use crate::rng::{all_perms, hash64, mix, Rng};
use crate::tt::Tt;

// ---------------------------------------------------------------------------------------------
// Reference models
// ---------------------------------------------------------------------------------------------

pub trait Model: Clone + Eq + Debug {
    fn n(&self) -> u32;
    /// k-variable model g with g(a') = self(a), where bit svo[i] of a is bit i of a' and all
    /// other bits of a are 0
    fn compress(&self, svo: &[u32]) -> Self;
    fn short(&self) -> String;
}

fn spread(a2: usize, svo: &[u32]) -> usize {
    let mut a = 0usize;
    for (i, &v) in svo.iter().enumerate() {
        if (a2 >> i) & 1 == 1 {
            a |= 1 << v;
        }
    }
    a
}

impl Model for Tt {
    fn n(&self) -> u32 {
        self.n
    }
    fn compress(&self, svo: &[u32]) -> Self {
        Tt::from_fn(svo.len() as u32, |a2| self.get(spread(a2, svo)))
    }
    fn short(&self) -> String {
        if self.n <= 6 { self.hex() } else { format!("{}v:#{:016x}", self.n, hash64(&self.w.iter().flat_map(|w| w.to_le_bytes()).collect::<Vec<u8>>())) }
    }
}

/// value table of a multi-terminal function
#[derive(Clone, PartialEq, Eq, Debug)]
pub struct Vt<T> {
    pub n: u32,
    pub v: Vec<T>,
}

impl<T: Clone + Eq + Debug> Vt<T> {
    fn cof(&self, var: u32, val: bool) -> Vt<T> {
        let bit = 1usize << var;
        Vt { n: self.n, v: (0..self.v.len()).map(|a| self.v[if val { a | bit } else { a & !bit }].clone()).collect() }
    }
    fn depends_on(&self, var: u32) -> bool {
        self.cof(var, false) != self.cof(var, true)
    }
    fn is_const(&self) -> bool {
        self.v.iter().all(|x| *x == self.v[0])
    }
}

impl<T: Clone + Eq + Debug> Model for Vt<T> {
    fn n(&self) -> u32 {
        self.n
    }
    fn compress(&self, svo: &[u32]) -> Self {
        Vt { n: svo.len() as u32, v: (0..1usize << svo.len()).map(|a2| self.v[spread(a2, svo)].clone()).collect() }
    }
    fn short(&self) -> String {
        if self.n <= 3 { format!("{:?}", self.v) } else { format!("{}v:{:?}..", self.n, &self.v[..8]) }
    }
}

// ---------------------------------------------------------------------------------------------
// Kind adapter
// ---------------------------------------------------------------------------------------------

pub trait DKind: 'static {
    const NAME: &'static str;
    /// documented: binary mode is used (unless ASCII is enforced) for this kind
    const BINARY: bool;
    const RULE: audit::Rule;
    type MR: ManagerRef + 'static;
    type F: Function<ManagerRef = Self::MR> + Clone + Eq;
    type M: Model;
    fn new_manager() -> Self::MR;
    fn set_order(mref: &Self::MR, order: &[u32]);
    fn build(mref: &Self::MR, model: &Self::M) -> Self::F;
    fn interp(f: &Self::F) -> Self::M;
    /// variables that own a node in the reduced diagram of the function (from the model alone)
    fn support(model: &Self::M) -> Vec<u32>;
    /// random function over n variables all of whose nodes are labelled by variables in `used`
    fn random_model(n: u32, used: &[u32], rng: &mut Rng) -> Self::M;
    /// all 256 three-variable functions by index (Boolean kinds) or a seeded sample (others)
    fn model3(idx: usize) -> Self::M;
    fn export(set: &ExportSettings, mref: &Self::MR, roots: &[&Self::F], names: Option<&[&str]>) -> (Vec<u8>, io::Result<()>);
    fn import(mref: &Self::MR, header: &DumpHeader, input: &mut &[u8], support_vars: &[u32]) -> io::Result<Vec<Self::F>>;
    fn audit(mref: &Self::MR) -> audit::Structure;
    /// number of distinct nodes (inner + terminal) reachable from the roots, by an own traversal
    fn count_nodes(mref: &Self::MR, roots: &[&Self::F]) -> usize;
    /// reference semantics of ASCII node lines (None: no reference evaluator for this kind)
    const REF_SEM: Option<Sem>;
    fn model_from_tt(_t: Tt) -> Option<Self::M> {
        None
    }
}

fn count_nodes_in<M: Manager>(m: &M, roots: &[&M::Edge]) -> usize {
    fn rec<M: Manager>(m: &M, e: &M::Edge, seen: &mut HashSet<NodeID>) {
        if !seen.insert(e.node_id()) {
            return;
        }
        if let Node::Inner(n) = m.get_node(e) {
            for c in n.children() {
                rec(m, &c, seen);
            }
        }
    }
    let mut seen = HashSet::new();
    for r in roots {
        rec(m, r, &mut seen);
    }
    seen.len()
}

/// random table over n variables that depends only on `used` (ZBDD reading: other variables
/// occur in no member set)
fn random_tt(n: u32, used: &[u32], zero_sup: bool, rng: &mut Rng) -> Tt {
    let k = used.len() as u32;
    let base = if rng.chance(1, 3) { Tt::random_biased(k, rng) } else { Tt::random(k, rng) };
    let used_mask: usize = used.iter().map(|&v| 1usize << v).sum();
    Tt::from_fn(n, |a| {
        if zero_sup && a & !used_mask != 0 {
            return false;
        }
        let mut a2 = 0usize;
        for (i, &v) in used.iter().enumerate() {
            if (a >> v) & 1 == 1 {
                a2 |= 1 << i;
            }
        }
        base.get(a2)
    })
}

macro_rules! dkind_bool {
    ($name:ident, $k:ty, $binary:expr) => {
        pub struct $name;
        impl DKind for $name {
            const NAME: &'static str = <$k as BoolKind>::NAME;
            const BINARY: bool = $binary;
            const RULE: audit::Rule = match <$k as BoolKind>::SEM {
                Sem::Plain => audit::Rule::Bdd,
                Sem::Complement => audit::Rule::Bcdd,
                Sem::ZeroSup => audit::Rule::Zbdd,
            };
            const REF_SEM: Option<Sem> = Some(<$k as BoolKind>::SEM);
            type MR = kinds::MRefOf<$k>;
            type F = <$k as BoolKind>::F;
            type M = Tt;
            fn new_manager() -> Self::MR {
                <$k as BoolKind>::new_manager(1 << 13, 1 << 10, 1)
            }
            fn set_order(mref: &Self::MR, order: &[u32]) {
                kinds::set_order(mref, order)
            }
            fn build(mref: &Self::MR, model: &Tt) -> Self::F {
                kinds::build_shannon::<$k>(mref, model)
            }
            fn interp(f: &Self::F) -> Tt {
                kinds::interp_tt::<$k>(f)
            }
            fn support(t: &Tt) -> Vec<u32> {
                match <$k as BoolKind>::SEM {
                    Sem::ZeroSup => (0..t.n).filter(|&v| !t.and(&Tt::var(t.n, v)).is_zero()).collect(),
                    _ => t.support(),
                }
            }
            fn random_model(n: u32, used: &[u32], rng: &mut Rng) -> Tt {
                random_tt(n, used, <$k as BoolKind>::SEM == Sem::ZeroSup, rng)
            }
            fn model3(idx: usize) -> Tt {
                Tt::from_u64(3, (idx % 256) as u64)
            }
            fn model_from_tt(t: Tt) -> Option<Tt> {
                Some(t)
            }
            fn export(set: &ExportSettings, mref: &Self::MR, roots: &[&Self::F], names: Option<&[&str]>) -> (Vec<u8>, io::Result<()>) {
                mref.with_manager_shared(|m| {
                    let mut buf = Vec::new();
                    let res = match names {
                        None => set.export(&mut buf, m, roots.iter().copied()),
                        Some(ns) => set.export_with_names(&mut buf, m, roots.iter().copied().zip(ns.iter().copied())),
                    };
                    (buf, res)
                })
            }
            fn import(mref: &Self::MR, header: &DumpHeader, input: &mut &[u8], support_vars: &[u32]) -> io::Result<Vec<Self::F>> {
                mref.with_manager_shared(|m| {
                    dddmp::import::<Self::F>(&mut *input, header, m, support_vars.iter().copied(), <Self::F as BooleanFunction>::not_edge_owned)
                })
            }
            fn audit(mref: &Self::MR) -> audit::Structure {
                mref.with_manager_shared(|m| {
                    audit::structural(m, Self::RULE, &|t| <$k as BoolKind>::SEM == Sem::ZeroSup && !<$k as BoolKind>::term(t))
                })
            }
            fn count_nodes(mref: &Self::MR, roots: &[&Self::F]) -> usize {
                mref.with_manager_shared(|m| {
                    let es: Vec<_> = roots.iter().map(|f| f.as_edge(m)).collect();
                    count_nodes_in(m, &es)
                })
            }
        }
    };
}

dkind_bool!(DBdd, kinds::Bdd, false);
dkind_bool!(DBcdd, kinds::Bcdd, true);
dkind_bool!(DZbdd, kinds::Zbdd, false);

// --- MTBDD ------------------------------------------------------------------------------------

use oxidd::mtbdd::terminal::{F64, I64};
use oxidd::mtbdd::{MTBDDFunction, MTBDDManagerRef};
use oxidd::PseudoBooleanFunction;

pub trait MtVal: Copy + Eq + Debug + 'static {
    const TNAME: &'static str;
    fn pool() -> Vec<Self>;
}
impl MtVal for I64 {
    const TNAME: &'static str = "mtbdd-i64";
    fn pool() -> Vec<Self> {
        vec![
            I64::Num(0),
            I64::Num(1),
            I64::Num(-1),
            I64::Num(42),
            I64::Num(-7),
            I64::Num(i64::MAX),
            I64::Num(i64::MIN),
            I64::NaN,
            I64::PlusInf,
            I64::MinusInf,
            I64::Num(1_000_000_007),
        ]
    }
}
impl MtVal for F64 {
    const TNAME: &'static str = "mtbdd-f64";
    fn pool() -> Vec<Self> {
        [
            0.0,
            1.0,
            -1.0,
            0.1,
            -2.5,
            1e300,
            -1e-300,
            f64::MAX,
            f64::MIN_POSITIVE,
            5e-324,
            f64::NAN,
            f64::INFINITY,
            f64::NEG_INFINITY,
            std::f64::consts::PI,
            123456789.125,
            -0.0,
        ]
        .into_iter()
        .map(F64::from)
        .collect()
    }
}

fn random_vt<T: MtVal>(n: u32, used: &[u32], rng: &mut Rng) -> Vt<T> {
    let pool = T::pool();
    let k = used.len();
    let nvals = rng.range(1, 4);
    let vals: Vec<T> = (0..nvals).map(|_| *rng.pick(&pool)).collect();
    let base: Vec<T> = (0..1usize << k).map(|_| *rng.pick(&vals)).collect();
    Vt {
        n,
        v: (0..1usize << n)
            .map(|a| {
                let mut a2 = 0usize;
                for (i, &v) in used.iter().enumerate() {
                    if (a >> v) & 1 == 1 {
                        a2 |= 1 << i;
                    }
                }
                base[a2]
            })
            .collect(),
    }
}

macro_rules! dkind_mt {
    ($name:ident, $t:ty) => {
        pub struct $name;
        impl $name {
            fn build_rec<'id>(m: &<MTBDDFunction<$t> as Function>::Manager<'id>, t: &Vt<$t>, from: u32) -> MTBDDFunction<$t> {
                if t.is_const() {
                    return MTBDDFunction::<$t>::constant(m, t.v[0]).unwrap();
                }
                let mut v = from;
                while !t.depends_on(v) {
                    v += 1;
                }
                let hi = Self::build_rec(m, &t.cof(v, true), v + 1);
                let lo = Self::build_rec(m, &t.cof(v, false), v + 1);
                MTBDDFunction::<$t>::var(m, v).unwrap().ite(&hi, &lo).unwrap()
            }
        }
        impl DKind for $name {
            const NAME: &'static str = <$t as MtVal>::TNAME;
            const BINARY: bool = false;
            const RULE: audit::Rule = audit::Rule::Mtbdd;
            const REF_SEM: Option<Sem> = None;
            type MR = MTBDDManagerRef<$t>;
            type F = MTBDDFunction<$t>;
            type M = Vt<$t>;
            fn new_manager() -> Self::MR {
                oxidd::mtbdd::new_manager::<$t>(1 << 13, 1 << 8, 1 << 10, 1)
            }
            fn set_order(mref: &Self::MR, order: &[u32]) {
                kinds::set_order(mref, order)
            }
            fn build(mref: &Self::MR, model: &Vt<$t>) -> Self::F {
                mref.with_manager_shared(|m| {
                    assert_eq!(m.num_vars(), model.n);
                    Self::build_rec(m, model, 0)
                })
            }
            fn interp(f: &Self::F) -> Vt<$t> {
                f.with_manager_shared(|m, root| {
                    fn walk<M: Manager<Terminal = $t>>(m: &M, e: &M::Edge, a: usize) -> $t
                    where
                        M::InnerNode: HasLevel,
                    {
                        use std::borrow::Borrow;
                        match m.get_node(e) {
                            Node::Inner(n) => {
                                let v = m.level_to_var(n.level());
                                let c = n.child(if (a >> v) & 1 == 1 { 0 } else { 1 });
                                walk(m, &c, a)
                            }
                            Node::Terminal(t) => *t.borrow(),
                        }
                    }
                    let n = m.num_vars();
                    Vt { n, v: (0..1usize << n).map(|a| walk(m, root, a)).collect() }
                })
            }
            fn support(t: &Vt<$t>) -> Vec<u32> {
                (0..t.n).filter(|&v| t.depends_on(v)).collect()
            }
            fn random_model(n: u32, used: &[u32], rng: &mut Rng) -> Vt<$t> {
                random_vt::<$t>(n, used, rng)
            }
            fn model3(idx: usize) -> Vt<$t> {
                let mut rng = Rng::new(mix(0xC15, idx as u64));
                if idx % 16 == 0 {
                    // constant functions (a single terminal)
                    let c = *rng.pick(&<$t as MtVal>::pool());
                    return Vt { n: 3, v: vec![c; 8] };
                }
                random_vt::<$t>(3, &[0, 1, 2], &mut rng)
            }
            fn export(set: &ExportSettings, mref: &Self::MR, roots: &[&Self::F], names: Option<&[&str]>) -> (Vec<u8>, io::Result<()>) {
                mref.with_manager_shared(|m| {
                    let mut buf = Vec::new();
                    let res = match names {
                        None => set.export(&mut buf, m, roots.iter().copied()),
                        Some(ns) => set.export_with_names(&mut buf, m, roots.iter().copied().zip(ns.iter().copied())),
                    };
                    (buf, res)
                })
            }
            fn import(mref: &Self::MR, header: &DumpHeader, input: &mut &[u8], support_vars: &[u32]) -> io::Result<Vec<Self::F>> {
                mref.with_manager_shared(|m| {
                    // MTBDDs have no complement edges; negative ids cannot be honoured
                    dddmp::import::<Self::F>(&mut *input, header, m, support_vars.iter().copied(), |_, e| Ok(e))
                })
            }
            fn audit(mref: &Self::MR) -> audit::Structure {
                mref.with_manager_shared(|m| audit::structural(m, Self::RULE, &|_| false))
            }
            fn count_nodes(mref: &Self::MR, roots: &[&Self::F]) -> usize {
                mref.with_manager_shared(|m| {
                    let es: Vec<_> = roots.iter().map(|f| f.as_edge(m)).collect();
                    count_nodes_in(m, &es)
                })
            }
        }
    };
}

dkind_mt!(DMtI64, I64);
dkind_mt!(DMtF64, F64);

// ---------------------------------------------------------------------------------------------
// Name sanitising model (from the rustdoc of ExportSettings::strict / export_with_names)
// ---------------------------------------------------------------------------------------------

fn bad_byte(b: u8) -> bool {
    b == b' ' || b.is_ascii_control()
}
fn needs_repl(s: &str) -> bool {
    s.bytes().any(bad_byte)
}
/// "Each space or ASCII control character will be replaced by an underscore"
fn sanitise(s: &str) -> String {
    s.chars().map(|c| if c.is_ascii() && bad_byte(c as u8) { '_' } else { c }).collect()
}
fn lead_us(s: &str) -> usize {
    s.bytes().take_while(|&b| b == b'_').count()
}
fn fname_expected(i: usize, s: &str) -> String {
    if s.is_empty() { format!("_f{i}") } else { sanitise(s) }
}
/// diagram name: "Control characters will be replaced by spaces"
fn dd_expected(s: &str) -> String {
    s.chars().map(|c| if c.is_ascii_control() { ' ' } else { c }).collect()
}

/// Is `got` an acceptable written form of variable `v` with original name `orig`?
/// `l_orig` / `l_san`: longest run of leading underscores over the original / sanitised names.
fn var_name_ok(v: usize, orig: &str, got: &str, l_orig: usize, l_san: usize) -> bool {
    let gen_prefix = |k: usize| format!("{}x{v}", "_".repeat(k));
    if orig.is_empty() {
        // `_x{i}` with "as many underscores added to the prefix as there are in the longest
        // prefix over all present variable names"
        return got == gen_prefix(1 + l_orig) || got == gen_prefix(1 + l_san);
    }
    let san = sanitise(orig);
    if san == orig {
        return got == orig;
    }
    // replaced: plain sanitised form, or (collisions; not documented in detail) a unique
    // generated prefix followed by the sanitised form
    got == san || got == format!("{}_{san}", gen_prefix(1 + l_orig)) || got == format!("{}_{san}", gen_prefix(1 + l_san))
}

// ---------------------------------------------------------------------------------------------
// Round trip engine
// ---------------------------------------------------------------------------------------------

/// `DumpHeader::var_names()` documents "the original variable order". DDDMP 2.0 files cannot carry
/// the numbers of variables outside the support, and the importer assigns their names by level.
/// Set to true once the rustdoc states this (deliver/fix-09): the monitor then checks exactly the
/// documented assignment instead of reporting `header:varnames:v2-unused-vars-misplaced`.
pub const V2_UNUSED_NAMES_BY_LEVEL_DOCUMENTED: bool = false;

pub struct World<D: DKind> {
    pub mref: D::MR,
    pub n: u32,
    pub order: Vec<u32>,
    pub names: Vec<String>,
    pub naming: &'static str,
}

pub fn make_world<D: DKind>(n: u32, order: &[u32], names: &[String], naming: &'static str) -> World<D> {
    let mref = D::new_manager();
    mref.with_manager_exclusive(|m| {
        if names.iter().all(|s| s.is_empty()) {
            m.add_vars(n);
        } else {
            m.add_named_vars(names.iter().cloned()).expect("name pool must be duplicate free");
        }
    });
    D::set_order(&mref, order);
    let got = kinds::current_order(&mref);
    assert_eq!(got, order, "set_var_order on an empty manager");
    World { mref, n, order: order.to_vec(), names: names.to_vec(), naming }
}

#[derive(Clone, Debug, Hash)]
pub struct Cfg {
    pub ascii: bool,
    pub v3: bool,
    pub strict: bool,
    pub dd: String,
    pub root_names: Option<Vec<String>>,
}

impl Cfg {
    fn settings(&self) -> ExportSettings<'_> {
        let s = ExportSettings::default()
            .version(if self.v3 { DDDMPVersion::V3_0 } else { DDDMPVersion::V2_0 })
            .strict(self.strict)
            .diagram_name(&self.dd);
        if self.ascii { s.ascii() } else { s.binary() }
    }
}

fn lossy(bytes: &[u8], max: usize) -> String {
    let s: String = String::from_utf8_lossy(&bytes[..bytes.len().min(max)]).into_owned();
    if bytes.len() > max { format!("{s}…[{} bytes]", bytes.len()) } else { s }
}

pub fn panic_class(msg: &str) -> String {
    let loc = ctx::last_panic_loc();
    let file = if loc.contains("/rustc/") || loc.contains("/library/") {
        "std".to_string()
    } else {
        loc.rsplit('/').next().unwrap_or("").split(':').next().unwrap_or("").to_string()
    };
    let class = if msg.contains("capacity overflow") {
        "capacity-overflow"
    } else if msg.contains("subtract with overflow") {
        "sub-overflow"
    } else if msg.contains("with overflow") {
        "arith-overflow"
    } else if msg.contains("index out of bounds") || msg.contains("out of range for slice") {
        "index-oob"
    } else if msg.contains("could not find the T terminal") {
        "no-T-terminal"
    } else if msg.contains("`support_vars` must") {
        "assert-support-vars"
    } else if msg.contains("called `Result::unwrap()`") || msg.contains("called `Option::unwrap()`") {
        "unwrap"
    } else if msg.contains("assertion") {
        "assertion"
    } else {
        "other"
    };
    format!("{class}@{file}")
}

pub enum Loaded<D: DKind> {
    LoadErr(String),
    LoadPanic(String),
    ImportErr(DumpHeader, String),
    ImportPanic(DumpHeader, String),
    Ok(DumpHeader, Vec<D::F>),
}

/// `DumpHeader::load` + `import` of `bytes` into `mref` (both under catch)
pub fn load_import<D: DKind>(bytes: &[u8], mref: &D::MR, prepare: impl FnOnce(&DumpHeader) -> Vec<u32>) -> Loaded<D> {
    let mut cur: &[u8] = bytes;
    let header = match ctx::catch(|| DumpHeader::load(&mut cur)) {
        Err(p) => return Loaded::LoadPanic(p),
        Ok(Err(e)) => return Loaded::LoadErr(e.to_string()),
        Ok(Ok(h)) => h,
    };
    let support_vars = prepare(&header);
    match ctx::catch(|| D::import(mref, &header, &mut cur, &support_vars)) {
        Err(p) => Loaded::ImportPanic(header, p),
        Ok(Err(e)) => Loaded::ImportErr(header, e.to_string()),
        Ok(Ok(fs)) => Loaded::Ok(header, fs),
    }
}

/// fresh manager "as the docs prescribe" (same recipe as oxidd-cli): `num_vars()` variables,
/// named if the header has names, `set_var_order(support_var_order())`
pub fn fresh_full<D: DKind>(h: &DumpHeader) -> (D::MR, bool) {
    let mref = D::new_manager();
    let mut named = false;
    mref.with_manager_exclusive(|m| {
        if let Some(ns) = h.var_names() {
            let uniq: HashSet<&str> = ns.iter().map(|s| s.as_str()).collect();
            if uniq.len() == ns.len() && ns.iter().all(|s| !s.is_empty()) {
                m.add_named_vars(ns.iter().cloned()).expect("unique names");
                named = true;
                return;
            }
        }
        m.add_vars(h.num_vars());
    });
    D::set_order(&mref, h.support_var_order());
    (mref, named)
}

struct Expect {
    /// the file is expected to carry variable names
    names_written: bool,
    strict_err: bool,
    /// reasons for the strict error
    reasons: Vec<&'static str>,
    any_var_space: bool,
}

fn expectations<D: DKind>(w: &World<D>, cfg: &Cfg) -> Expect {
    let named = w.names.iter().filter(|s| !s.is_empty()).count() as u32;
    let names_written = w.n > 0 && (named == w.n || (!cfg.strict && named > 0));
    let mut reasons = Vec::new();
    if cfg.dd.bytes().any(|b| b.is_ascii_control()) {
        reasons.push("dd-control");
    }
    let mut any_var_space = false;
    if names_written {
        if w.names.iter().any(|s| s.bytes().any(|b| b.is_ascii_control())) {
            reasons.push("varname-control");
        }
        if w.names.iter().any(|s| s.contains(' ')) {
            reasons.push("varname-space");
            any_var_space = true;
        }
    }
    if let Some(rn) = &cfg.root_names {
        if rn.iter().any(|s| s.is_empty()) {
            reasons.push("fname-empty");
        }
        if rn.iter().any(|s| needs_repl(s)) {
            reasons.push("fname-space-or-control");
        }
    }
    Expect { names_written, strict_err: cfg.strict && !reasons.is_empty(), reasons, any_var_space }
}

pub struct Trip {
    pub bytes: Vec<u8>,
    /// load + same-manager import succeeded (file usable as corpus)
    pub good: bool,
}

/// One export + all checks. `roots`: (handle, model).
pub fn roundtrip<D: DKind>(ctx: &mut Ctx, w: &World<D>, roots: &[(D::F, D::M)], cfg: &Cfg, variant_b: bool) -> Trip {
    let k = D::NAME;
    let wit = |detail: &str| {
        format!(
            "{k} n={} order={:?} naming={} names={:?} roots=[{}] cfg={{ascii:{},v3:{},strict:{},dd:{:?},root_names:{:?}}} | {detail}",
            w.n,
            w.order,
            w.naming,
            w.names,
            roots.iter().map(|r| r.1.short()).collect::<Vec<_>>().join(","),
            cfg.ascii,
            cfg.v3,
            cfg.strict,
            cfg.dd,
            cfg.root_names
        )
    };
    ctx.count("roundtrips", 1);
    let exp = expectations(w, cfg);
    let frefs: Vec<&D::F> = roots.iter().map(|r| &r.0).collect();
    let rn_refs: Option<Vec<&str>> = cfg.root_names.as_ref().map(|v| v.iter().map(|s| s.as_str()).collect());
    let set = cfg.settings();
    let exported = ctx::catch(|| D::export(&set, &w.mref, &frefs, rn_refs.as_deref()));
    let (bytes, res) = match exported {
        Ok(x) => x,
        Err(p) => {
            ctx.violation(&format!("export:panic:{}", panic_class(&p)), wit(&p));
            return Trip { bytes: Vec::new(), good: false };
        }
    };
    let mut trip = Trip { bytes, good: false };
    let bytes = &trip.bytes;

    // --- result of the exporter vs strict mode --------------------------------------------
    ctx.eval();
    match &res {
        Ok(()) => {
            if exp.strict_err {
                ctx.count("strict_errors_missing", 1);
                let sub = if exp.reasons == ["varname-space"] { "varname-space" } else { "other" };
                ctx.violation(&format!("strict:missing-error:{sub}"), wit(&format!("replacement needed ({:?}) but export returned Ok", exp.reasons)));
            }
        }
        Err(e) => {
            if e.kind() == io::ErrorKind::InvalidInput && exp.strict_err {
                ctx.count("strict_errors_reported", 1);
            } else {
                ctx.violation("export:unexpected-error", wit(&format!("export returned {e:?} (expected strict error: {})", exp.strict_err)));
                return trip;
            }
        }
    }

    // --- raw first lines ------------------------------------------------------------------
    let want_ver = if cfg.v3 { ".ver DDDMP-3.0\n" } else { ".ver DDDMP-2.0\n" };
    ctx.check(bytes.starts_with(want_ver.as_bytes()), "file:version-line", || wit(&lossy(bytes, 40)));
    let mode_line = bytes.split(|&b| b == b'\n').nth(1).unwrap_or(&[]);
    let want_bin = !cfg.ascii && D::BINARY;
    ctx.check(mode_line == if want_bin { b".mode B" } else { b".mode A" }, &format!("{k}:file:mode-line"), || {
        wit(&format!("second line {:?}, binary documented for this kind: {}", lossy(mode_line, 20), D::BINARY))
    });

    // --- load + import into the same manager ----------------------------------------------
    let loaded = load_import::<D>(bytes, &w.mref, |h| h.support_var_order().to_vec());
    ctx.eval();
    let file_txt = || lossy(bytes, 700);
    let (header, same) = match loaded {
        Loaded::LoadErr(e) => {
            let sig = if exp.any_var_space { "names:space-not-sanitised".to_string() } else { "export-ok-import-err:load".to_string() };
            ctx.count("import_errors_on_exported_files", 1);
            ctx.violation(&sig, wit(&format!("DumpHeader::load: {e} | file: {}", file_txt())));
            return trip;
        }
        Loaded::LoadPanic(p) => {
            ctx.violation(&format!("export-ok-load-panic:{}", panic_class(&p)), wit(&format!("{p} | file: {}", file_txt())));
            return trip;
        }
        Loaded::ImportErr(h, e) => {
            ctx.count("import_errors_on_exported_files", 1);
            ctx.violation("export-ok-import-err:import", wit(&format!("import (same manager): {e} | file: {}", file_txt())));
            (h, None)
        }
        Loaded::ImportPanic(h, p) => {
            ctx.violation(&format!("{k}:export-ok-import-panic:{}", panic_class(&p)), wit(&format!("import (same manager): {p} | file: {}", file_txt())));
            (h, None)
        }
        Loaded::Ok(h, fs) => (h, Some(fs)),
    };

    // --- header accessors -----------------------------------------------------------------
    let models: Vec<&D::M> = roots.iter().map(|r| &r.1).collect();
    let mut supp: Vec<u32> = Vec::new();
    for m in &models {
        for v in D::support(m) {
            if !supp.contains(&v) {
                supp.push(v);
            }
        }
    }
    supp.sort();
    let svo: Vec<u32> = w.order.iter().copied().filter(|v| supp.contains(v)).collect();
    let levels: Vec<u32> = supp.iter().map(|v| w.order.iter().position(|x| x == v).unwrap() as u32).collect();
    ctx.check(header.num_vars() == w.n, "header:num_vars", || wit(&format!("got {}", header.num_vars())));
    ctx.check(header.support_vars() == &supp[..] && header.num_support_vars() as usize == supp.len(), "header:support_vars", || {
        wit(&format!("got {:?} (num {}) want {supp:?}", header.support_vars(), header.num_support_vars()))
    });
    ctx.check(header.support_var_order() == &svo[..], "header:support_var_order", || {
        wit(&format!("got {:?} want {svo:?}", header.support_var_order()))
    });
    ctx.check(header.support_var_to_level() == &levels[..], "header:support_var_to_level", || {
        wit(&format!("got {:?} want {levels:?}", header.support_var_to_level()))
    });
    ctx.check(header.num_roots() == roots.len(), "header:num_roots", || wit(&format!("got {}", header.num_roots())));
    let nn = D::count_nodes(&w.mref, &frefs);
    ctx.check(header.num_nodes() == nn, "header:num_nodes", || wit(&format!("got {} own traversal {nn}", header.num_nodes())));
    // diagram name (leading/trailing blanks are lost by the header parser: tolerated, counted)
    {
        let want = dd_expected(&cfg.dd);
        let got = header.diagram_name().unwrap_or("");
        if got != want {
            ctx.count("dd_name_outer_blanks_trimmed", 1);
        }
        ctx.check(got == want.trim_matches(' '), "header:diagram_name", || wit(&format!("got {got:?} want {want:?}")));
    }
    // root names
    {
        let want: Option<Vec<String>> = match &cfg.root_names {
            Some(rn) if !rn.is_empty() => Some(rn.iter().enumerate().map(|(i, s)| fname_expected(i, s)).collect()),
            _ => None,
        };
        let got: Option<Vec<String>> = header.root_names().map(|x| x.to_vec());
        ctx.check(got == want, "header:rootnames", || wit(&format!("got {got:?} want {want:?}")));
        if want.is_some() && cfg.root_names.as_ref().unwrap().iter().any(|s| s.is_empty() || needs_repl(s)) {
            ctx.count("sanitised_root_name_sets", 1);
        }
    }
    // variable names
    {
        let got = header.var_names();
        ctx.eval();
        // a blank that went into the file verbatim shifts / drops tokens: same clause as the
        // rejected files above
        let vn = |sub: &'static str| if exp.any_var_space { "names:space-not-sanitised".to_string() } else { format!("header:varnames{sub}") };
        match (exp.names_written, got) {
            (false, None) => {}
            (false, Some(g)) => ctx.violation("header:varnames:unexpected", wit(&format!("got {g:?}, none expected (strict: only if all variables are named)"))),
            (true, None) => ctx.violation(&vn(":missing"), wit(&format!("file: {}", file_txt()))),
            (true, Some(g)) => {
                let l_orig = w.names.iter().map(|s| lead_us(s)).max().unwrap_or(0);
                let l_san = w.names.iter().map(|s| lead_us(&sanitise(s))).max().unwrap_or(0);
                let uniq: HashSet<&String> = g.iter().collect();
                let shape_ok = g.len() == w.n as usize && g.iter().all(|s| !s.is_empty() && !needs_repl(s));
                if !shape_ok {
                    ctx.violation(&vn(":shape"), wit(&format!("got {g:?}")));
                } else {
                    if uniq.len() != g.len() {
                        ctx.violation(&vn(":not-unique"), wit(&format!("got {g:?}")));
                    }
                    let ok_at = |v: usize| var_name_ok(v, &w.names[v], &g[v], l_orig, l_san);
                    if cfg.v3 || supp.len() == w.n as usize {
                        if !(0..w.n as usize).all(ok_at) {
                            ctx.violation(&vn(""), wit(&format!("got {g:?}")));
                        }
                    } else {
                        // 2.0 has no .varnames: names of support variables are determined
                        if !supp.iter().all(|&v| ok_at(v as usize)) {
                            ctx.violation(&vn(""), wit(&format!("(support variables) got {g:?}")));
                        } else if V2_UNUSED_NAMES_BY_LEVEL_DOCUMENTED {
                            // amended rustdoc (fix-09): names of the variables outside the support
                            // go to the free variable numbers in level order
                            let free: Vec<usize> = (0..w.n as usize).filter(|v| !supp.contains(&(*v as u32))).collect();
                            let by_level: Vec<usize> = w.order.iter().map(|&v| v as usize).filter(|v| !supp.contains(&(*v as u32))).collect();
                            let l_all = (l_orig, l_san);
                            let ok = free.iter().zip(&by_level).all(|(&slot, &src)| {
                                // the name written for variable `src` is reported at number `slot`
                                var_name_ok(src, &w.names[src], &g[slot], l_all.0, l_all.1)
                            });
                            if !ok {
                                ctx.violation("header:varnames", wit(&format!("(2.0, unused variables by level) got {g:?}")));
                            }
                        } else if !(0..w.n as usize).all(ok_at) {
                            // names of unused variables are attached to other variables
                            ctx.count("v2_unused_var_names_misplaced", 1);
                            ctx.violation("header:varnames:v2-unused-vars-misplaced", wit(&format!("got {g:?}")));
                        }
                    }
                    if w.names.iter().any(|s| s.is_empty() || needs_repl(s)) {
                        ctx.count("sanitised_var_name_sets", 1);
                    }
                }
            }
        }
    }

    let Some(same) = same else { return trip };
    // --- (a) same manager: handle equality ---------------------------------------------------
    ctx.count("same_manager_imports", 1);
    ctx.eval();
    if same.len() != roots.len() {
        ctx.violation(&format!("{k}:roundtrip-same-manager:root-count"), wit(&format!("{} roots imported", same.len())));
        return trip;
    }
    let mut all_eq = true;
    for (i, (f, r)) in same.iter().zip(roots).enumerate() {
        ctx.eval();
        if *f != r.0 {
            all_eq = false;
            let it = D::interp(f);
            ctx.violation(
                &format!("{k}:roundtrip-same-manager:handle-differs"),
                wit(&format!("root {i}: imported handle denotes {} | file: {}", it.short(), file_txt())),
            );
            break;
        }
    }
    drop(same);
    trip.good = all_eq && res.is_ok();
    let bytes = &trip.bytes;

    // --- (b) fresh manager, recipe of the docs / oxidd-cli ----------------------------------
    {
        let mut fresh: Option<(D::MR, bool)> = None;
        let mut cur: &[u8] = bytes;
        let h = DumpHeader::load(&mut cur).expect("loaded before");
        let r = ctx::catch(|| {
            let (mref, named) = fresh_full::<D>(&h);
            let r = D::import(&mref, &h, &mut cur, h.support_var_order());
            fresh = Some((mref, named));
            r
        });
        ctx.eval();
        match r {
            Err(p) => ctx.violation(&format!("{k}:export-ok-import-panic:{}", panic_class(&p)), wit(&format!("fresh manager: {p}"))),
            Ok(Err(e)) => ctx.violation("export-ok-import-err:import", wit(&format!("fresh manager: {e} | file: {}", file_txt()))),
            Ok(Ok(fs)) => {
                ctx.count("fresh_manager_imports", 1);
                let (mref, named) = fresh.as_ref().unwrap();
                if *named {
                    ctx.count("fresh_managers_named_from_header", 1);
                }
                for (i, (f, r)) in fs.iter().zip(roots).enumerate() {
                    let it = D::interp(f);
                    ctx.eval();
                    if it != r.1 {
                        ctx.violation(
                            &format!("{k}:roundtrip-fresh:table-differs"),
                            wit(&format!("root {i}: imported {} want {} | file: {}", it.short(), r.1.short(), file_txt())),
                        );
                        break;
                    }
                }
                let s = D::audit(mref);
                ctx.evals(1 + s.nodes as u64);
                for (clause, detail) in &s.errs {
                    ctx.violation(&format!("{k}:roundtrip-fresh:audit:{clause}"), wit(detail));
                }
                // importing twice yields the same handles
                let mut cur2: &[u8] = bytes;
                let h2 = DumpHeader::load(&mut cur2).expect("loaded before");
                if let Ok(Ok(fs2)) = ctx::catch(|| D::import(mref, &h2, &mut cur2, h2.support_var_order())) {
                    ctx.check(fs2 == fs, &format!("{k}:roundtrip-fresh:second-import-differs"), || wit(""));
                }
            }
        }
        if let Some((m, _)) = fresh {
            retire(m);
        }
    }

    // --- (b') fresh manager with the support variables only, mapping i -> i --------------------
    if variant_b {
        let mut cur: &[u8] = bytes;
        let h = DumpHeader::load(&mut cur).expect("loaded before");
        let ksupp = h.num_support_vars();
        let mref = D::new_manager();
        mref.with_manager_exclusive(|m| {
            m.add_vars(ksupp);
        });
        let ids: Vec<u32> = (0..ksupp).collect();
        let r = ctx::catch(|| D::import(&mref, &h, &mut cur, &ids));
        ctx.eval();
        match r {
            Err(p) => ctx.violation(&format!("{k}:export-ok-import-panic:{}", panic_class(&p)), wit(&format!("support-only manager: {p}"))),
            Ok(Err(e)) => ctx.violation("export-ok-import-err:import", wit(&format!("support-only manager: {e}"))),
            Ok(Ok(fs)) => {
                ctx.count("support_only_manager_imports", 1);
                for (i, (f, r)) in fs.iter().zip(roots).enumerate() {
                    let it = D::interp(f);
                    let want = r.1.compress(&svo);
                    ctx.eval();
                    if it != want {
                        ctx.violation(
                            &format!("{k}:roundtrip-fresh:table-differs"),
                            wit(&format!("support-only manager, root {i}: imported {} want {}", it.short(), want.short())),
                        );
                        break;
                    }
                }
                let s = D::audit(&mref);
                for (clause, detail) in &s.errs {
                    ctx.violation(&format!("{k}:roundtrip-fresh:audit:{clause}"), wit(detail));
                }
            }
        }
        retire(mref);
    }

    if !roots.is_empty() && !supp.is_empty() {
        ctx.distinct((k, cfg.ascii, cfg.v3, cfg.strict, w.naming, &w.order, hash64(format!("{:?}", roots.iter().map(|r| r.1.short()).collect::<Vec<_>>()).as_bytes()), cfg.root_names.is_some()));
    }
    trip
}

// ---------------------------------------------------------------------------------------------
// Workload of c15_roundtrip
// ---------------------------------------------------------------------------------------------

pub const NAMINGS: [&str; 11] = ["none", "plain", "partly", "ctrl", "spaces", "collide-ctrl", "collide-space", "partly-weird", "underscores", "gen-collide", "byte-sweep"];

/// bytes (as chars) that the name sanitisers must tell apart: all ASCII control characters and the
/// space (replaced), their printable / non-ASCII neighbours (kept)
pub const SWEEP: [u32; 41] = [
    0x00, 0x01, 0x02, 0x03, 0x04, 0x05, 0x06, 0x07, 0x08, 0x09, 0x0a, 0x0b, 0x0c, 0x0d, 0x0e, 0x0f, 0x10, 0x11, 0x12, 0x13, 0x14, 0x15,
    0x16, 0x17, 0x18, 0x19, 0x1a, 0x1b, 0x1c, 0x1d, 0x1e, 0x1f, 0x20, 0x21, 0x5f, 0x7e, 0x7f, 0x80, 0x85, 0xa0, 0xff,
];

/// duplicate-free, per-scheme variable names (empty = unnamed)
pub fn names_for(scheme: &str, n: u32, rng: &mut Rng) -> Vec<String> {
    let n = n as usize;
    let plain = |i: usize| format!("x{i}");
    let mut names: Vec<String> = match scheme {
        "none" => vec![String::new(); n],
        "plain" => (0..n).map(plain).collect(),
        "partly" => (0..n).map(|i| if i % 2 == 0 { plain(i) } else { String::new() }).collect(),
        "ctrl" => {
            let pool = ["a\tb", "new\nline", "ünï-cödé", "é\tx", "1abc", "_lead", "del\u{7f}", ".nodes", "日\n本", "cr\rx", "\u{1}", "λ", "0", "-1", "nb\u{a0}sp", "c1\u{85}ctl"];
            let mut p: Vec<&str> = pool.to_vec();
            rng.shuffle(&mut p);
            (0..n).map(|i| if i < p.len() { p[i].to_string() } else { plain(i) }).collect()
        }
        "spaces" => {
            let pool = ["a b", "x y z", "äb c", " lead", "trail ", " ", "Größe in m", "two  blanks", "日本 語", "q"];
            let mut p: Vec<&str> = pool.to_vec();
            rng.shuffle(&mut p);
            // at least one name with a blank
            let mut v: Vec<String> = (0..n).map(|i| if i < p.len() { p[i].to_string() } else { plain(i) }).collect();
            if n > 0 && !v.iter().any(|s| s.contains(' ')) {
                v[0] = "a b".into();
            }
            v
        }
        "collide-ctrl" => {
            let pool = ["a\tb", "a\nb", "a_b", "a\rb", "a\u{7f}b"];
            (0..n).map(|i| if i < pool.len() { pool[i].to_string() } else { plain(i) }).collect()
        }
        "collide-space" => {
            let pool = ["a b", "a_b", "a\tb"];
            (0..n).map(|i| if i < pool.len() { pool[i].to_string() } else { plain(i) }).collect()
        }
        "partly-weird" => {
            // unnamed variables next to names that look like generated ones
            let pool = ["", "_x0", "__x2", "", "_x1", "t\tab", "_", ""];
            let off = rng.usize(pool.len());
            (0..n).map(|i| pool[(i + off) % pool.len()].to_string()).collect()
        }
        "gen-collide" => {
            // a name that equals what the exporter would generate for the unnamed variable 1 if
            // it only looked at the last name's underscores
            let pool = ["__x1", "", "_a"];
            (0..n).map(|i| if i < pool.len() { pool[i].to_string() } else { plain(i) }).collect()
        }
        "byte-sweep" => {
            // a window of consecutive sweep bytes, one per variable (distinct after sanitising)
            let start = rng.usize(SWEEP.len());
            (0..n).map(|i| format!("v{i}{}w", char::from_u32(SWEEP[(start + i) % SWEEP.len()]).unwrap())).collect()
        }
        "underscores" => {
            let pool = ["_", "__", "___x1", "_x1", "\t", "\t_", "_a"];
            let off = rng.usize(pool.len());
            (0..n).map(|i| if i < pool.len() { pool[(i + off) % pool.len()].to_string() } else { plain(i) }).collect()
        }
        _ => unreachable!(),
    };
    // keep non-empty names unique (pools are, cyclic reuse may not be)
    let mut seen = HashSet::new();
    for (i, s) in names.iter_mut().enumerate() {
        if !s.is_empty() && !seen.insert(s.clone()) {
            *s = format!("{s}#{i}");
            seen.insert(s.clone());
        }
    }
    names
}

pub fn root_names_for(choice: usize, k: usize) -> Option<Vec<String>> {
    match choice % 3 {
        0 => None,
        1 => Some((0..k).map(|i| format!("f{i}")).collect()),
        _ => {
            let pool = ["", "g h", "tab\tx", "ü", "_f0", "\n", "dup", "dup", " "];
            Some((0..k).map(|i| pool[(i + choice / 3) % pool.len()].to_string()).collect())
        }
    }
}

const DD_NAMES: [&str; 8] = ["", "dd", "my diagram", "line\nbreak\ttab", " lead trail ", "ünï", "del\u{7f}dd\u{1f}", "\u{0}nul\u{1b}esc"];

fn all_cfgs(k_roots: usize, salt: usize) -> Vec<Cfg> {
    let mut v = Vec::new();
    let mut i = salt;
    for ascii in [true, false] {
        for v3 in [false, true] {
            for strict in [false, true] {
                for rn in 0..3 {
                    i += 1;
                    v.push(Cfg { ascii, v3, strict, dd: DD_NAMES[i % DD_NAMES.len()].to_string(), root_names: root_names_for(rn + 3 * (i % 5), k_roots) });
                }
            }
        }
    }
    v
}

fn world3<D: DKind>(ctx: &mut Ctx, order: &[u32], naming: &'static str, tag: u64) {
    let mut rng = ctx.rng(tag);
    let names = names_for(naming, 3, &mut rng);
    let w = make_world::<D>(3, order, &names, naming);
    let nsets = ctx.by_tier(6, 40);
    let mut sets: Vec<Vec<usize>> = vec![vec![], vec![0x00], vec![0xff, 0x00], vec![0x96, 0x96], vec![0xaa], vec![0xf0, 0xcc]];
    if ctx.quick() {
        sets.truncate(4);
    }
    for _ in 0..nsets {
        let k = rng.range(1, 6);
        sets.push((0..k).map(|_| rng.usize(256)).collect());
    }
    for (si, set) in sets.iter().enumerate() {
        let roots: Vec<(D::F, D::M)> = set
            .iter()
            .map(|&i| {
                let m = D::model3(i);
                (D::build(&w.mref, &m), m)
            })
            .collect();
        // the builder itself is checked by C02; make sure the handles denote the models
        for r in &roots {
            assert!(D::interp(&r.0) == r.1, "build/interp disagree for {}", r.1.short());
        }
        let cfgs = all_cfgs(roots.len(), si);
        for (ci, cfg) in cfgs.iter().enumerate() {
            // quick: half of the configurations per set
            if ctx.quick() && (ci + si) % 2 == 1 {
                continue;
            }
            roundtrip::<D>(ctx, &w, &roots, cfg, (ci + si) % 3 == 0);
        }
        // root-name byte sweep: every ASCII control character (0x00..=0x1f and DEL), the space and the
        // neighbouring printable / non-ASCII bytes inside a root name, strict and non-strict (C15-r5m1:
        // the sanitiser of root names is a separate code site from the one of variable names)
        if (si == 1 || si == 2) && order[0] == 0 {
            let sweep = (0u32..=0x21).chain([0x5f, 0x7e, 0x7f, 0x80, 0x85, 0xa0, 0xff]);
            for (bi, c) in sweep.enumerate() {
                let ch = char::from_u32(c).unwrap();
                for strict in [false, true] {
                    let cfg = Cfg {
                        ascii: (bi + si) % 2 == 0,
                        v3: (bi / 2 + si) % 2 == 0,
                        strict,
                        dd: DD_NAMES[bi % DD_NAMES.len()].to_string(),
                        root_names: Some((0..roots.len()).map(|j| if j == 0 { format!("f{ch}g") } else { format!("{ch}r{j}{ch}") }).collect()),
                    };
                    roundtrip::<D>(ctx, &w, &roots, &cfg, false);
                    ctx.count("root_name_byte_sweep_exports", 1);
                }
            }
        }
    }
    ctx.sample(|| format!("{} n=3 order {order:?} naming {naming} names {names:?}: {} root sets x 24 export configurations", D::NAME, sets.len()));
    retire(w.mref);
}

fn world_random<D: DKind>(ctx: &mut Ctx, tag: u64) {
    let mut rng = ctx.rng(tag);
    let n = match rng.below(10) {
        0 => 0,
        1 => 1,
        _ => rng.range(2, 10) as u32,
    };
    let order = rng.perm(n as usize);
    let naming = *rng.pick(&NAMINGS);
    let names = names_for(naming, n, &mut rng);
    let w = make_world::<D>(n, &order, &names, naming);
    // used variables: a strict subset (some manager variables are unused by all roots)
    let kmax = (n as usize).min(7);
    let kused = if n == 0 { 0 } else { rng.range(0, kmax.min(n as usize - if n > 1 { 1 } else { 0 })) };
    let mut used = rng.perm(n as usize);
    used.truncate(kused);
    used.sort();
    for si in 0..ctx.by_tier(2, 3) {
        let k = rng.range(1, 4);
        let roots: Vec<(D::F, D::M)> = (0..k)
            .map(|_| {
                // each root uses a subset of the used variables
                let sub: Vec<u32> = used.iter().copied().filter(|_| rng.chance(3, 4)).collect();
                let m = D::random_model(n, &sub, &mut rng);
                (D::build(&w.mref, &m), m)
            })
            .collect();
        for r in &roots {
            assert!(D::interp(&r.0) == r.1, "build/interp disagree");
        }
        let cfgs = all_cfgs(roots.len(), si + rng.usize(7));
        let take = ctx.by_tier(4, 8);
        let start = rng.usize(cfgs.len());
        for j in 0..take {
            let cfg = &cfgs[(start + j * 5) % cfgs.len()];
            roundtrip::<D>(ctx, &w, &roots, cfg, j % 2 == 0);
        }
    }
    ctx.count("random_worlds", 1);
    if n as usize > kused {
        ctx.count("random_worlds_with_unused_vars", 1);
    }
    retire(w.mref);
}

// --- TDD: export only ----------------------------------------------------------------------------

fn tdd_export_only(ctx: &mut Ctx, tag: u64) {
    use oxidd::tdd::TDDFunction;
    use oxidd::TVLFunction;
    use oxidd_rules_tdd::TDDTerminal;
    let mut rng = ctx.rng(tag);
    let n = rng.range(1, 5) as u32;
    let order = rng.perm(n as usize);
    let naming = *rng.pick(&["none", "plain", "ctrl", "partly", "underscores"]);
    let names = names_for(naming, n, &mut rng);
    let mref = oxidd::tdd::new_manager(1 << 10, 1 << 8, 1);
    mref.with_manager_exclusive(|m| {
        if names.iter().all(|s| s.is_empty()) {
            m.add_vars(n);
        } else {
            m.add_named_vars(names.iter().cloned()).unwrap();
        }
    });
    kinds::set_order(&mref, &order);
    // random three-valued functions from variables, the three constants and the connectives
    let mut pool: Vec<TDDFunction> = mref.with_manager_shared(|m| {
        let mut p = vec![TDDFunction::t(m), TDDFunction::f(m)];
        p.push(TDDFunction::from_edge(m, m.get_terminal(TDDTerminal::Unknown).unwrap()));
        for v in 0..n {
            if rng.chance(3, 4) {
                p.push(TDDFunction::var(m, v).unwrap());
            }
        }
        p
    });
    for _ in 0..6 {
        let a = rng.pick(&pool).clone();
        let b = rng.pick(&pool).clone();
        let r = match rng.below(4) {
            0 => a.and(&b),
            1 => a.or(&b),
            2 => a.xor(&b),
            _ => a.not(),
        }
        .unwrap();
        pool.push(r);
    }
    let k = rng.range(0, 3);
    let roots: Vec<TDDFunction> = (0..k).map(|_| rng.pick(&pool).clone()).collect();
    // own traversal: levels carrying a node, node count
    let (supp_levels, nn) = mref.with_manager_shared(|m| {
        let es: Vec<_> = roots.iter().map(|f| f.as_edge(m)).collect();
        fn rec<M: Manager>(m: &M, e: &M::Edge, seen: &mut HashSet<NodeID>, lv: &mut HashSet<u32>)
        where
            M::InnerNode: HasLevel,
        {
            if !seen.insert(e.node_id()) {
                return;
            }
            if let Node::Inner(n) = m.get_node(e) {
                lv.insert(n.level());
                for c in n.children() {
                    rec(m, &c, seen, lv);
                }
            }
        }
        let (mut seen, mut lv) = (HashSet::new(), HashSet::new());
        for e in &es {
            rec(m, e, &mut seen, &mut lv);
        }
        (lv, count_nodes_in(m, &es))
    });
    let mut supp: Vec<u32> = supp_levels.iter().map(|&l| order[l as usize]).collect();
    supp.sort();
    let svo: Vec<u32> = order.iter().copied().filter(|v| supp.contains(v)).collect();
    for cfg in all_cfgs(roots.len(), rng.usize(5)).into_iter().step_by(3) {
        let set = cfg.settings();
        let rn: Option<Vec<&str>> = cfg.root_names.as_ref().map(|v| v.iter().map(|s| s.as_str()).collect());
        let wit = |d: &str| format!("tdd n={n} order={order:?} names={names:?} cfg={cfg:?} | {d}");
        let (bytes, res) = mref.with_manager_shared(|m| {
            let mut buf = Vec::new();
            let res = match &rn {
                None => set.export(&mut buf, m, roots.iter()),
                Some(ns) => set.export_with_names(&mut buf, m, roots.iter().zip(ns.iter().copied())),
            };
            (buf, res)
        });
        ctx.count("roundtrips", 1);
        ctx.count("tdd_exports", 1);
        if let Err(e) = &res {
            if e.kind() != io::ErrorKind::InvalidInput || !cfg.strict {
                ctx.violation("export:unexpected-error", wit(&format!("{e:?}")));
                continue;
            }
        }
        let mode_line = bytes.split(|&b| b == b'\n').nth(1).unwrap_or(&[]);
        ctx.check(mode_line == b".mode A", "tdd:file:mode-line", || wit(&lossy(mode_line, 20)));
        let mut cur: &[u8] = &bytes;
        ctx.eval();
        match ctx::catch(|| DumpHeader::load(&mut cur)) {
            Err(p) => ctx.violation(&format!("export-ok-load-panic:{}", panic_class(&p)), wit(&p)),
            Ok(Err(e)) => {
                let named = names.iter().filter(|s| !s.is_empty()).count() as u32;
                let written = named == n || (!cfg.strict && named > 0);
                let sig = if written && names.iter().any(|s| s.contains(' ')) { "names:space-not-sanitised" } else { "export-ok-import-err:load" };
                ctx.violation(sig, wit(&format!("{e} | file: {}", lossy(&bytes, 500))));
            }
            Ok(Ok(h)) => {
                ctx.check(h.num_vars() == n && h.num_roots() == roots.len(), "header:num_vars", || wit("tdd"));
                ctx.check(h.support_vars() == &supp[..], "header:support_vars", || wit(&format!("got {:?} want {supp:?}", h.support_vars())));
                ctx.check(h.support_var_order() == &svo[..], "header:support_var_order", || wit(&format!("got {:?} want {svo:?}", h.support_var_order())));
                ctx.check(h.num_nodes() == nn, "header:num_nodes", || wit(&format!("got {} want {nn}", h.num_nodes())));
                let want: Option<Vec<String>> = match &cfg.root_names {
                    Some(rn) if !rn.is_empty() => Some(rn.iter().enumerate().map(|(i, s)| fname_expected(i, s)).collect()),
                    _ => None,
                };
                ctx.check(h.root_names().map(|x| x.to_vec()) == want, "header:rootnames", || wit(&format!("got {:?}", h.root_names())));
                // node lines: nnodes lines with 3 children each, then .end
                let rest = String::from_utf8_lossy(cur).into_owned();
                let lines: Vec<&str> = rest.lines().collect();
                // (terminal lines carry two zeros only; inner nodes three children)
                let shape = lines.len() == nn + 1
                    && lines[nn] == ".end"
                    && lines[..nn].iter().all(|l| {
                        let t: Vec<&str> = l.split_whitespace().collect();
                        (t.len() == 4 && t[2] == "0" && t[3] == "0") || (t.len() == 5 && t[2..].iter().all(|c| *c != "0"))
                    });
                ctx.check(shape, "tdd:file:node-lines", || wit(&rest));
                ctx.distinct(("tdd", n, &order, &cfg.root_names, cfg.v3, hash64(&bytes)));
            }
        }
    }
    drop(roots);
    drop(pool);
    retire(mref);
}

thread_local! {
    static GRAVEYARD: std::cell::RefCell<std::collections::VecDeque<(std::time::Instant, Box<dyn std::any::Any>)>> =
        const { std::cell::RefCell::new(std::collections::VecDeque::new()) };
}

/// Dispose of a manager reference. The index-based manager's GC thread misses the `Quit`
/// notification if the last user reference is dropped before that thread first reaches its
/// condition-variable wait (then the manager with all its threads and mappings is leaked;
/// observed: > 10 000 leaked threads after one second of this workload). That is outside C15,
/// so managers are kept alive for a few milliseconds before they are dropped.
pub fn retire<T: 'static>(mref: T) {
    GRAVEYARD.with(|g| {
        let mut g = g.borrow_mut();
        g.push_back((std::time::Instant::now(), Box::new(mref)));
        while g.len() > 64 || g.front().is_some_and(|(t, _)| t.elapsed().as_millis() >= 20) {
            let (t, m) = g.pop_front().unwrap();
            let age = t.elapsed();
            if age.as_millis() < 5 {
                std::thread::sleep(std::time::Duration::from_millis(5) - age);
            }
            drop(m);
        }
    });
}
pub fn retire_all() {
    std::thread::sleep(std::time::Duration::from_millis(5));
    GRAVEYARD.with(|g| g.borrow_mut().clear());
}

/// Every OxiDD manager starts a worker pool whose threads get 1 GiB stacks by default; these
/// monitors create tens of thousands of short-lived managers, so keep the stacks small.
fn small_stacks() {
    if std::env::var_os("OXIDD_STACK_SIZE").is_none() {
        // SAFETY: called first thing in the monitor, before any thread is spawned
        unsafe { std::env::set_var("OXIDD_STACK_SIZE", "4194304") };
    }
}

pub fn c15_roundtrip(ctx: &mut Ctx) {
    small_stacks();
    let orders = all_perms(3);
    let mut item = 0usize;
    // part 1: three variables, all orders x all naming schemes x kinds
    for kind in 0..5 {
        for (oi, order) in orders.iter().enumerate() {
            for (ni, naming) in NAMINGS.iter().enumerate() {
                // MTBDD: half of the naming schemes per order
                if kind >= 3 && (oi + ni) % 2 == 1 {
                    continue;
                }
                let mine = ctx.mine(item);
                item += 1;
                if !mine {
                    continue;
                }
                let tag = 1000 + (kind * 100 + oi * 10 + ni) as u64;
                match kind {
                    0 => world3::<DBdd>(ctx, order, naming, tag),
                    1 => world3::<DBcdd>(ctx, order, naming, tag),
                    2 => world3::<DZbdd>(ctx, order, naming, tag),
                    3 => world3::<DMtI64>(ctx, order, naming, tag),
                    _ => world3::<DMtF64>(ctx, order, naming, tag),
                }
                ctx.count("worlds_3var", 1);
            }
        }
    }
    // part 2: random diagrams up to 10 variables with unused variables
    let nrand = ctx.by_tier(480, 8000);
    for i in 0..nrand {
        let mine = ctx.mine(item);
        item += 1;
        if !mine {
            continue;
        }
        let tag = 50_000 + i as u64;
        match i % 8 {
            0 | 1 => world_random::<DBdd>(ctx, tag),
            2 | 3 => world_random::<DBcdd>(ctx, tag),
            4 | 5 => world_random::<DZbdd>(ctx, tag),
            6 => world_random::<DMtI64>(ctx, tag),
            _ => world_random::<DMtF64>(ctx, tag),
        }
    }
    // part 3: TDD (export only; the importer has no ternary nodes)
    for i in 0..ctx.by_tier(48, 480) {
        let mine = ctx.mine(item);
        item += 1;
        if mine {
            tdd_export_only(ctx, 90_000 + i as u64);
        }
    }
    retire_all();
}

// ---------------------------------------------------------------------------------------------
// c15_malformed: corpus, mutations, reference evaluation of ASCII node lines
// ---------------------------------------------------------------------------------------------

pub struct CorpusItem {
    pub kind: usize, // 0 bdd, 1 bcdd, 2 zbdd, 3 mtbdd-i64
    pub label: String,
    pub bytes: Vec<u8>,
}

fn corpus_for<D: DKind>(kind: usize, out: &mut Vec<CorpusItem>) {
    let mut rng = Rng::new(mix(0xC15C0, kind as u64));
    let mut variants: Vec<(bool, bool, u32)> = vec![(true, false, 4), (true, true, 5)];
    if D::BINARY {
        variants.push((false, false, 4));
        variants.push((false, true, 5));
    }
    if kind <= 1 {
        variants.push((!D::BINARY, true, 10)); // > 4 KB
    }
    if D::BINARY {
        // small binary files (few nodes, children skipping levels) for the exhaustive node-byte sweep
        for _ in 0..6 {
            variants.push((false, true, 3));
        }
    }
    for (ascii, v3, n) in variants {
        let order = rng.perm(n as usize);
        let names = names_for(if v3 { "plain" } else { "ctrl" }, n, &mut rng);
        let w = make_world::<D>(n, &order, &names, "corpus");
        let mut used = rng.perm(n as usize);
        used.truncate(n as usize - 1);
        let k = if n == 10 { 4 } else if n == 3 { 2 } else { 3 };
        let roots: Vec<(D::F, D::M)> = (0..k)
            .map(|_| {
                let m = D::random_model(n, &used, &mut rng);
                (D::build(&w.mref, &m), m)
            })
            .collect();
        let cfg = Cfg { ascii, v3, strict: false, dd: "corpus".into(), root_names: Some((0..k).map(|i| format!("r{i}")).collect()) };
        let frefs: Vec<&D::F> = roots.iter().map(|r| &r.0).collect();
        let rn: Vec<&str> = cfg.root_names.as_ref().unwrap().iter().map(|s| s.as_str()).collect();
        let (bytes, res) = D::export(&cfg.settings(), &w.mref, &frefs, Some(&rn));
        res.expect("corpus export");
        match load_import::<D>(&bytes, &w.mref, |h| h.support_var_order().to_vec()) {
            Loaded::Ok(_, fs) => assert!(fs.iter().zip(&roots).all(|(a, b)| *a == b.0), "corpus file does not round-trip"),
            _ => panic!("corpus file rejected"),
        }
        out.push(CorpusItem { kind, label: format!("{}:{}:{}:n{n}", D::NAME, if ascii { "A" } else { "B" }, if v3 { "3.0" } else { "2.0" }), bytes });
        drop(roots);
        retire(w.mref);
    }
}

pub fn corpus() -> Vec<CorpusItem> {
    let mut out = Vec::new();
    corpus_for::<DBdd>(0, &mut out);
    corpus_for::<DBcdd>(1, &mut out);
    corpus_for::<DZbdd>(2, &mut out);
    corpus_for::<DMtI64>(3, &mut out);
    out
}

/// offset of the first byte after the `.nodes` line (None if there is none)
fn nodes_offset(b: &[u8]) -> Option<usize> {
    let mut pos = 0;
    while pos < b.len() {
        let end = b[pos..].iter().position(|&c| c == b'\n').map(|p| pos + p + 1).unwrap_or(b.len());
        let line = &b[pos..end];
        if line.starts_with(b".nodes") && line[6..].iter().all(|c| c.is_ascii_whitespace()) {
            return Some(end);
        }
        pos = end;
    }
    None
}

/// (start, end) of every decimal number token in `b[from..to]`
fn number_tokens(b: &[u8], from: usize, to: usize) -> Vec<(usize, usize)> {
    let mut v = Vec::new();
    let mut i = from;
    while i < to {
        if b[i].is_ascii_digit() && (i == from || !b[i - 1].is_ascii_alphanumeric() && b[i - 1] != b'.' && b[i - 1] != b'-' || (i > from && b[i - 1] == b'-')) {
            let s = i;
            while i < to && b[i].is_ascii_digit() {
                i += 1;
            }
            v.push((s, i));
        } else {
            i += 1;
        }
    }
    v
}

fn lines_of(b: &[u8]) -> Vec<(usize, usize)> {
    let mut v = Vec::new();
    let mut pos = 0;
    while pos < b.len() {
        let end = b[pos..].iter().position(|&c| c == b'\n').map(|p| pos + p + 1).unwrap_or(b.len());
        v.push((pos, end));
        pos = end;
    }
    v
}

const COUNT_KEYS: [&[u8]; 7] = [b".nnodes", b".nvars", b".nsuppvars", b".nroots", b".ids", b".permids", b".rootids"];

fn replacement_number(old: &[u8], rng: &mut Rng) -> Vec<u8> {
    let v: u128 = std::str::from_utf8(old).ok().and_then(|s| s.parse().ok()).unwrap_or(0);
    match rng.below(16) {
        0 => (v + 1).to_string().into_bytes(),
        1 => v.saturating_sub(1).to_string().into_bytes(),
        2 => b"0".to_vec(),
        3 => (v * 2).to_string().into_bytes(),
        4 => (v * 10 + 7).to_string().into_bytes(),
        5 => b"65536".to_vec(),
        6 => b"4294967295".to_vec(),
        7 => b"4294967296".to_vec(),
        8 => b"999999".to_vec(),
        9 => b"18446744073709551615".to_vec(),
        10 => b"18446744073709551616".to_vec(),
        11 => b"-1".to_vec(),
        12 => Vec::new(),
        13 => format!("-{v}").into_bytes(),
        14 => (v + rng.below(5) as u128 + 2).to_string().into_bytes(),
        _ => format!("0{v}").into_bytes(),
    }
}

/// One seeded mutation; returns the class name
pub fn mutate(b: &mut Vec<u8>, rng: &mut Rng, others: &[&[u8]]) -> &'static str {
    if b.is_empty() {
        b.push(rng.next() as u8);
        return "insert";
    }
    let hdr_end = nodes_offset(b).unwrap_or(b.len());
    match rng.below(22) {
        0..=2 => {
            for _ in 0..rng.range(1, 3) {
                let i = rng.usize(b.len());
                b[i] ^= 1 << rng.below(8);
            }
            "bitflip"
        }
        3 => {
            let i = rng.usize(b.len());
            b[i] = rng.next() as u8;
            "byte-set"
        }
        4 => {
            let i = rng.usize(b.len());
            let l = rng.range(1, 8).min(b.len() - i);
            b.drain(i..i + l);
            "delete-range"
        }
        5 => {
            let i = rng.usize(b.len());
            let l = rng.range(1, 16).min(b.len() - i);
            let seg = b[i..i + l].to_vec();
            let at = rng.usize(b.len() + 1);
            b.splice(at..at, seg);
            "duplicate-range"
        }
        6 => {
            let at = rng.usize(b.len() + 1);
            let pool: &[u8] = b"0123456789 -\t\n\r\0.\x01\x7f\xffTFBEa";
            let ins: Vec<u8> = (0..rng.range(1, 4)).map(|_| *rng.pick(pool)).collect();
            b.splice(at..at, ins);
            "insert"
        }
        7..=11 => {
            // number in one of the count / id lines of the header
            let mut cands = Vec::new();
            for (s, e) in lines_of(&b[..hdr_end]) {
                if COUNT_KEYS.iter().any(|k| b[s..e].starts_with(k) && b.get(s + k.len()).is_some_and(|c| *c == b' ' || *c == b'\t')) {
                    cands.extend(number_tokens(b, s, e));
                }
            }
            if cands.is_empty() {
                return "none";
            }
            let (s, e) = *rng.pick(&cands);
            let new = replacement_number(&b[s..e], rng);
            b.splice(s..e, new);
            "header-number"
        }
        12 | 13 => {
            let ls = lines_of(b);
            if ls.len() < 2 {
                return "none";
            }
            let i = rng.usize(ls.len());
            match rng.below(3) {
                0 => {
                    b.drain(ls[i].0..ls[i].1);
                    "delete-line"
                }
                1 => {
                    let seg = b[ls[i].0..ls[i].1].to_vec();
                    let at = ls[rng.usize(ls.len())].0;
                    b.splice(at..at, seg);
                    "duplicate-line"
                }
                _ => {
                    let j = rng.usize(ls.len());
                    let (i, j) = (i.min(j), i.max(j));
                    if i == j {
                        return "none";
                    }
                    let (li, lj) = (b[ls[i].0..ls[i].1].to_vec(), b[ls[j].0..ls[j].1].to_vec());
                    let mut nb = b[..ls[i].0].to_vec();
                    nb.extend(&lj);
                    nb.extend(&b[ls[i].1..ls[j].0]);
                    nb.extend(&li);
                    nb.extend(&b[ls[j].1..]);
                    *b = nb;
                    "swap-lines"
                }
            }
        }
        14..=16 => {
            // node section: number edit (ASCII) / byte edit (binary)
            if hdr_end >= b.len() {
                return "none";
            }
            let toks = number_tokens(b, hdr_end, b.len());
            let ascii = b.windows(7).any(|w| w == b".mode A");
            if ascii && !toks.is_empty() {
                let (s, e) = *rng.pick(&toks);
                let new = replacement_number(&b[s..e], rng);
                b.splice(s..e, new);
                "node-number"
            } else {
                let i = hdr_end + rng.usize(b.len() - hdr_end);
                match rng.below(4) {
                    0 => b[i] = rng.next() as u8,
                    1 => b[i] = (rng.below(4) as u8) << 5 | (rng.below(4) as u8) << 3 | (rng.below(8) as u8),
                    2 => {
                        b.insert(i, 0);
                    }
                    _ => {
                        // a long 7-bit encoded number
                        let ins: Vec<u8> = (0..rng.range(1, 11)).map(|_| (rng.next() as u8) | 1).collect();
                        b.splice(i..i, ins);
                    }
                }
                "node-byte"
            }
        }
        17 => {
            // keyword / mode / version / varinfo edits
            let edits: [(&[u8], &[u8]); 10] = [
                (b".mode A", b".mode B"),
                (b".mode B", b".mode A"),
                (b".varinfo 4", b".varinfo 0"),
                (b".varinfo 4", b".varinfo 3"),
                (b"DDDMP-2.0", b"DDDMP-3.0"),
                (b"DDDMP-3.0", b"DDDMP-1.0"),
                (b".permids", b".auxids"),
                (b".suppvarnames", b".varnames"),
                (b".orderedvarnames", b".suppvarnames"),
                (b".end", b".nodes"),
            ];
            let (from, to) = *rng.pick(&edits);
            if let Some(p) = b.windows(from.len()).position(|w| w == from) {
                b.splice(p..p + from.len(), to.to_vec());
                "keyword"
            } else {
                "none"
            }
        }
        18 | 19 => {
            // header of this file, node section of another one (or vice versa)
            let o = *rng.pick(others);
            let (Some(a), Some(c)) = (nodes_offset(b), nodes_offset(o)) else { return "none" };
            let mut nb = b[..a].to_vec();
            nb.extend(&o[c..]);
            *b = nb;
            "splice-files"
        }
        _ => {
            // drop one token of a header list
            let ls = lines_of(&b[..hdr_end]);
            let (s, e) = *rng.pick(&ls);
            let sp: Vec<usize> = (s..e).filter(|&i| b[i] == b' ').collect();
            if sp.is_empty() {
                return "none";
            }
            let p = *rng.pick(&sp);
            let q = (p + 1..e).find(|&i| b[i] == b' ' || b[i] == b'\n').unwrap_or(e);
            b.drain(p..q);
            "drop-token"
        }
    }
}

/// largest value following one of the count keys in the header (own scan; saturating)
fn header_counts(b: &[u8]) -> [u128; 4] {
    let mut r = [0u128; 4];
    let keys: [&[u8]; 4] = [b".nnodes", b".nvars", b".nsuppvars", b".nroots"];
    for (s, e) in lines_of(b) {
        let line = &b[s..e];
        if line.starts_with(b".nodes") {
            break;
        }
        for (i, k) in keys.iter().enumerate() {
            if line.starts_with(k) {
                let mut v: u128 = 0;
                for &c in &line[k.len()..] {
                    if c.is_ascii_digit() {
                        v = v.saturating_mul(10).saturating_add((c - b'0') as u128);
                    }
                }
                r[i] = r[i].max(v);
            }
        }
    }
    r
}

/// Independent evaluation of an ASCII file's node lines (strict subset of the syntax; None if
/// the file uses anything else). Returns the tables of the roots over `n` variables, where
/// internal variable index i is manager variable `svo[i]`.
fn ref_eval(b: &[u8], sem: Sem, n: u32, nnodes: usize, svo: &[u32]) -> Option<Vec<Tt>> {
    let off = nodes_offset(b)?;
    let head = std::str::from_utf8(&b[..off]).ok()?;
    let mut rootids: Option<Vec<i64>> = None;
    let (mut modes, mut varinfos) = (0, 0);
    for l in head.lines() {
        let l = l.trim_end_matches('\r');
        if let Some(r) = l.strip_prefix(".rootids") {
            rootids = Some(r.split([' ', '\t']).filter(|t| !t.is_empty()).map(|t| t.parse::<i64>()).collect::<Result<_, _>>().ok()?);
        }
        if l.starts_with(".mode") {
            modes += 1;
            if l != ".mode A" {
                return None;
            }
        }
        if l.starts_with(".varinfo") {
            varinfos += 1;
            if l != ".varinfo 4" {
                return None;
            }
        }
    }
    if modes > 1 || varinfos > 1 {
        return None;
    }
    let rootids = rootids?;
    #[derive(Clone, Copy)]
    enum N {
        T(bool),
        I(u32, i64, i64),
    }
    let body = std::str::from_utf8(&b[off..]).ok()?;
    let mut nodes: Vec<N> = Vec::new();
    let mut lines = body.split('\n');
    for i in 1..=nnodes {
        let l = lines.next()?.trim_end_matches('\r');
        let t: Vec<&str> = l.split([' ', '\t']).filter(|t| !t.is_empty()).collect();
        if t.len() != 4 || t[0].parse::<usize>().ok()? != i {
            return None;
        }
        let plain = |s: &str| !s.is_empty() && s.bytes().all(|c| c.is_ascii_digit() || c == b'-');
        if !plain(t[2]) || !plain(t[3]) {
            return None;
        }
        let (c0, c1) = (t[2].parse::<i64>().ok()?, t[3].parse::<i64>().ok()?);
        if c0 == 0 || c1 == 0 {
            if c0 != 0 || c1 != 0 {
                return None;
            }
            nodes.push(N::T(match (sem, t[1]) {
                (Sem::ZeroSup, "B") => true,
                (Sem::ZeroSup, "E") => false,
                (Sem::Plain | Sem::Complement, "T") => true,
                (Sem::Plain | Sem::Complement, "F") => false,
                _ => return None,
            }));
        } else {
            if !t[1].bytes().all(|c| c.is_ascii_digit()) {
                return None;
            }
            let vi = t[1].parse::<usize>().ok()?;
            let v = *svo.get(vi)?;
            if c0.unsigned_abs() as usize >= i || c1.unsigned_abs() as usize >= i {
                return None;
            }
            if sem == Sem::ZeroSup && (c0 < 0 || c1 < 0) {
                return None;
            }
            // A node line whose child tests the same or a higher variable has no reference
            // meaning (a variable would be decided twice on one path). The importer may reject
            // such a file, or - when its reduction rule removes the offending node, e.g. a ZBDD
            // node with an empty then-child - build the diagram of the remaining lines: no verdict.
            for c in [c0, c1] {
                if let N::I(cv, _, _) = &nodes[c.unsigned_abs() as usize - 1] {
                    let crank = svo.iter().position(|x| x == cv)?;
                    if crank <= vi {
                        return None;
                    }
                }
            }
            nodes.push(N::I(v, c0, c1));
        }
    }
    let mut out = Vec::new();
    for &r in &rootids {
        if r == 0 || r.unsigned_abs() as usize > nodes.len() || (sem == Sem::ZeroSup && r < 0) {
            return None;
        }
        out.push(Tt::from_fn(n, |a| {
            let (mut cur, mut neg, mut consumed) = (r, false, 0usize);
            loop {
                if cur < 0 {
                    neg = !neg;
                    cur = -cur;
                }
                match nodes[cur as usize - 1] {
                    N::T(bv) => {
                        return if sem == Sem::ZeroSup { bv && a & !consumed == 0 } else { bv ^ neg };
                    }
                    N::I(v, t, e) => {
                        if (a >> v) & 1 == 1 {
                            consumed |= 1 << v;
                            cur = t;
                        } else {
                            cur = e;
                        }
                    }
                }
            }
        }));
    }
    Some(out)
}

/// set by c15_case / c15_huge: feed files whatever their header announces
static NO_CAP: std::sync::atomic::AtomicBool = std::sync::atomic::AtomicBool::new(false);
const MAX_LOAD_VARS: u128 = 200_000;
const MAX_LOAD_NODES: u128 = 5_000_000;
const MAX_IMPORT_VARS: u32 = 2048;

/// Feed one (possibly malformed) file to load + import in a fresh manager
pub fn feed<D: DKind>(ctx: &mut Ctx, bytes: &[u8], class: &str, label: &str) {
    let k = D::NAME;
    let counts = header_counts(bytes);
    let capped = !NO_CAP.load(std::sync::atomic::Ordering::Relaxed);
    if capped && (counts[0] > MAX_LOAD_NODES || counts[3] > MAX_LOAD_NODES || counts[1] > MAX_LOAD_VARS || counts[2] > MAX_LOAD_VARS) {
        // would make the importer reserve memory proportional to the announced count
        ctx.count("skipped_huge_header_counts", 1);
        return;
    }
    println!("@@{{\"t\":\"case\",\"case\":{}}}", ctx::json_str(label));
    ctx.count("files_fed", 1);
    let wit = |d: &str| format!("{label} ({class}) | {d} | file: {}", lossy(bytes, 600).escape_debug());
    let mut cur: &[u8] = bytes;
    ctx.eval();
    let header = match ctx::catch(|| DumpHeader::load(&mut cur)) {
        Err(p) => {
            ctx.count("panics", 1);
            ctx.distinct(("load-panic", hash64(bytes)));
            ctx.violation(&format!("load:panic:{}", panic_class(&p)), wit(&p));
            return;
        }
        Ok(Err(_)) => {
            ctx.count("import_errors", 1);
            ctx.count("load_errors", 1);
            ctx.distinct(("load-err", hash64(bytes)));
            return;
        }
        Ok(Ok(h)) => h,
    };
    if header.num_vars() > MAX_IMPORT_VARS {
        ctx.count("import_skipped_many_vars", 1);
        return;
    }
    let mut fresh: Option<D::MR> = None;
    let r = ctx::catch(|| {
        let (mref, _) = fresh_full::<D>(&header);
        let r = D::import(&mref, &header, &mut cur, header.support_var_order());
        fresh = Some(mref);
        r
    });
    match r {
        Err(p) => {
            ctx.count("panics", 1);
            ctx.distinct(("import-panic", hash64(bytes)));
            ctx.violation(&format!("{k}:import:panic:{}", panic_class(&p)), wit(&p));
        }
        Ok(Err(_)) => {
            ctx.count("import_errors", 1);
            ctx.distinct(("import-err", hash64(bytes)));
        }
        Ok(Ok(fs)) => {
            ctx.count("import_ok_on_mutant", 1);
            ctx.distinct(("import-ok", hash64(bytes)));
            let mref = fresh.as_ref().unwrap();
            ctx.check(fs.len() == header.num_roots(), &format!("{k}:mutant-ok:root-count"), || wit(&format!("{} roots, header.num_roots() {}", fs.len(), header.num_roots())));
            let s = D::audit(mref);
            ctx.evals(1 + s.nodes as u64);
            for (clause, detail) in &s.errs {
                ctx.violation(&format!("{k}:mutant-ok:audit:{clause}"), wit(detail));
            }
            let n = header.num_vars();
            if n <= 10 {
                let tables = ctx::catch(|| fs.iter().map(|f| D::interp(f)).collect::<Vec<_>>());
                match tables {
                    Err(p) => ctx.violation(&format!("{k}:mutant-ok:interp-panic"), wit(&p)),
                    Ok(tables) => {
                        if let Some(sem) = D::REF_SEM {
                            if let Some(want) = ref_eval(bytes, sem, n, header.num_nodes(), header.support_var_order()) {
                                ctx.count("ref_evaluated_ok_mutants", 1);
                                let want: Vec<Option<D::M>> = want.into_iter().map(D::model_from_tt).collect();
                                ctx.eval();
                                let same = want.len() == tables.len() && want.iter().zip(&tables).all(|(w, t)| w.as_ref() == Some(t));
                                if !same {
                                    ctx.violation(
                                        &format!("{k}:mutant-ok:wrong-table"),
                                        wit(&format!(
                                            "imported {:?}, node lines denote {:?}",
                                            tables.iter().map(|t| t.short()).collect::<Vec<_>>(),
                                            want.iter().map(|t| t.as_ref().map(|t| t.short())).collect::<Vec<_>>()
                                        )),
                                    );
                                }
                            }
                        }
                    }
                }
            }
            drop(fs);
        }
    }
    if let Some(m) = fresh {
        retire(m);
    }
}

fn feed_kind(ctx: &mut Ctx, kind: usize, bytes: &[u8], class: &str, label: &str) {
    match kind {
        0 => feed::<DBdd>(ctx, bytes, class, label),
        1 => feed::<DBcdd>(ctx, bytes, class, label),
        2 => feed::<DZbdd>(ctx, bytes, class, label),
        _ => feed::<DMtI64>(ctx, bytes, class, label),
    }
}

/// deterministic mutant `mi` of corpus item `ci` (independent of the shard)
pub fn mutant(ctx: &Ctx, corp: &[CorpusItem], ci: usize, mi: usize) -> (Vec<u8>, String) {
    let mut rng = Rng::new(mix(mix(ctx.seed, 0xC15 + ci as u64), mi as u64));
    let mut b = corp[ci].bytes.clone();
    let others: Vec<&[u8]> = corp.iter().filter(|c| c.kind == corp[ci].kind).map(|c| &c.bytes[..]).collect();
    let mut classes = Vec::new();
    let reps = if rng.chance(1, 4) { 2 } else { 1 };
    for _ in 0..reps {
        classes.push(mutate(&mut b, &mut rng, &others));
    }
    (b, classes.join("+"))
}

pub fn c15_malformed(ctx: &mut Ctx) {
    small_stacks();
    let corp = corpus();
    ctx.count("corpus_files", corp.len() as u64);
    ctx.sample(|| format!("corpus: {}", corp.iter().map(|c| format!("{} ({} B)", c.label, c.bytes.len())).collect::<Vec<_>>().join(", ")));
    let mut item = 0usize;
    // every truncation point (files < 4 KB; every 7th byte plus the header for larger ones)
    for (ci, c) in corp.iter().enumerate() {
        let hdr = nodes_offset(&c.bytes).unwrap_or(0);
        for cut in 0..c.bytes.len() {
            if c.bytes.len() >= 4096 && cut > hdr + 64 && cut % 7 != 0 && cut + 64 < c.bytes.len() {
                continue;
            }
            let mine = ctx.mine(item);
            item += 1;
            if !mine {
                continue;
            }
            ctx.count("truncations", 1);
            feed_kind(ctx, c.kind, &c.bytes[..cut], "truncation", &format!("t:{ci}:{cut} {}", c.label));
        }
    }
    // exhaustive single-byte sweep of the node section of the small binary-mode files: every byte
    // position x every value (the binary node encoding packs variable/child codes into single bytes,
    // so one changed byte reaches every code combination: absolute/relative ids with offset 0, ...)
    for (ci, c) in corp.iter().enumerate() {
        let Some(hdr) = nodes_offset(&c.bytes) else { continue };
        let is_binary = c.bytes.windows(7).any(|w| w == b".mode B");
        if !is_binary || c.bytes.len() - hdr > ctx.by_tier(400, 4000) {
            continue;
        }
        for pos in hdr..c.bytes.len() {
            for val in 0..=255u8 {
                if c.bytes[pos] == val {
                    continue;
                }
                let mine = ctx.mine(item);
                item += 1;
                if !mine {
                    continue;
                }
                let mut b = c.bytes.clone();
                b[pos] = val;
                ctx.count("files_mutated", 1);
                ctx.count("mut_exhaustive-node-byte", 1);
                feed_kind(ctx, c.kind, &b, "exhaustive-node-byte", &format!("x:{ci}:{pos}:{val} {}", c.label));
            }
        }
    }
    // seeded mutations
    let total = ctx.by_tier(4800, 64000);
    for mi in 0..total {
        let mine = ctx.mine(item);
        item += 1;
        if !mine {
            continue;
        }
        let ci = mi % corp.len();
        let (b, class) = mutant(ctx, &corp, ci, mi);
        if class == "none" || b == corp[ci].bytes {
            continue;
        }
        ctx.count("files_mutated", 1);
        ctx.count(&format!("mut_{}", class.split('+').next().unwrap()), 1);
        feed_kind(ctx, corp[ci].kind, &b, &class, &format!("m:{ci}:{mi} {}", corp[ci].label));
    }
    retire_all();
}

/// replay: `--param m:<corpus>:<mutation>` / `t:<corpus>:<cut>` / `<kind>:<hex bytes>`
pub fn c15_case(ctx: &mut Ctx) {
    small_stacks();
    let Some(p) = ctx.param.clone() else {
        // replay helper: nothing to do without --param
        ctx.count("no_param_given", 1);
        return;
    };
    let parts: Vec<&str> = p.split(':').collect();
    let corp = corpus();
    let (kind, bytes) = match parts[0] {
        "m" => {
            let (ci, mi): (usize, usize) = (parts[1].parse().unwrap(), parts[2].parse().unwrap());
            (corp[ci].kind, mutant(ctx, &corp, ci, mi).0)
        }
        "t" => {
            let (ci, cut): (usize, usize) = (parts[1].parse().unwrap(), parts[2].parse().unwrap());
            (corp[ci].kind, corp[ci].bytes[..cut].to_vec())
        }
        k => {
            let kind = ["bdd", "bcdd", "zbdd", "mtbdd-i64"].iter().position(|x| *x == k).expect("kind");
            let hex = parts[1].as_bytes();
            (kind, hex.chunks(2).map(|c| u8::from_str_radix(std::str::from_utf8(c).unwrap(), 16).unwrap()).collect())
        }
    };
    NO_CAP.store(true, std::sync::atomic::Ordering::Relaxed);
    eprintln!("--- file ---\n{}\n--- end ---", lossy(&bytes, 4000).escape_debug());
    // no cap here: the caller decides (used by c15_huge in a child process)
    let k = kind;
    let mut cur: &[u8] = &bytes;
    let res = match ctx::catch(|| DumpHeader::load(&mut cur)) {
        Err(p) => format!("load panic: {p}"),
        Ok(Err(e)) => format!("load error: {e}"),
        Ok(Ok(h)) => {
            drop(h);
            feed_kind(ctx, k, &bytes, "replay", "replay");
            "loaded".to_string()
        }
    };
    println!("@@{{\"t\":\"note\",\"note\":{}}}", ctx::json_str(&res));
    ctx.count("replayed", 1);
    retire_all();
}

// ---------------------------------------------------------------------------------------------
// c15_huge: header counts that drive allocations
// ---------------------------------------------------------------------------------------------

fn huge_file(nnodes: &str, nvars: &str, nsupp: &str, nroots: &str, extra: &str) -> Vec<u8> {
    format!(
        ".ver DDDMP-2.0\n.mode A\n.varinfo 4\n.nnodes {nnodes}\n.nvars {nvars}\n.nsuppvars {nsupp}\n{extra}.ids 0\n.permids 0\n.nroots {nroots}\n.rootids 3\n.nodes\n1 F 0 0\n2 T 0 0\n3 0 2 1\n.end\n"
    )
    .into_bytes()
}

pub fn c15_huge(ctx: &mut Ctx) {
    small_stacks();
    if ctx.shard != 0 {
        ctx.count("not_this_shard", 1);
        return;
    }
    NO_CAP.store(true, std::sync::atomic::Ordering::Relaxed);
    // sanity: the template is a valid file
    feed::<DBdd>(ctx, &huge_file("3", "1", "1", "1", ""), "template", "huge:template");
    ctx.check(ctx.counter("import_ok_on_mutant") == 1, "huge:template-rejected", || "template".into());
    // (1) counts whose byte size overflows isize: `capacity overflow` is a panic -> in process
    let in_proc: [(&str, Vec<u8>); 4] = [
        ("nroots=usize::MAX", huge_file("3", "1", "1", "18446744073709551615", "")),
        ("nroots=2^61", huge_file("3", "1", "1", "2305843009213693952", "")),
        ("nnodes=usize::MAX", huge_file("18446744073709551615", "1", "1", "1", "")),
        ("nnodes=2^62", huge_file("4611686018427387904", "1", "1", "1", "")),
    ];
    for (name, f) in &in_proc {
        ctx.count("huge_in_process", 1);
        feed::<DBdd>(ctx, f, "huge-count", &format!("huge:{name}"));
    }
    // (2) counts that are merely absurd: the importer reserves count * size bytes before reading
    // anything; a refused allocation aborts the process -> observe in a child with `ulimit -v`
    let child: [(&str, Vec<u8>); 5] = [
        ("nnodes=10^12", huge_file("1000000000000", "1", "1", "1", "")),
        ("nroots=10^12", huge_file("3", "1", "1", "1000000000000", "")),
        ("nvars=u32::MAX", huge_file("3", "4294967295", "1", "1", "")),
        ("nvars=u32::MAX+varnames", huge_file("3", "4294967295", "1", "1", ".varnames a\n")),
        ("nsuppvars=4*10^9", huge_file("3", "4294967295", "4000000000", "1", "")),
    ];
    let exe = std::env::current_exe().expect("current_exe");
    for (name, f) in &child {
        let hex: String = f.iter().map(|b| format!("{b:02x}")).collect();
        let cmd = format!("ulimit -v 3145728; exec '{}' c15_case --param bdd:{hex}", exe.display());
        let out = std::process::Command::new("sh").arg("-c").arg(&cmd).output();
        ctx.count("huge_child_runs", 1);
        ctx.eval();
        match out {
            Err(e) => ctx.sample(|| format!("{name}: could not run child: {e}")),
            Ok(o) => {
                let err = String::from_utf8_lossy(&o.stderr);
                let alloc = err.lines().find(|l| l.contains("memory allocation of")).map(|s| s.to_string());
                let note = String::from_utf8_lossy(&o.stdout).lines().find(|l| l.contains("\"t\":\"note\"")).map(|s| s.to_string());
                if let Some(a) = &alloc {
                    ctx.count("huge_child_aborted_on_allocation", 1);
                    ctx.sample(|| format!("{name}: child aborted ({}): {a}", o.status));
                } else if o.status.success() {
                    ctx.count("huge_child_survived", 1);
                    ctx.sample(|| format!("{name}: child finished: {}", note.unwrap_or_default()));
                } else if err.contains("capacity overflow") {
                    ctx.violation("load:panic:capacity-overflow", format!("{name} (child): {}", err.lines().find(|l| l.contains("capacity overflow")).unwrap_or("")));
                } else {
                    ctx.count("huge_child_died_otherwise", 1);
                    ctx.sample(|| format!("{name}: child status {} stderr tail: {}", o.status, err.lines().rev().take(2).collect::<Vec<_>>().join(" / ")));
                }
            }
        }
    }
    retire_all();
}
