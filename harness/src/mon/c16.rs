//! C16 — Variable / name bookkeeping.
//!
//! Monitors:
//! * `c16_map_exh`  — `VarNameMap` directly, ALL call sequences up to length L over the
//!   alphabet {"", a, b, c} (see `exh_ops_at`), compared after every call with `NameModel`.
//! * `c16_map_rand` — `VarNameMap` directly, random longer sequences with random unicode names.
//! * `c16_map_leak` — heap accounting (glibc `mallinfo2`) around clear / `nth` / clone cycles.
//! * `c16_mgr`      — the same kind of sequences on real managers (BDD, BCDD, ZBDD, MTBDD, TDD)
//!   interleaved with handle creation, gc and reordering.
//!
//! Oracle: `NameModel` = a plain `Vec<String>` ("" = unnamed) searched linearly; nothing of
//! OxiDD is used to compute expectations.
//!
//! Memory safety: `VarNameMap` frees its strings manually. In the default *soft* mode a sequence
//! whose state already disagrees with the model is abandoned and its map / manager is leaked
//! (`mem::forget`) instead of dropped, so that one corrupted map does not kill the shard and the
//! remaining signatures are still reported. Maps that agree with the model are always dropped
//! normally. In soft mode the random monitors also stop *generating* renames (clones) once 8
//! sequences of the shard were abandoned because of one (counter `*_no_longer_generated_*`), so
//! that a known defect there does not hide the other clauses on long sequences.
//! `--param hard` (implied under Miri) never leaks: a double free then really happens
//! and kills the shard; the last `@@{"t":"case"}` line names the sequence.
//! Other `--param` words: `noclone`, `norename`, `noclear` (remove ops from the alphabet, to
//! look at one defect at a time under Miri), `trace` (case line for every sequence; default:
//! every sequence of length <= 3, i.e. a crash is attributed to a 3-call prefix),
//! `len=N` (override the maximal sequence length of `c16_map_exh`), `kinds=bdd+tdd` (c16_mgr).

use std::ops::Range;

use oxidd::{Function, HasLevel, InnerNode, Manager, ManagerRef, Node};
use oxidd_core::error::DuplicateVarName;
use oxidd_core::util::VarNameMap;

use crate::ctx::{catch, json_str};
use crate::kinds::*;
use crate::rng::Rng;
use crate::tt::Tt;
use crate::Ctx;

// ---------------------------------------------------------------------------------------------
// Reference model
// ---------------------------------------------------------------------------------------------

#[derive(Clone, Debug, PartialEq, Eq, Default)]
pub struct NameModel {
    /// name of variable v; "" = unnamed
    pub names: Vec<String>,
}

/// Documented content of a `DuplicateVarName`
#[derive(Clone, Debug, PartialEq, Eq)]
pub struct MDup {
    pub name: String,
    pub present_var: u32,
    /// variables successfully added before the error
    pub added: Range<u32>,
}

impl NameModel {
    pub fn len(&self) -> u32 {
        self.names.len() as u32
    }
    pub fn named(&self) -> u32 {
        self.names.iter().filter(|s| !s.is_empty()).count() as u32
    }
    /// `name_to_var`: "" is never found
    pub fn lookup(&self, s: &str) -> Option<u32> {
        if s.is_empty() {
            return None;
        }
        self.names.iter().position(|x| x == s).map(|p| p as u32)
    }
    pub fn add_unnamed(&mut self, k: u32) -> Range<u32> {
        let pre = self.len();
        for _ in 0..k {
            self.names.push(String::new());
        }
        pre..self.len()
    }
    /// "only the first variables with unique names are added"; the error carries the clashing
    /// name, the variable that already has it and the range added before the error.
    pub fn add_named<S: AsRef<str>>(&mut self, names: &[S]) -> Result<Range<u32>, MDup> {
        let pre = self.len();
        for s in names {
            let s = s.as_ref();
            if let Some(p) = self.lookup(s) {
                return Err(MDup { name: s.to_string(), present_var: p, added: pre..self.len() });
            }
            self.names.push(s.to_string());
        }
        Ok(pre..self.len())
    }
    pub fn get_or_add(&mut self, s: &str) -> (u32, bool) {
        if let Some(p) = self.lookup(s) {
            return (p, true);
        }
        self.names.push(s.to_string());
        (self.len() - 1, false)
    }
    /// rejected iff another variable has the (non-empty) name; state unchanged then
    pub fn set_name(&mut self, v: u32, s: &str) -> Result<(), MDup> {
        match self.lookup(s) {
            Some(p) if p != v => Err(MDup { name: s.to_string(), present_var: p, added: self.len()..self.len() }),
            _ => {
                self.names[v as usize] = s.to_string();
                Ok(())
            }
        }
    }
}

fn short(s: &str) -> String {
    if s.chars().count() <= 24 {
        format!("{s:?}")
    } else {
        let head: String = s.chars().take(12).collect();
        format!("{head:?}..({} bytes)", s.len())
    }
}

// ---------------------------------------------------------------------------------------------
// Operations on a VarNameMap (names are indices into a per-sequence pool; pool[0] == "")
// ---------------------------------------------------------------------------------------------

#[derive(Clone, Copy, PartialEq, Eq, Hash, Debug)]
pub enum XOp {
    Unnamed(u8),
    /// add_named of the first `.0` entries of `.1`
    Named(u8, [u8; 4]),
    GetOrAdd(u8),
    SetName(u8, u8),
    /// c = m.clone(); drop(m); continue with c
    CloneKeepClone,
    /// c = m.clone(); drop(c); continue with m
    CloneKeepOrig,
    Reserve(u8),
}

impl XOp {
    fn name(&self) -> &'static str {
        match self {
            XOp::Unnamed(_) => "add_unnamed",
            XOp::Named(..) => "add_named",
            XOp::GetOrAdd(_) => "get_or_add",
            XOp::SetName(..) => "set_var_name",
            XOp::CloneKeepClone | XOp::CloneKeepOrig => "clone",
            XOp::Reserve(_) => "reserve",
        }
    }
    fn show(&self, pool: &[String]) -> String {
        match self {
            XOp::Unnamed(k) => format!("add_unnamed({k})"),
            XOp::Named(k, xs) => {
                let v: Vec<String> = xs[..*k as usize].iter().map(|&i| short(&pool[i as usize])).collect();
                format!("add_named([{}])", v.join(","))
            }
            XOp::GetOrAdd(x) => format!("get_or_add({})", short(&pool[*x as usize])),
            XOp::SetName(v, x) => format!("set_var_name({v},{})", short(&pool[*x as usize])),
            XOp::CloneKeepClone => "clone+drop(original)".into(),
            XOp::CloneKeepOrig => "clone+drop(clone)".into(),
            XOp::Reserve(k) => format!("reserve({k})"),
        }
    }
}

fn show_seq(seq: &[XOp], pool: &[String]) -> String {
    seq.iter().map(|o| o.show(pool)).collect::<Vec<_>>().join("; ")
}

type Bad = Vec<(&'static str, String)>;

#[derive(Default, Clone, Copy)]
struct StepInfo {
    rejected: bool,
    renamed: bool,
    cleared: bool,
    cloned: bool,
}

fn cmp_dup(e: &DuplicateVarName, want: &MDup, exact_added: bool, bad: &mut Bad) {
    if e.name != want.name || e.present_var != want.present_var {
        bad.push((
            "duplicate-report",
            format!("error names {} present_var {} but {} belongs to variable {}", short(&e.name), e.present_var, short(&want.name), want.present_var),
        ));
    }
    if exact_added {
        if e.added_vars != want.added {
            bad.push(("duplicate-report-added_vars", format!("added_vars {:?}, but {:?} were added before the duplicate", e.added_vars, want.added)));
        }
    } else if !e.added_vars.is_empty() {
        bad.push(("duplicate-report-added_vars", format!("added_vars {:?} although nothing was added", e.added_vars)));
    }
}

/// first named variable whose string storage is shared by the two maps
fn aliased(a: &VarNameMap, b: &VarNameMap) -> Option<u32> {
    let n = a.len().min(b.len());
    (0..n).find(|&v| {
        let (x, y) = (a.var_name(v), b.var_name(v));
        !x.is_empty() && !y.is_empty() && std::ptr::eq(x.as_ptr(), y.as_ptr())
    })
}

fn names_equal(map: &VarNameMap, model: &NameModel) -> bool {
    map.len() == model.len() && (0..model.len()).all(|v| map.var_name(v) == model.names[v as usize])
}

/// Apply `op` to the real map and to the model, compare the results. Returns `None` if the
/// map must not be used any more (soft mode: clone aliasing; the caller leaks the map).
fn apply_x(map: &mut VarNameMap, model: &mut NameModel, op: XOp, pool: &[String], soft: bool, bad: &mut Bad) -> Option<StepInfo> {
    let mut info = StepInfo::default();
    match op {
        XOp::Unnamed(k) => {
            map.add_unnamed(k as u32);
            model.add_unnamed(k as u32);
        }
        XOp::Reserve(k) => map.reserve(k as u32),
        XOp::Named(k, xs) => {
            let names: Vec<&str> = xs[..k as usize].iter().map(|&i| pool[i as usize].as_str()).collect();
            let want = model.add_named(&names);
            let got = map.add_named(names.iter().copied());
            match (&got, &want) {
                (Ok(g), Ok(w)) => {
                    if g != w {
                        bad.push(("range", format!("returned {g:?} want {w:?}")));
                    }
                }
                (Err(e), Err(w)) => {
                    info.rejected = true;
                    cmp_dup(e, w, true, bad);
                }
                (Ok(g), Err(w)) => bad.push(("duplicate-accepted", format!("returned Ok({g:?}) although {} is the name of variable {}", short(&w.name), w.present_var))),
                (Err(e), Ok(_)) => bad.push(("spurious-duplicate", format!("rejected with {e:?} although all names are fresh"))),
            }
        }
        XOp::GetOrAdd(x) => {
            let s = pool[x as usize].as_str();
            let want = model.get_or_add(s);
            let got = map.get_or_add(s);
            if got != want {
                bad.push(("result", format!("returned {got:?} want {want:?}")));
            }
        }
        XOp::SetName(v, x) => {
            let s = pool[x as usize].as_str();
            let old_named = !model.names[v as usize].is_empty();
            let same = model.names[v as usize] == s;
            let want = model.set_name(v as u32, s);
            let got = map.set_var_name(v as u32, s);
            match (&got, &want) {
                (Ok(()), Ok(())) => {
                    info.renamed = old_named && !s.is_empty() && !same;
                    info.cleared = old_named && s.is_empty();
                }
                (Err(e), Err(w)) => {
                    info.rejected = true;
                    cmp_dup(e, w, false, bad);
                }
                (Ok(()), Err(w)) => bad.push(("duplicate-accepted", format!("returned Ok although {} is the name of variable {}", short(&w.name), w.present_var))),
                (Err(e), Ok(())) => bad.push(("spurious-duplicate", format!("rejected with {e:?} although the name is free / the variable's own"))),
            }
        }
        XOp::CloneKeepClone | XOp::CloneKeepOrig => {
            info.cloned = true;
            let c = map.clone();
            if let Some(v) = aliased(map, &c) {
                bad.push((
                    "double-free",
                    format!(
                        "the clone's var_name({v}) = {} lives at the same heap address as the original's; both `Drop` impls free it",
                        short(map.var_name(v))
                    ),
                ));
                if soft {
                    std::mem::forget(c);
                    return None;
                }
            }
            if !names_equal(&c, model) || c.named_count() != model.named() {
                bad.push(("content", "the clone does not have the names of the original".into()));
            }
            if op == XOp::CloneKeepClone {
                let old = std::mem::replace(map, c);
                drop(old);
            } else {
                drop(c);
            }
        }
    }
    Some(info)
}

/// Compare every observable of the map with the model. `probes`: every string that may ever
/// have been a key in this sequence (+ one that never was).
fn check_map(map: &VarNameMap, model: &NameModel, probes: &[String], bad: &mut Bad) -> u64 {
    let mut evals = 3;
    if map.len() != model.len() || map.is_empty() != (model.len() == 0) {
        bad.push(("len", format!("len {} is_empty {} want len {}", map.len(), map.is_empty(), model.len())));
    }
    let nc = map.named_count();
    if nc != model.named() {
        bad.push(("named_count", format!("named_count {} but {} variables are named (names [{}])", nc, model.named(), model.names.iter().map(|s| short(s)).collect::<Vec<_>>().join(","))));
    }
    for v in 0..map.len().min(model.len()) {
        evals += 1;
        let got = map.var_name(v);
        if got != model.names[v as usize] {
            bad.push(("var_name", format!("var_name({v}) = {} want {}", short(got), short(&model.names[v as usize]))));
            break;
        }
    }
    for s in probes {
        evals += 1;
        let got = map.name_to_var(s);
        let want = model.lookup(s);
        if got != want {
            let clause = match (got, want) {
                (Some(_), None) if s.is_empty() => "empty-name-found",
                (Some(_), None) => "stale-key",
                (None, Some(_)) => "name-not-found",
                _ => "name_to_var-wrong-var",
            };
            bad.push((clause, format!("name_to_var({}) = {got:?} want {want:?}", short(s))));
            break;
        }
    }
    // mutual inverse, from the variable side
    for v in 0..map.len().min(model.len()) {
        let nm = map.var_name(v);
        if !nm.is_empty() {
            evals += 1;
            let back = map.name_to_var(nm);
            if back != Some(v) {
                bad.push(("not-inverse", format!("name_to_var(var_name({v}) = {}) = {back:?}", short(nm))));
                break;
            }
        }
    }
    evals
}

/// Consume the map in one of several ways, comparing what comes out with the model
fn finish_map(map: VarNameMap, model: &NameModel, how: u32, bad: &mut Bad) -> u64 {
    let n = model.names.len();
    match how % 5 {
        0 => {
            drop(map);
            0
        }
        1 => {
            let it = map.into_names_iter();
            let l = it.len();
            let got: Vec<String> = it.collect();
            if l != n || got != model.names {
                bad.push(("names", format!("into_names_iter yields (len {l}) [{}] want [{}]", got.iter().map(|s| short(s)).collect::<Vec<_>>().join(","), model.names.iter().map(|s| short(s)).collect::<Vec<_>>().join(","))));
            }
            2
        }
        2 => {
            // partially consumed from both ends, rest dropped
            let mut it = map.into_names_iter();
            let a = it.next();
            let b = it.next_back();
            let wa = model.names.first().cloned();
            let wb = if n >= 2 { model.names.last().cloned() } else { None };
            if a != wa || b != wb || it.len() != n.saturating_sub(2) {
                bad.push(("next/next_back", format!("next {a:?} next_back {b:?} remaining {} want {wa:?} {wb:?}", it.len())));
            }
            drop(it);
            2
        }
        3 => {
            let mut it = map.into_names_iter();
            let a = it.nth(1);
            let b = it.nth_back(0);
            let wa = model.names.get(1).cloned();
            let wb = if n >= 3 { model.names.last().cloned() } else { None };
            if a != wa || b != wb {
                bad.push(("nth/nth_back", format!("nth(1) {a:?} nth_back(0) {b:?} want {wa:?} {wb:?}")));
            }
            drop(it);
            2
        }
        _ => {
            // reversed
            let got: Vec<String> = map.into_names_iter().rev().collect();
            let mut want = model.names.clone();
            want.reverse();
            if got != want {
                bad.push(("rev", format!("reversed iteration yields {got:?} want {want:?}")));
            }
            1
        }
    }
}

#[derive(Clone, Copy)]
struct Params {
    soft: bool,
    trace: bool,
    noclone: bool,
    norename: bool,
    noclear: bool,
    len: Option<usize>,
}

fn params(ctx: &Ctx) -> Params {
    let p = ctx.param.clone().unwrap_or_default();
    let has = |w: &str| p.split([',', ' ']).any(|x| x == w);
    Params {
        soft: !(cfg!(miri) || has("hard")),
        trace: has("trace"),
        noclone: has("noclone"),
        norename: has("norename"),
        noclear: has("noclear"),
        len: p.split([',', ' ']).find_map(|x| x.strip_prefix("len=").and_then(|v| v.parse().ok())),
    }
}

#[derive(Default)]
struct Stats {
    sequences: u64,
    rejected: u64,
    renames: u64,
    clears: u64,
    clones: u64,
    evals: u64,
    abandoned: u64,
}

impl Stats {
    fn add(&mut self, i: &StepInfo) {
        self.rejected += i.rejected as u64;
        self.renames += i.renamed as u64;
        self.clears += i.cleared as u64;
        self.clones += i.cloned as u64;
    }
    fn flush(&self, ctx: &mut Ctx) {
        ctx.evals(self.evals);
        ctx.count("sequences", self.sequences);
        ctx.count("rejected_calls", self.rejected);
        ctx.count("renames", self.renames);
        ctx.count("clears", self.clears);
        ctx.count("clones", self.clones);
        if self.abandoned > 0 {
            ctx.count("sequences_abandoned_after_violation", self.abandoned);
        }
    }
}

fn report(ctx: &mut Ctx, prefix: &str, opname: &str, bad: &Bad, witness: &str) {
    for (clause, detail) in bad {
        ctx.violation(&format!("{prefix}:{opname}:{clause}"), format!("{witness} => {detail}"));
    }
}

// ---------------------------------------------------------------------------------------------
// c16_map_exh
// ---------------------------------------------------------------------------------------------

const ALPHA: [&str; 4] = ["", "a", "b", "c"];

/// The complete op alphabet in a state with `n` variables
fn exh_ops_at(n: u32, p: &Params, out: &mut Vec<XOp>) {
    out.clear();
    out.push(XOp::Unnamed(1));
    out.push(XOp::Unnamed(2));
    for x in 0..4u8 {
        out.push(XOp::Named(1, [x, 0, 0, 0]));
    }
    for x in 0..4u8 {
        for y in 0..4u8 {
            out.push(XOp::Named(2, [x, y, 0, 0]));
        }
    }
    for x in 0..4u8 {
        out.push(XOp::GetOrAdd(x));
    }
    for v in 0..n {
        for x in 0..4u8 {
            out.push(XOp::SetName(v as u8, x));
        }
    }
    if !p.noclone {
        out.push(XOp::CloneKeepClone);
        out.push(XOp::CloneKeepOrig);
    }
}

/// is `op` filtered out by norename / noclear in the state `model`?
fn filtered(p: &Params, pool: &[String], model: &NameModel, op: XOp) -> bool {
    if let XOp::SetName(v, x) = op {
        let old = &model.names[v as usize];
        if !old.is_empty() {
            let s = &pool[x as usize];
            if p.noclear && s.is_empty() {
                return true;
            }
            if p.norename && !s.is_empty() && s != old && model.lookup(s).is_none() {
                return true;
            }
        }
    }
    false
}

struct Exh<'a> {
    ctx: &'a mut Ctx,
    pool: Vec<String>,
    probes: Vec<String>,
    p: Params,
    maxlen: usize,
    st: Stats,
    quiet: bool,
    counter: u32,
}

impl Exh<'_> {
    fn filtered(&self, model: &NameModel, op: XOp) -> bool {
        filtered(&self.p, &self.pool, model, op)
    }

    /// Execute `seq` on a fresh map: the prefix silently, the last call with all checks, then
    /// consume the map. Returns the model state if the sequence may be extended.
    fn node(&mut self, seq: &[XOp]) -> Option<NameModel> {
        let k = seq.len();
        if !self.quiet && (k <= 3 || self.p.trace) {
            println!("@@{{\"t\":\"case\",\"case\":{}}}", json_str(&format!("c16_map_exh [{}]", show_seq(seq, &self.pool))));
        }
        let mut map = VarNameMap::new();
        let mut model = NameModel::default();
        let mut bad: Bad = Vec::new();
        let mut ever_named = false;
        let mut info = StepInfo::default();
        for (i, &op) in seq.iter().enumerate() {
            if i + 1 == k {
                bad.clear(); // the prefix was judged at its own node
            }
            match apply_x(&mut map, &mut model, op, &self.pool, self.p.soft, &mut bad) {
                Some(inf) => info = inf,
                None => {
                    // soft mode, aliasing clone: leak and stop
                    std::mem::forget(map);
                    if !self.quiet && i + 1 == k {
                        report(self.ctx, "map", op.name(), &bad, &format!("[{}]", show_seq(seq, &self.pool)));
                        self.st.abandoned += 1;
                        self.st.clones += 1;
                        self.st.sequences += 1;
                    }
                    return None;
                }
            }
            ever_named |= model.named() > 0;
        }
        let last = seq[k - 1];
        let ev = check_map(&map, &model, &self.probes, &mut bad);
        if !self.quiet {
            self.st.evals += ev + 1;
            self.st.sequences += 1;
            self.st.add(&info);
        }
        if !bad.is_empty() {
            if !self.quiet {
                report(self.ctx, "map", last.name(), &bad, &format!("[{}]", show_seq(seq, &self.pool)));
            }
            if self.p.soft {
                std::mem::forget(map);
                if !self.quiet {
                    self.st.abandoned += 1;
                }
                return None;
            }
        }
        // Debug output walks all names (exercises the stored pointers)
        if k <= 3 {
            let _ = format!("{map:?}");
        }
        bad.clear();
        // inner nodes: every way of consuming the map; leaves: round robin
        let inner = k < self.maxlen;
        let hows: Range<u32> = if inner && !cfg!(miri) { 1..5 } else { 0..0 };
        let how0 = self.counter;
        self.counter = self.counter.wrapping_add(1);
        let ev = finish_map(map, &model, how0, &mut bad);
        if !self.quiet {
            self.st.evals += ev;
        }
        for how in hows {
            // replay for a further ending
            let mut m2 = VarNameMap::new();
            let mut mo2 = NameModel::default();
            let mut b2: Bad = Vec::new();
            let mut ok = true;
            for &op in seq {
                if apply_x(&mut m2, &mut mo2, op, &self.pool, self.p.soft, &mut b2).is_none() {
                    ok = false;
                    break;
                }
            }
            if !ok {
                std::mem::forget(m2);
                break;
            }
            let ev = finish_map(m2, &mo2, how0.wrapping_add(how), &mut bad);
            if !self.quiet {
                self.st.evals += ev;
            }
        }
        if !bad.is_empty() && !self.quiet {
            report(self.ctx, "map", "into_names_iter", &bad, &format!("[{}]", show_seq(seq, &self.pool)));
        }
        if ever_named && !self.quiet {
            self.ctx.distinct(seq);
        }
        Some(model)
    }

    fn dfs(&mut self, seq: &mut Vec<XOp>) {
        let Some(model) = self.node(seq) else { return };
        if seq.len() >= self.maxlen {
            return;
        }
        let mut ops = Vec::new();
        exh_ops_at(model.len(), &self.p, &mut ops);
        for op in ops {
            if self.filtered(&model, op) {
                continue;
            }
            seq.push(op);
            self.dfs(seq);
            seq.pop();
        }
    }
}

pub fn map_exhaustive(ctx: &mut Ctx) {
    let p = params(ctx);
    let maxlen = p.len.unwrap_or(if cfg!(miri) { 3 } else { ctx.by_tier(5, 6) });
    let pool: Vec<String> = ALPHA.iter().map(|s| s.to_string()).collect();
    let mut probes = pool.clone();
    probes.push("never-used".to_string());
    let shard = ctx.shard;
    let nshards = ctx.nshards;
    let mut e = Exh { ctx, pool, probes, p, maxlen, st: Stats::default(), quiet: false, counter: 0 };
    let mut ops1 = Vec::new();
    exh_ops_at(0, &p, &mut ops1);
    let mut idx = 0usize;
    for (i, &op1) in ops1.iter().enumerate() {
        // depth-1 node: judged by one shard, but every shard needs its model to enumerate
        e.quiet = i % nshards != shard;
        let m1 = e.node(&[op1]);
        e.quiet = false;
        let Some(m1) = m1 else { continue };
        if maxlen < 2 {
            continue;
        }
        let mut ops2 = Vec::new();
        exh_ops_at(m1.len(), &p, &mut ops2);
        for op2 in ops2 {
            if e.filtered(&m1, op2) {
                continue;
            }
            let mine = idx % nshards == shard;
            idx += 1;
            if mine {
                let mut seq = vec![op1, op2];
                e.dfs(&mut seq);
            }
        }
    }
    let Exh { ctx, st, .. } = e;
    st.flush(ctx);
    ctx.count_max("max_sequence_length", maxlen as u64);
    ctx.sample(|| {
        format!(
            "exhaustive: every sequence of <= {maxlen} calls over add_unnamed(1|2), add_named([x]), add_named([x,y]), get_or_add(x), set_var_name(v,x), clone+drop(original), clone+drop(clone), x,y in {{\"\",a,b,c}}, each ended by drop / into_names_iter (full, reversed, partial, nth); e.g. [add_named([\"a\",\"b\"]); set_var_name(0,\"c\"); get_or_add(\"a\"); add_named([\"c\"])]"
        )
    });
}

// ---------------------------------------------------------------------------------------------
// random names
// ---------------------------------------------------------------------------------------------

const SPECIAL: &[&str] = &[
    " ", "\t", "\n", "  ", "a b", " a", "a ", "\u{0}", "x\u{0}y", "\u{feff}", "\u{200b}", "ä", "a\u{308}", "A", "a", "ß", "ss", "変数", "😀", "👩\u{200d}👩\u{200d}👧",
    "\u{10ffff}", "\u{e9}", "e\u{301}", "İ", "i", "0", "-1", "\"", "\\", "{}",
];

fn rand_char(rng: &mut Rng) -> char {
    let (lo, hi) = match rng.below(8) {
        0 | 1 => (0x61, 0x7a),
        2 => (0x20, 0x7e),
        3 => (0xa0, 0x17f),
        4 => (0x391, 0x3c9),
        5 => (0x4e00, 0x4fff),
        6 => (0x1f600, 0x1f64f),
        _ => (0x2000, 0x200f),
    };
    char::from_u32(rng.range(lo, hi) as u32).unwrap_or('x')
}

pub fn rand_name(rng: &mut Rng, allow_long: bool) -> String {
    match rng.below(12) {
        0 | 1 => rng.pick(SPECIAL).to_string(),
        2 if allow_long => format!("{}{}", "x".repeat(rng.range(200, 20000)), rng.below(3)),
        3 if allow_long => format!("{}{}", "δ".repeat(rng.range(100, 5000)), rng.below(3)),
        _ => (0..rng.range(1, 8)).map(|_| rand_char(rng)).collect(),
    }
}

/// pool[0] == "", all entries distinct; some entries are near-duplicates of others
pub fn rand_pool(rng: &mut Rng, size: usize, allow_long: bool) -> Vec<String> {
    let mut pool = vec![String::new()];
    let mut guard = 0;
    while pool.len() < size && guard < 1000 {
        guard += 1;
        let s = if pool.len() > 1 && rng.chance(1, 4) {
            let base = rng.pick(&pool[1..]).clone();
            match rng.below(5) {
                0 => format!("{base} "),
                1 => base.to_uppercase(),
                2 => {
                    let mut b = base.clone();
                    b.pop();
                    b
                }
                3 => format!("{base}{base}"),
                _ => format!(" {base}"),
            }
        } else {
            rand_name(rng, allow_long)
        };
        if !s.is_empty() && !pool.contains(&s) {
            pool.push(s);
        }
    }
    pool
}

/// random op for a map whose model is `model` (pool indices < pool_len)
fn rand_xop(rng: &mut Rng, model: &NameModel, pool_len: usize, p: &Params, maxvars: u32) -> XOp {
    let n = model.len();
    let nm = |rng: &mut Rng| rng.usize(pool_len) as u8;
    loop {
        let w = rng.below(100);
        let op = match w {
            0..=7 if n + 2 <= maxvars => XOp::Unnamed(rng.range(0, 2) as u8),
            8..=29 if n + 4 <= maxvars => {
                let k = rng.range(0, 4) as u8;
                XOp::Named(k, [nm(rng), nm(rng), nm(rng), nm(rng)])
            }
            30..=41 if n + 1 <= maxvars => XOp::GetOrAdd(nm(rng)),
            42..=81 if n > 0 => XOp::SetName(rng.usize(n as usize) as u8, nm(rng)),
            82..=87 if !p.noclone => XOp::CloneKeepClone,
            88..=93 if !p.noclone => XOp::CloneKeepOrig,
            94..=96 => XOp::Reserve(rng.range(0, 40) as u8),
            _ => continue,
        };
        return op;
    }
}

pub fn map_random(ctx: &mut Ctx) {
    let mut p = params(ctx);
    // Soft mode: once the same kind of call has corrupted 8 maps in this shard, stop generating
    // it, so that the remaining clauses are still exercised on long sequences.
    let (mut rename_viol, mut clone_viol) = (0u32, 0u32);
    let rng = ctx.rng(0xC16_2);
    let nseq = if cfg!(miri) { 6 } else { ctx.by_tier(4000, 150000) };
    let mut st = Stats::default();
    let mut master = rng;
    for i in 0..nseq {
        let mut rng = master.fork(i as u64);
        let small = i % 4 == 0;
        let psize = rng.range(3, 12);
        let pool: Vec<String> = if small { ALPHA.iter().map(|s| s.to_string()).collect() } else { rand_pool(&mut rng, psize, !cfg!(miri)) };
        let len = if cfg!(miri) { 12 } else if small { rng.range(7, 30) } else { rng.range(6, 90) };
        // generate against the model only, so that the whole sequence can be announced first
        let mut sim = NameModel::default();
        let mut seq = Vec::with_capacity(len);
        while seq.len() < len {
            let op = rand_xop(&mut rng, &sim, pool.len(), &p, 200);
            if filtered(&p, &pool, &sim, op) {
                continue;
            }
            apply_model_only(&mut sim, op, &pool);
            seq.push(op);
        }
        let label = format!("c16_map_rand #{i} [{}]", show_seq(&seq, &pool));
        println!("@@{{\"t\":\"case\",\"case\":{}}}", json_str(&label));
        let mut probes = pool.clone();
        probes.push("never-used".into());
        let mut map = VarNameMap::new();
        let mut model = NameModel::default();
        let mut bad: Bad = Vec::new();
        let mut ever_named = false;
        let mut dead = false;
        for (k, &op) in seq.iter().enumerate() {
            let r = apply_x(&mut map, &mut model, op, &pool, p.soft, &mut bad);
            if let Some(info) = &r {
                st.add(info);
                st.evals += 1 + check_map(&map, &model, &probes, &mut bad);
                ever_named |= model.named() > 0;
                if rng.chance(1, 8) {
                    let _ = format!("{map:?}");
                }
            }
            if !bad.is_empty() {
                report(ctx, "map", op.name(), &bad, &format!("[{}] (names: see case line) at call #{k}", show_seq(&seq[..=k], &pool)));
                if p.soft {
                    match op {
                        XOp::SetName(..) => rename_viol += 1,
                        XOp::CloneKeepClone | XOp::CloneKeepOrig => clone_viol += 1,
                        _ => {}
                    }
                    dead = true;
                    break;
                }
                bad.clear();
            }
            if r.is_none() {
                dead = true;
                break;
            }
        }
        st.sequences += 1;
        if dead {
            st.abandoned += 1;
            std::mem::forget(map);
        } else {
            let ev = finish_map(map, &model, rng.below(5) as u32, &mut bad);
            st.evals += ev;
            if !bad.is_empty() {
                report(ctx, "map", "into_names_iter", &bad, &format!("[{}]", show_seq(&seq, &pool)));
            }
        }
        if ever_named {
            ctx.distinct((&seq, &pool));
        }
        if i < 2 {
            ctx.sample(|| label.clone());
        }
        if rename_viol >= 8 && !p.norename {
            p.norename = true;
            ctx.count("renames_no_longer_generated_after_8_violations", 1);
        }
        if clone_viol >= 8 && !p.noclone {
            p.noclone = true;
            ctx.count("clones_no_longer_generated_after_8_violations", 1);
        }
    }
    st.flush(ctx);
}

fn apply_model_only(model: &mut NameModel, op: XOp, pool: &[String]) {
    match op {
        XOp::Unnamed(k) => {
            model.add_unnamed(k as u32);
        }
        XOp::Named(k, xs) => {
            let names: Vec<&str> = xs[..k as usize].iter().map(|&i| pool[i as usize].as_str()).collect();
            let _ = model.add_named(&names);
        }
        XOp::GetOrAdd(x) => {
            model.get_or_add(&pool[x as usize]);
        }
        XOp::SetName(v, x) => {
            let _ = model.set_name(v as u32, &pool[x as usize]);
        }
        XOp::CloneKeepClone | XOp::CloneKeepOrig | XOp::Reserve(_) => {}
    }
}

// ---------------------------------------------------------------------------------------------
// c16_map_leak: heap accounting
// ---------------------------------------------------------------------------------------------

#[cfg(all(target_os = "linux", target_env = "gnu", not(miri)))]
mod heap {
    #[repr(C)]
    #[derive(Default, Clone, Copy)]
    struct MallInfo2 {
        arena: usize,
        ordblks: usize,
        smblks: usize,
        hblks: usize,
        hblkhd: usize,
        usmblks: usize,
        fsmblks: usize,
        uordblks: usize,
        fordblks: usize,
        keepcost: usize,
    }
    unsafe extern "C" {
        fn mallinfo2() -> MallInfo2;
    }
    /// bytes currently allocated through malloc (arena + mmapped)
    pub fn in_use() -> Option<usize> {
        // SAFETY: glibc >= 2.33 function without preconditions
        let mi = unsafe { mallinfo2() };
        Some(mi.uordblks + mi.hblkhd)
    }
}
#[cfg(not(all(target_os = "linux", target_env = "gnu", not(miri))))]
mod heap {
    pub fn in_use() -> Option<usize> {
        None
    }
}

/// Runs `cycle` `reps` times; each run handles a name of `name_len` bytes that must be freed
/// again by the time the run is over. Reports if the heap grew by more than half of what
/// leaking every such name would cost.
fn leak_probe(ctx: &mut Ctx, sig: &str, what: &str, reps: usize, name_len: usize, mut cycle: impl FnMut(usize, &str)) {
    let names: Vec<String> = (0..2).map(|i| format!("{}{i}", "n".repeat(name_len - 1))).collect();
    // warm up (hash map / vector capacity, allocator caches)
    for i in 0..4 {
        cycle(i, &names[i % 2]);
    }
    let Some(before) = heap::in_use() else {
        ctx.count("leak_probe_unavailable", 1);
        return;
    };
    for i in 0..reps {
        cycle(i, &names[i % 2]);
    }
    let after = heap::in_use().unwrap();
    let grown = after.saturating_sub(before);
    ctx.count("leak_probes", 1);
    // A leak is not a violation of C16 (the property is about the name <-> variable bijection and
    // memory safety shows up as wrong lookups / double frees): leaks are recorded as observations.
    ctx.eval();
    if grown < reps * name_len / 2 {
        ctx.distinct(sig);
    } else {
        ctx.count(&format!("observed_leak:{sig}"), 1);
        eprintln!("[observation] {what}: {reps} repetitions with a {name_len}-byte name grew the heap by {grown} bytes (about {} per repetition)", grown / reps);
    }
}

pub fn map_leak(ctx: &mut Ctx) {
    // cheap (milliseconds) and deterministic: every shard runs it
    println!("@@{{\"t\":\"case\",\"case\":\"c16_map_leak\"}}");
    let (reps, len) = (256, 4096);
    // control: build and drop
    leak_probe(ctx, "map:drop:leaks-name", "add_named([s]); drop", reps, len, |_, s| {
        let mut m = VarNameMap::new();
        m.add_named([s]).unwrap();
        drop(m);
    });
    leak_probe(ctx, "map:into_names_iter:leaks-name", "add_named([s]); into_names_iter().next(); drop", reps, len, |_, s| {
        let mut m = VarNameMap::new();
        m.add_named(["p", s, "q"]).unwrap();
        let mut it = m.into_names_iter();
        let _ = it.next();
        drop(it);
    });
    leak_probe(ctx, "map:add_named:leaks-rejected-name", "add_named([s]) rejected as duplicate", reps, len, {
        let mut m = VarNameMap::new();
        move |_, s| {
            let _ = m.add_named([s]);
            let _ = m.add_named([s]);
            let _ = m.get_or_add(s);
            let _ = m.set_var_name(0, s);
        }
    });
    // clearing a name
    leak_probe(ctx, "map:set_var_name:clear-leaks-name", "set_var_name(0, s); set_var_name(0, \"\") on one map", reps, len, {
        let mut m = VarNameMap::new();
        m.add_unnamed(1);
        move |_, s| {
            m.set_var_name(0, s).unwrap();
            m.set_var_name(0, "").unwrap();
        }
    });
    // skipping elements of the owning iterator
    leak_probe(ctx, "map:into_names_iter:nth-leaks-skipped-names", "add_named([s,\"t\"]); into_names_iter().nth(1)", reps, len, |_, s| {
        let mut m = VarNameMap::new();
        m.add_named([s, "t"]).unwrap();
        let mut it = m.into_names_iter();
        let got = it.nth(1);
        assert_eq!(got.as_deref(), Some("t"));
    });
    leak_probe(ctx, "map:into_names_iter:nth_back-leaks-skipped-names", "add_named([\"t\",s]); into_names_iter().nth_back(1)", reps, len, |_, s| {
        let mut m = VarNameMap::new();
        m.add_named(["t", s]).unwrap();
        let mut it = m.into_names_iter();
        let got = it.nth_back(1);
        assert_eq!(got.as_deref(), Some("t"));
    });
    // rename: only meaningful once renaming is memory safe; a stale key makes named_count wrong
    leak_probe(ctx, "map:set_var_name:rename-leaks-name", "set_var_name(0, s) alternating between two names", reps, len, {
        let mut m = Some(VarNameMap::new());
        m.as_mut().unwrap().add_unnamed(1);
        let mut poisoned = false;
        move |i, s| {
            if poisoned {
                return;
            }
            let mm = m.as_mut().unwrap();
            mm.set_var_name(0, s).unwrap();
            if mm.named_count() != 1 {
                // defect reported by c16_map_exh; do not touch (or drop) this map again
                poisoned = true;
                std::mem::forget(m.take());
            }
            let _ = i;
        }
    });
}

// ---------------------------------------------------------------------------------------------
// c16_mgr
// ---------------------------------------------------------------------------------------------

/// A decision-diagram kind as far as this monitor needs it
pub trait Dd: 'static {
    const NAME: &'static str;
    const REORDER: bool;
    /// handles are only created while the manager has at most this many variables
    const MAX_BUILD_VARS: u32;
    type MR: ManagerRef;
    type H;
    fn new_mref() -> Self::MR;
    /// build a random function over the current `n` variables together with its denotation;
    /// `Err` = the freshly built handle does not denote what the constructor calls say
    fn new_handle(mref: &Self::MR, n: u32, rng: &mut Rng) -> Result<Self::H, String>;
    /// does the handle still denote the recorded function (added variables are don't cares;
    /// ZBDD: the family is the same)?
    fn check_handle(mref: &Self::MR, h: &Self::H, rng: &mut Rng) -> Result<u64, String>;
    fn reorder(mref: &Self::MR, order: &[u32]);
}

pub struct BH<K: BoolKind> {
    f: K::F,
    t: Tt,
}

/// settings of the `extra` variables added after the handle was built
fn hi_patterns(extra: u32, rng: &mut Rng) -> Vec<usize> {
    if extra == 0 {
        vec![0]
    } else if extra <= 3 {
        (0..1usize << extra).collect()
    } else {
        let all = (1usize << extra) - 1;
        vec![0, all, rng.next() as usize & all, rng.next() as usize & all, 1, 1 << (extra - 1)]
    }
}

macro_rules! bool_dd {
    ($name:ident, $k:ty, $reorder:expr) => {
        pub struct $name;
        impl Dd for $name {
            const NAME: &'static str = <$k as BoolKind>::NAME;
            const REORDER: bool = $reorder;
            const MAX_BUILD_VARS: u32 = 7;
            type MR = MRefOf<$k>;
            type H = BH<$k>;
            fn new_mref() -> Self::MR {
                <$k as BoolKind>::new_manager(1 << 12, 1 << 10, 1)
            }
            fn new_handle(mref: &Self::MR, n: u32, rng: &mut Rng) -> Result<Self::H, String> {
                let t = Tt::random_biased(n, rng);
                let f = build_shannon::<$k>(mref, &t);
                let it = interp_tt::<$k>(&f);
                if it != t {
                    return Err(format!("built {t}, the handle denotes {it}"));
                }
                Ok(BH { f, t })
            }
            fn check_handle(_mref: &Self::MR, h: &Self::H, rng: &mut Rng) -> Result<u64, String> {
                h.f.with_manager_shared(|m, e| {
                    let n = m.num_vars();
                    let k = h.t.n;
                    if n < k || n > 60 {
                        return Err(format!("manager has {n} variables, handle was built over {k}"));
                    }
                    let mut evals = 0;
                    for hi in hi_patterns(n - k, rng) {
                        for lo in 0..1usize << k {
                            let a = lo | (hi << k);
                            let got = interp_edge::<$k>(m, e, a);
                            let want = match <$k as BoolKind>::SEM {
                                Sem::ZeroSup => hi == 0 && h.t.get(lo),
                                _ => h.t.get(lo),
                            };
                            evals += 1;
                            if got != want {
                                return Err(format!(
                                    "handle built as {} over {k} variables evaluates to {got} under assignment {a:#b} of the now {n} variables (want {want})",
                                    h.t
                                ));
                            }
                        }
                    }
                    Ok(evals)
                })
            }
            fn reorder(mref: &Self::MR, order: &[u32]) {
                set_order(mref, order)
            }
        }
    };
}

bool_dd!(BddD, Bdd, true);
bool_dd!(BcddD, Bcdd, true);
// ZBDD reordering changes families (recorded known finding of C08) => never reorder here
bool_dd!(ZbddD, Zbdd, false);

/// Node-by-node evaluation of a diagram without edge tags / suppressed levels: at a node of
/// variable v follow child number `digit(v)`; returns `code(terminal)`.
fn walk_plain<M: Manager>(m: &M, e: &M::Edge, digit: &dyn Fn(u32) -> usize, code: &dyn Fn(&M::Terminal) -> i64) -> i64
where
    M::InnerNode: HasLevel,
{
    match m.get_node(e) {
        Node::Inner(n) => {
            let v = m.level_to_var(n.level());
            let c = n.child(digit(v));
            walk_plain(m, &c, digit, code)
        }
        Node::Terminal(t) => {
            use std::borrow::Borrow;
            code(t.borrow())
        }
    }
}

#[cfg(not(feature = "pointer"))]
mod multi {
    use super::*;
    use oxidd::mtbdd::terminal::I64;
    use oxidd::mtbdd::{MTBDDFunction, MTBDDManagerRef};
    use oxidd::tdd::{TDDFunction, TDDManagerRef};
    use oxidd::{PseudoBooleanFunction, TVLFunction};
    use oxidd_rules_tdd::TDDTerminal;

    /// function over `k` variables with `arity` values per variable: table[a], a = sum digit(v) * arity^v
    pub struct PH<F> {
        f: F,
        k: u32,
        table: Vec<i64>,
    }

    /// `eval(digit)`: terminal code reached when following child number `digit(v)` at nodes of
    /// variable v
    fn check_plain<F>(h: &PH<F>, arity: usize, n: u32, rng: &mut Rng, eval: &dyn Fn(&dyn Fn(u32) -> usize) -> i64) -> Result<u64, String> {
        if n < h.k {
            return Err(format!("manager has {n} variables, handle was built over {}", h.k));
        }
        let extra = (n - h.k) as usize;
        // settings of the new variables: all equal d for each d, two random ones
        let mut pats: Vec<Vec<usize>> = (0..arity).map(|d| vec![d; extra]).collect();
        if extra > 0 {
            for _ in 0..2 {
                pats.push((0..extra).map(|_| rng.usize(arity)).collect());
            }
        } else {
            pats.truncate(1);
        }
        let mut evals = 0;
        for pat in &pats {
            for (a, &want) in h.table.iter().enumerate() {
                let digit = |v: u32| -> usize {
                    if v < h.k { (a / arity.pow(v)) % arity } else { pat[(v - h.k) as usize] }
                };
                let got = eval(&digit);
                evals += 1;
                if got != want {
                    return Err(format!(
                        "handle built over {} variables: old-variable assignment #{a} (base {arity}) with new variables set to {pat:?} reaches terminal code {got}, want {want}",
                        h.k
                    ));
                }
            }
        }
        Ok(evals)
    }

    pub struct MtbddD;
    type MF = MTBDDFunction<I64>;

    fn i64_code(t: &I64) -> i64 {
        match t {
            I64::Num(x) => *x,
            I64::NaN => i64::MIN,
            I64::MinusInf => i64::MIN + 1,
            I64::PlusInf => i64::MAX,
        }
    }

    impl Dd for MtbddD {
        const NAME: &'static str = "mtbdd";
        const REORDER: bool = true;
        const MAX_BUILD_VARS: u32 = 7;
        type MR = MTBDDManagerRef<I64>;
        type H = PH<MF>;
        fn new_mref() -> Self::MR {
            oxidd::mtbdd::new_manager::<I64>(1 << 12, 1 << 8, 1 << 10, 1)
        }
        fn new_handle(mref: &Self::MR, n: u32, rng: &mut Rng) -> Result<Self::H, String> {
            // f = c0 + sum_v c_v * x_v  (+ c * x_i * x_j)
            let c0 = rng.range(0, 6) as i64 - 3;
            let cs: Vec<i64> = (0..n).map(|_| if rng.chance(2, 3) { rng.range(0, 8) as i64 - 4 } else { 0 }).collect();
            let prod = if n >= 2 && rng.bool() { Some((rng.usize(n as usize) as u32, rng.usize(n as usize) as u32, rng.range(1, 5) as i64)) } else { None };
            let f = mref.with_manager_shared(|m| {
                let mut f = MF::constant(m, I64::Num(c0)).unwrap();
                for (v, &c) in cs.iter().enumerate() {
                    if c != 0 {
                        let t = MF::var(m, v as u32).unwrap().mul(&MF::constant(m, I64::Num(c)).unwrap()).unwrap();
                        f = f.add(&t).unwrap();
                    }
                }
                if let Some((i, j, c)) = prod {
                    let t = MF::var(m, i).unwrap().mul(&MF::var(m, j).unwrap()).unwrap().mul(&MF::constant(m, I64::Num(c)).unwrap()).unwrap();
                    f = f.add(&t).unwrap();
                }
                f
            });
            // child 0 = "then" (variable is 1), child 1 = "else": digit d means x = 1 - d
            let table: Vec<i64> = (0..1usize << n)
                .map(|a| {
                    let x = |v: u32| 1 - ((a >> v) & 1) as i64;
                    let mut r = c0;
                    for (v, &c) in cs.iter().enumerate() {
                        r += c * x(v as u32);
                    }
                    if let Some((i, j, c)) = prod {
                        r += c * x(i) * x(j);
                    }
                    r
                })
                .collect();
            let h = PH { f, k: n, table };
            match Self::check_handle(mref, &h, rng) {
                Ok(_) => Ok(h),
                Err(e) => Err(format!("c0={c0} coefficients {cs:?} product {prod:?}: {e}")),
            }
        }
        fn check_handle(mref: &Self::MR, h: &Self::H, rng: &mut Rng) -> Result<u64, String> {
            let n = mref.with_manager_shared(|m| m.num_vars());
            check_plain(h, 2, n, rng, &|digit| h.f.with_manager_shared(|m, e| walk_plain(m, e, digit, &i64_code)))
        }
        fn reorder(mref: &Self::MR, order: &[u32]) {
            mref.with_manager_exclusive(|m| oxidd_reorder::set_var_order(m, order));
        }
    }

    pub struct TddD;

    fn tdd_code(t: &TDDTerminal) -> i64 {
        match t {
            TDDTerminal::True => 0,
            TDDTerminal::Unknown => 1,
            TDDTerminal::False => 2,
        }
    }
    // Kleene logic on codes 0 = true, 1 = unknown, 2 = false
    fn k_not(a: i64) -> i64 {
        2 - a
    }
    fn k_and(a: i64, b: i64) -> i64 {
        a.max(b)
    }
    fn k_or(a: i64, b: i64) -> i64 {
        a.min(b)
    }

    impl Dd for TddD {
        const NAME: &'static str = "tdd";
        const REORDER: bool = true;
        const MAX_BUILD_VARS: u32 = 5;
        type MR = TDDManagerRef;
        type H = PH<TDDFunction>;
        fn new_mref() -> Self::MR {
            oxidd::tdd::new_manager(1 << 12, 1 << 10, 1)
        }
        fn new_handle(mref: &Self::MR, n: u32, rng: &mut Rng) -> Result<Self::H, String> {
            // random expression over var / not / and / or, evaluated pointwise in the model
            let size = 3usize.pow(n);
            #[derive(Debug)]
            enum E {
                T,
                F,
                Var(u32),
                Not(usize),
                And(usize, usize),
                Or(usize, usize),
            }
            let mut es: Vec<E> = Vec::new();
            let steps = rng.range(1, 8);
            for i in 0..steps {
                let e = match rng.below(6) {
                    0 if n == 0 || i == 0 => {
                        if rng.bool() { E::T } else { E::F }
                    }
                    0 | 1 if n > 0 => E::Var(rng.usize(n as usize) as u32),
                    2 if i > 0 => E::Not(rng.usize(i)),
                    3 | 4 if i > 0 => E::And(rng.usize(i), rng.usize(i)),
                    _ if i > 0 => E::Or(rng.usize(i), rng.usize(i)),
                    _ => {
                        if n > 0 { E::Var(rng.usize(n as usize) as u32) } else { E::T }
                    }
                };
                es.push(e);
            }
            let f = mref.with_manager_shared(|m| {
                let mut fs: Vec<TDDFunction> = Vec::new();
                for e in &es {
                    let f = match e {
                        E::T => TDDFunction::t(m),
                        E::F => TDDFunction::f(m),
                        E::Var(v) => TDDFunction::var(m, *v).unwrap(),
                        E::Not(i) => fs[*i].not().unwrap(),
                        E::And(i, j) => fs[*i].and(&fs[*j]).unwrap(),
                        E::Or(i, j) => fs[*i].or(&fs[*j]).unwrap(),
                    };
                    fs.push(f);
                }
                fs.pop().unwrap()
            });
            let table: Vec<i64> = (0..size)
                .map(|a| {
                    let mut vals: Vec<i64> = Vec::new();
                    for e in &es {
                        let x = match e {
                            E::T => 0,
                            E::F => 2,
                            E::Var(v) => ((a / 3usize.pow(*v)) % 3) as i64,
                            E::Not(i) => k_not(vals[*i]),
                            E::And(i, j) => k_and(vals[*i], vals[*j]),
                            E::Or(i, j) => k_or(vals[*i], vals[*j]),
                        };
                        vals.push(x);
                    }
                    *vals.last().unwrap()
                })
                .collect();
            let h = PH { f, k: n, table };
            match Self::check_handle(mref, &h, rng) {
                Ok(_) => Ok(h),
                Err(e) => Err(format!("expression {es:?}: {e}")),
            }
        }
        fn check_handle(mref: &Self::MR, h: &Self::H, rng: &mut Rng) -> Result<u64, String> {
            let n = mref.with_manager_shared(|m| m.num_vars());
            check_plain(h, 3, n, rng, &|digit| h.f.with_manager_shared(|m, e| walk_plain(m, e, digit, &tdd_code)))
        }
        fn reorder(mref: &Self::MR, order: &[u32]) {
            mref.with_manager_exclusive(|m| oxidd_reorder::set_var_order(m, order));
        }
    }
}

#[derive(Clone, Debug)]
enum GOp {
    AddVars(u32),
    AddNamed(Vec<u8>),
    /// build a VarNameMap by these calls, then add_named_vars_from_map
    AddFromMap(Vec<XOp>),
    SetName(u32, u8),
    NewHandle,
    DropHandle(usize),
    Gc,
    Reorder(Vec<u32>),
}

impl GOp {
    fn name(&self) -> &'static str {
        match self {
            GOp::AddVars(_) => "add_vars",
            GOp::AddNamed(_) => "add_named_vars",
            GOp::AddFromMap(_) => "add_named_vars_from_map",
            GOp::SetName(..) => "set_var_name",
            GOp::NewHandle => "new_handle",
            GOp::DropHandle(_) => "drop_handle",
            GOp::Gc => "gc",
            GOp::Reorder(_) => "set_var_order",
        }
    }
    fn show(&self, pool: &[String]) -> String {
        match self {
            GOp::AddVars(k) => format!("add_vars({k})"),
            GOp::AddNamed(xs) => format!("add_named_vars([{}])", xs.iter().map(|&i| short(&pool[i as usize])).collect::<Vec<_>>().join(",")),
            GOp::AddFromMap(b) => format!("add_named_vars_from_map(map built by [{}])", show_seq(b, pool)),
            GOp::SetName(v, x) => format!("set_var_name({v},{})", short(&pool[*x as usize])),
            GOp::NewHandle => "new_handle".into(),
            GOp::DropHandle(i) => format!("drop_handle({i})"),
            GOp::Gc => "gc".into(),
            GOp::Reorder(o) => format!("set_var_order({o:?})"),
        }
    }
}

const MGR_MAX_VARS: u32 = 20;

/// Generate a whole sequence by simulating on the model (so it can be announced before it runs)
fn gen_mgr_seq<D: Dd>(rng: &mut Rng, len: usize, pool: &[String], p: &Params) -> Vec<GOp> {
    let mut sim = NameModel::default();
    let mut handles = 0usize;
    let mut seq = Vec::new();
    let nm = |rng: &mut Rng| rng.usize(pool.len()) as u8;
    let mp = Params { noclone: true, ..*p };
    while seq.len() < len {
        let n = sim.len();
        let room = MGR_MAX_VARS.saturating_sub(n);
        let w = rng.below(100);
        let op = match w {
            0..=9 if room >= 3 => GOp::AddVars(rng.range(0, 3) as u32),
            10..=29 if room >= 4 => GOp::AddNamed((0..rng.range(0, 4)).map(|_| nm(rng)).collect()),
            30..=41 if room >= 6 => {
                let mut side = NameModel::default();
                let mut b = Vec::new();
                for _ in 0..rng.range(0, 5) {
                    let op = rand_xop(rng, &side, pool.len(), &mp, 6);
                    if let XOp::SetName(v, x) = op {
                        // honour norename / noclear
                        let old = &side.names[v as usize];
                        let s = &pool[x as usize];
                        if !old.is_empty() && ((p.noclear && s.is_empty()) || (p.norename && !s.is_empty() && s != old)) {
                            continue;
                        }
                    }
                    apply_model_only(&mut side, op, pool);
                    b.push(op);
                }
                GOp::AddFromMap(b)
            }
            42..=66 if n > 0 => {
                let v = rng.usize(n as usize) as u32;
                let x = nm(rng);
                let old = &sim.names[v as usize];
                let s = &pool[x as usize];
                if !old.is_empty() && ((p.noclear && s.is_empty()) || (p.norename && !s.is_empty() && s != old)) {
                    continue;
                }
                GOp::SetName(v, x)
            }
            67..=78 if n <= D::MAX_BUILD_VARS && handles < 5 => GOp::NewHandle,
            79..=81 if handles > 0 => GOp::DropHandle(rng.usize(handles)),
            82..=89 => GOp::Gc,
            90..=99 if D::REORDER && n >= 2 => GOp::Reorder(rng.perm(n as usize)),
            _ => continue,
        };
        match &op {
            GOp::AddVars(k) => {
                sim.add_unnamed(*k);
            }
            GOp::AddNamed(xs) => {
                let names: Vec<&str> = xs.iter().map(|&i| pool[i as usize].as_str()).collect();
                let _ = sim.add_named(&names);
            }
            GOp::AddFromMap(b) => {
                let mut side = NameModel::default();
                for &o in b {
                    apply_model_only(&mut side, o, pool);
                }
                let _ = sim.add_named(&side.names);
            }
            GOp::SetName(v, x) => {
                let _ = sim.set_name(*v, &pool[*x as usize]);
            }
            GOp::NewHandle => handles += 1,
            GOp::DropHandle(_) => handles -= 1,
            _ => {}
        }
        seq.push(op);
    }
    seq
}

enum NameRes {
    Range(Range<u32>),
    Unit,
    Dup(DuplicateVarName),
}

/// Compare the manager's variable / level / name observables with the model
fn check_mgr<M: Manager>(m: &M, model: &NameModel, order: &[u32], probes: &[String], bad: &mut Bad) -> u64 {
    let mut evals = 4;
    let n = model.len();
    if m.num_vars() != n || m.num_levels() != n {
        bad.push(("num_vars/num_levels", format!("num_vars {} num_levels {} want {n}", m.num_vars(), m.num_levels())));
        return evals;
    }
    if m.num_named_vars() != model.named() {
        bad.push(("num_named_vars", format!("num_named_vars {} but {} variables are named", m.num_named_vars(), model.named())));
    }
    for v in 0..n {
        evals += 2;
        let got = m.var_name(v);
        if got != model.names[v as usize] {
            bad.push(("var_name", format!("var_name({v}) = {} want {}", short(got), short(&model.names[v as usize]))));
            break;
        }
        if !got.is_empty() && m.name_to_var(got) != Some(v) {
            bad.push(("not-inverse", format!("name_to_var(var_name({v}) = {}) = {:?}", short(got), m.name_to_var(got))));
            break;
        }
    }
    for s in probes {
        evals += 1;
        let got = m.name_to_var(s);
        let want = model.lookup(s);
        if got != want {
            let clause = match (got, want) {
                (Some(_), None) if s.is_empty() => "empty-name-found",
                (Some(_), None) => "stale-key",
                (None, Some(_)) => "name-not-found",
                _ => "name_to_var-wrong-var",
            };
            bad.push((clause, format!("name_to_var({}) = {got:?} want {want:?}", short(s))));
            break;
        }
    }
    // var <-> level: mutually inverse permutations, equal to the modelled order
    let mut seen = vec![false; n as usize];
    for v in 0..n {
        evals += 1;
        let l = m.var_to_level(v);
        if l >= n || seen[l as usize] || m.level_to_var(l) != v {
            bad.push(("var-level-maps-not-inverse", format!("var_to_level({v}) = {l}, level_to_var({l}) = {}", if l < n { m.level_to_var(l) as i64 } else { -1 })));
            return evals;
        }
        seen[l as usize] = true;
    }
    let got: Vec<u32> = (0..n).map(|l| m.level_to_var(l)).collect();
    if got != order {
        bad.push(("order", format!("level -> var is {got:?} want {order:?} (new variables go to the bottom, others keep their level)")));
    }
    evals
}

fn do_name_op<M: Manager>(m: &mut M, op: &GOp, pool: &[String], premade: Option<VarNameMap>) -> NameRes {
    match op {
        GOp::AddVars(k) => NameRes::Range(m.add_vars(*k)),
        GOp::AddNamed(xs) => match m.add_named_vars(xs.iter().map(|&i| pool[i as usize].as_str())) {
            Ok(r) => NameRes::Range(r),
            Err(e) => NameRes::Dup(e),
        },
        GOp::AddFromMap(_) => match m.add_named_vars_from_map(premade.unwrap()) {
            Ok(r) => NameRes::Range(r),
            Err(e) => NameRes::Dup(e),
        },
        GOp::SetName(v, x) => match m.set_var_name(*v, pool[*x as usize].as_str()) {
            Ok(()) => NameRes::Unit,
            Err(e) => NameRes::Dup(e),
        },
        _ => unreachable!(),
    }
}

struct MgrRun {
    leaked: u64,
    /// sequences abandoned because set_var_name (on the manager or on an input map) broke the state
    rename_viol: u32,
}

fn run_mgr_seq<D: Dd>(ctx: &mut Ctx, st: &mut Stats, run: &mut MgrRun, rng: &mut Rng, seq: &[GOp], pool: &[String], p: &Params, label: &str) {
    println!("@@{{\"t\":\"case\",\"case\":{}}}", json_str(label));
    if std::env::var_os("VH_TRACE").is_some() {
        eprintln!("[trace] {label}");
    }
    let mut probes = pool.to_vec();
    probes.push("never-used".into());
    let mref = D::new_mref();
    let mut model = NameModel::default();
    let mut order: Vec<u32> = Vec::new();
    let mut hs: Vec<D::H> = Vec::new();
    let mut ever_named = false;
    let mut dead = false;
    for (k, op) in seq.iter().enumerate() {
        let witness = |extra: &str| format!("{} after call #{k} of [{}]{extra}", D::NAME, seq[..=k].iter().map(|o| o.show(pool)).collect::<Vec<_>>().join("; "));
        let mut bad: Bad = Vec::new();
        let mut info = StepInfo::default();
        match op {
            GOp::AddVars(_) | GOp::AddNamed(_) | GOp::AddFromMap(_) | GOp::SetName(..) => {
                // model first
                let pre = model.len();
                let mut premade = None;
                let want: Result<Option<Range<u32>>, MDup> = match op {
                    GOp::AddVars(k) => Ok(Some(model.add_unnamed(*k))),
                    GOp::AddNamed(xs) => {
                        let names: Vec<&str> = xs.iter().map(|&i| pool[i as usize].as_str()).collect();
                        model.add_named(&names).map(Some)
                    }
                    GOp::AddFromMap(b) => {
                        let mut map = VarNameMap::new();
                        let mut side = NameModel::default();
                        let mut ok = true;
                        for &o in b {
                            if apply_x(&mut map, &mut side, o, pool, p.soft, &mut bad).is_none() {
                                ok = false;
                                break;
                            }
                            st.evals += check_map(&map, &side, &probes, &mut bad);
                            if !bad.is_empty() {
                                break;
                            }
                        }
                        let _ = ok;
                        if !bad.is_empty() {
                            // a defect of the map itself (c16_map_* report it with a minimal witness)
                            report(ctx, "mgr", "add_named_vars_from_map:input-map", &bad, &witness(""));
                            if p.soft {
                                run.rename_viol += 1;
                                std::mem::forget(map);
                                dead = true;
                                break;
                            }
                            bad.clear();
                        }
                        premade = Some(map);
                        model.add_named(&side.names).map(Some)
                    }
                    GOp::SetName(v, x) => {
                        let s = pool[*x as usize].as_str();
                        let old = model.names[*v as usize].clone();
                        let r = model.set_name(*v, s).map(|()| None);
                        if r.is_ok() {
                            info.renamed = !old.is_empty() && !s.is_empty() && old != s;
                            info.cleared = !old.is_empty() && s.is_empty();
                        }
                        r
                    }
                    _ => unreachable!(),
                };
                for v in order.len() as u32..model.len() {
                    order.push(v);
                }
                let got = catch(|| mref.with_manager_exclusive(|m| do_name_op(m, op, pool, premade)));
                st.evals += 1;
                match (got, &want) {
                    (Err(msg), _) => {
                        bad.push(("panic", format!("panicked: {msg} ({})", crate::ctx::last_panic_loc())));
                    }
                    (Ok(NameRes::Range(g)), Ok(Some(w))) => {
                        if g != *w {
                            bad.push(("range", format!("returned {g:?} want {w:?}")));
                        }
                    }
                    (Ok(NameRes::Unit), Ok(None)) => {}
                    (Ok(NameRes::Dup(e)), Err(w)) => {
                        info.rejected = true;
                        cmp_dup(&e, w, !matches!(op, GOp::SetName(..)), &mut bad);
                    }
                    (Ok(NameRes::Dup(e)), Ok(_)) => bad.push(("spurious-duplicate", format!("rejected with {e:?} although no name clashes"))),
                    (Ok(_), Err(w)) => bad.push(("duplicate-accepted", format!("accepted although {} is the name of variable {}", short(&w.name), w.present_var))),
                    (Ok(_), Ok(_)) => bad.push(("result", "result of the wrong shape".into())),
                }
                let _ = pre;
            }
            GOp::NewHandle => match D::new_handle(&mref, model.len(), rng) {
                Ok(h) => {
                    hs.push(h);
                    ctx.count("handles_created", 1);
                }
                Err(e) => {
                    // not a C16 clause; reported so that a wrong build is not mistaken for a change
                    ctx.violation(&format!("mgr:{}:build:handle-does-not-denote-built-function", D::NAME), witness(&format!(" => {e}")));
                }
            },
            GOp::DropHandle(i) => {
                hs.remove(*i);
            }
            GOp::Gc => {
                mref.with_manager_shared(|m| {
                    m.gc();
                });
                ctx.count("gcs", 1);
            }
            GOp::Reorder(o) => {
                D::reorder(&mref, o);
                // establishing the order is C08's clause; here only: maps stay inverse, names and
                // functions are untouched. Take the resulting order as the new reference.
                order = mref.with_manager_shared(|m| (0..m.num_levels()).map(|l| m.level_to_var(l)).collect());
                ctx.count("reorderings", 1);
            }
        }
        ever_named |= model.named() > 0;
        st.add(&info);
        // state
        let r = catch(|| mref.with_manager_shared(|m| {
            let mut b: Bad = Vec::new();
            let ev = check_mgr(m, &model, &order, &probes, &mut b);
            (ev, b)
        }));
        match r {
            Ok((ev, b)) => {
                st.evals += ev;
                bad.extend(b);
            }
            Err(msg) => bad.push(("panic-in-query", format!("a query panicked: {msg} ({})", crate::ctx::last_panic_loc()))),
        }
        if !bad.is_empty() {
            report(ctx, "mgr", op.name(), &bad, &witness(""));
            if p.soft {
                if matches!(op, GOp::SetName(..)) {
                    run.rename_viol += 1;
                }
                dead = true;
                break;
            }
        }
        // handles
        for (i, h) in hs.iter().enumerate() {
            match D::check_handle(&mref, h, rng) {
                Ok(ev) => st.evals += ev,
                Err(e) => {
                    ctx.violation(&format!("mgr:{}:handle-changed-function", op.name()), witness(&format!(" => handle #{i}: {e}")));
                    dead = true;
                }
            }
        }
        if dead {
            break;
        }
    }
    st.sequences += 1;
    if ever_named {
        ctx.distinct((D::NAME, label));
    }
    if dead && p.soft {
        // the manager's name map may own freed / shared strings: do not run its destructor
        st.abandoned += 1;
        run.leaked += 1;
        std::mem::forget(hs);
        std::mem::forget(mref);
    } else {
        drop(hs);
        drop(mref);
    }
}

fn mgr_kind<D: Dd>(ctx: &mut Ctx, st: &mut Stats, run: &mut MgrRun, rng: &mut Rng, i: usize, p: &Params) {
    // own stream per sequence: what is generated does not depend on how earlier sequences went
    let rng = &mut rng.fork(i as u64);
    if run.leaked >= 64 {
        ctx.count("sequences_skipped_after_64_leaked_managers", 1);
        return;
    }
    let small = i % 3 != 2;
    let psize = 3 + rng.usize(8);
    let pool: Vec<String> = if small { ALPHA.iter().map(|s| s.to_string()).collect() } else { rand_pool(rng, psize, !cfg!(miri)) };
    let len = if cfg!(miri) { 8 } else if small { rng.range(3, 8) } else { rng.range(8, 40) };
    let seq = gen_mgr_seq::<D>(rng, len, &pool, p);
    let label = format!("c16_mgr {} #{i} [{}]", D::NAME, seq.iter().map(|o| o.show(&pool)).collect::<Vec<_>>().join("; "));
    run_mgr_seq::<D>(ctx, st, run, rng, &seq, &pool, p, &label);
    if i < 3 {
        ctx.sample(|| label.clone());
    }
}

pub fn manager(ctx: &mut Ctx) {
    let mut p = params(ctx);
    let mut rng = ctx.rng(0xC16_3);
    let n = if cfg!(miri) { 2 } else { ctx.by_tier(600, 30000) };
    let mut st = Stats::default();
    let mut run = MgrRun { leaked: 0, rename_viol: 0 };
    // `kinds=bdd+zbdd` restricts the kinds (debugging)
    let kinds: Option<String> = ctx.param.as_deref().and_then(|q| q.split([',', ' ']).find_map(|x| x.strip_prefix("kinds=").map(|v| v.to_string())));
    let on = |k: &str| kinds.as_deref().is_none_or(|ks| ks.split('+').any(|x| x == k));
    for i in 0..n {
        if run.rename_viol >= 8 && !p.norename {
            // soft mode: keep the other clauses observable (every such sequence leaks a manager)
            p.norename = true;
            ctx.count("renames_no_longer_generated_after_8_violations", 1);
        }
        if on("bdd") {
            mgr_kind::<BddD>(ctx, &mut st, &mut run, &mut rng, i, &p);
        }
        if on("bcdd") {
            mgr_kind::<BcddD>(ctx, &mut st, &mut run, &mut rng, i, &p);
        }
        if on("zbdd") {
            mgr_kind::<ZbddD>(ctx, &mut st, &mut run, &mut rng, i, &p);
        }
        #[cfg(not(feature = "pointer"))]
        {
            if on("mtbdd") {
                mgr_kind::<multi::MtbddD>(ctx, &mut st, &mut run, &mut rng, i, &p);
            }
            if on("tdd") {
                mgr_kind::<multi::TddD>(ctx, &mut st, &mut run, &mut rng, i, &p);
            }
        }
    }
    st.flush(ctx);
    if run.leaked > 0 {
        ctx.count("managers_leaked_after_violation", run.leaked);
    }
}
