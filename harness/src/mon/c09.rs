//! C09 — ZBDD set-family operations match set semantics
//!
//! A family over n variables is the same bit vector as a truth table: bit `a` set iff the
//! subset with characteristic vector `a` is a member.

use oxidd::{BooleanFunction, BooleanVecSet, Function, Manager, ManagerRef};

use crate::kinds::*;
use crate::mon::c02::All3;
use crate::rng::all_perms;
use crate::tt::Tt;
use crate::Ctx;

type Z = oxidd::zbdd::ZBDDFunction;

// --- set-level reference definitions (from the BooleanVecSet rustdoc) ---
fn subset0(f: &Tt, v: u32) -> Tt {
    // {s in f | v not in s}
    Tt::from_fn(f.n, |a| (a >> v) & 1 == 0 && f.get(a))
}
fn subset1(f: &Tt, v: u32) -> Tt {
    // {s \ {v} | s in f, v in s}
    Tt::from_fn(f.n, |a| (a >> v) & 1 == 0 && f.get(a | (1 << v)))
}
fn change(f: &Tt, v: u32) -> Tt {
    // {s u {v} | s in f, v not in s} u {s \ {v} | s in f, v in s}
    Tt::from_fn(f.n, |a| f.get(a ^ (1 << v)))
}
fn singleton(n: u32, v: u32) -> Tt {
    Tt::from_fn(n, |a| a == (1usize << v))
}
fn base(n: u32) -> Tt {
    Tt::from_fn(n, |a| a == 0)
}
/// lo u {x u {var} | x in hi}
fn mk_node(var: u32, hi: &Tt, lo: &Tt) -> Tt {
    Tt::from_fn(hi.n, |a| lo.get(a) || ((a >> var) & 1 == 1 && hi.get(a & !(1 << var))))
}
/// variables occurring in some member
fn occurring(f: &Tt) -> Vec<u32> {
    (0..f.n).filter(|&v| !f.and(&Tt::var(f.n, v)).is_zero()).collect()
}

fn run_order(ctx: &mut Ctx, order: &[u32], threads: u32) {
    let n = 3u32;
    let all = All3::<Zbdd>::build(ctx, n, order, threads, 1 << 16, 1 << 10);
    let tt = |b: usize| Tt::from_u64(n, b as u64);
    let label = format!("zbdd order {order:?} threads {threads}");
    let tab = |ctx: &mut Ctx, r: &Z, what: &str| all.table_of(ctx, r, &|| what.to_string());

    all.mref.with_manager_shared(|m| {
        let e = Z::empty(m);
        let b = Z::base(m);
        ctx.check(all.map.get(&e) == Some(&0), "zbdd:empty", || label.clone());
        ctx.check(all.map.get(&b) == Some(&(base(n).as_u64() as u8)), "zbdd:base", || label.clone());
        for v in 0..n {
            let s = Z::singleton(m, v).unwrap();
            let st = interp_tt::<Zbdd>(&s);
            ctx.check(st == singleton(n, v), "zbdd:singleton", || format!("{label}: singleton({v}) = {st}"));
        }
    });

    for a in 0..256usize {
        let (f, ta) = (&all.funcs[a], tt(a));
        for v in 0..n {
            for (name, r, want) in [
                ("subset0", f.subset0(v).unwrap(), subset0(&ta, v)),
                ("subset1", f.subset1(v).unwrap(), subset1(&ta, v)),
                ("change", f.change(v).unwrap(), change(&ta, v)),
            ] {
                let rt = tab(ctx, &r, name);
                ctx.eval();
                if rt != want {
                    ctx.violation(&format!("zbdd:{name}:wrong-family"), format!("{label}: {name}({ta}, {v}) = {rt} want {want}"));
                } else if !want.is_zero() {
                    ctx.distinct((name, a, v, order[0], order[1], threads));
                }
            }
        }
    }
    for a in 0..256usize {
        for b in 0..256usize {
            let (f, g) = (&all.funcs[a], &all.funcs[b]);
            for (name, r, want) in [
                ("union", f.union(g).unwrap(), (a | b) as u8),
                ("intsec", f.intsec(g).unwrap(), (a & b) as u8),
                ("diff", f.diff(g).unwrap(), (a & !b) as u8),
            ] {
                ctx.eval();
                match all.map.get(&r) {
                    Some(&got) if got == want => {
                        if want != 0 {
                            ctx.distinct((name, a, b, order[0], order[1], threads));
                        }
                    }
                    _ => {
                        let rt = tab(ctx, &r, name);
                        if rt.as_u64() as u8 != want {
                            ctx.violation(
                                &format!("zbdd:{name}:wrong-family"),
                                format!("{label}: {name}({}, {}) = {rt} want {}", tt(a), tt(b), tt(want as usize)),
                            );
                        }
                    }
                }
            }
        }
    }
    // make_node(var, hi, lo) for every variable and all (hi, lo) whose variables are below `var`
    let pos = |v: u32| order.iter().position(|&x| x == v).unwrap();
    let mut made = 0u64;
    for var in 0..n {
        let below: Vec<usize> = (0..256usize).filter(|&x| occurring(&tt(x)).iter().all(|&u| pos(u) > pos(var))).collect();
        for &h in &below {
            for &l in &below {
                let want = mk_node(var, &tt(h), &tt(l));
                let r = all.mref.with_manager_shared(|m| {
                    let s = Z::singleton(m, var).unwrap();
                    let hi = all.funcs[h].clone().into_edge(m);
                    let lo = all.funcs[l].clone().into_edge(m);
                    let e = oxidd::zbdd::make_node(m, s.as_edge(m), hi, lo).unwrap();
                    Z::from_edge(m, e)
                });
                let rt = tab(ctx, &r, "make_node");
                ctx.eval();
                made += 1;
                if rt != want {
                    ctx.violation("zbdd:make_node:wrong-family", format!("{label}: make_node({var}, {}, {}) = {rt} want {want}", tt(h), tt(l)));
                } else if h != 0 {
                    ctx.distinct(("mk", var, h, l, order[0], order[1]));
                }
            }
        }
    }
    ctx.count("make_node_calls", made);
    ctx.sample(|| format!("{label}: subset0/subset1/change x 256 x 3 vars; union/intsec/diff x 256^2; make_node x {made} admissible (var,hi,lo)"));
}

pub fn exhaustive(ctx: &mut Ctx) {
    let orders = all_perms(3);
    let mut i = 0;
    for threads in [1u32, 4] {
        for order in &orders {
            let mine = ctx.mine(i);
            i += 1;
            if mine {
                run_order(ctx, order, threads);
                ctx.count("configs", 1);
            }
        }
    }
}

/// Random families over up to 8 variables, with variables added between operations; both the
/// family view and the Boolean view (eval / interp over ALL manager variables) are re-checked.
pub fn random(ctx: &mut Ctx) {
    let mut rng = ctx.rng(0xC09);
    let cases = ctx.by_tier(60, 6000);
    for case in 0..cases {
        let mut n = rng.range(2, 6) as u32;
        let mref = setup::<Zbdd>(1 << 16, 1 << rng.range(2, 10), if rng.chance(1, 3) { 4 } else { 1 }, n);
        // every split depth: 0 (hand-over to the sequential recursor at the root), 1, 2, MAX
        let depth = *rng.pick(&[0u32, 1, 2, u32::MAX]);
        mref.with_manager_shared(|m| {
            use oxidd::{HasWorkers, WorkerPool};
            m.workers().set_split_depth(Some(depth))
        });
        let order = rng.perm(n as usize);
        set_order(&mref, &order);
        let mut fs: Vec<(Z, Tt)> = (0..5)
            .map(|_| {
                let t = Tt::random_biased(n, &mut rng);
                (build_shannon::<Zbdd>(&mref, &t), t)
            })
            .collect();
        for step in 0..40 {
            if n < 8 && rng.chance(1, 10) {
                let k = rng.range(1, 2) as u32;
                mref.with_manager_exclusive(|m| m.add_vars(k));
                n += k;
                for (f, t) in fs.iter_mut() {
                    *t = t.extend_zero(n); // the family is unchanged: new variables occur in no member
                    let it = interp_tt::<Zbdd>(f);
                    let et = eval_tt::<Zbdd>(f);
                    ctx.eval();
                    if it != *t || et != *t {
                        ctx.violation("zbdd:add_vars:views-inconsistent", format!("case {case} step {step}: family {t} interp {it} eval {et}"));
                    }
                }
                ctx.count("add_vars", 1);
                continue;
            }
            let (f, ft) = rng.pick(&fs).clone();
            let (g, gt) = rng.pick(&fs).clone();
            let v = rng.below(n as u64) as u32;
            let (name, r, want) = match rng.below(7) {
                0 => ("union", f.union(&g).unwrap(), ft.or(&gt)),
                1 => ("intsec", f.intsec(&g).unwrap(), ft.and(&gt)),
                2 => ("diff", f.diff(&g).unwrap(), ft.diff(&gt)),
                3 => ("subset0", f.subset0(v).unwrap(), subset0(&ft, v)),
                4 => ("subset1", f.subset1(v).unwrap(), subset1(&ft, v)),
                5 => ("change", f.change(v).unwrap(), change(&ft, v)),
                _ => {
                    // Boolean connective on the same handles: the Boolean view is over all variables
                    ("bool-xor", f.xor(&g).unwrap(), ft.xor(&gt))
                }
            };
            let rt = interp_tt::<Zbdd>(&r);
            ctx.eval();
            if rt != want {
                ctx.violation(&format!("zbdd:random:{name}:wrong-family"), format!("case {case} n={n} split depth {depth} order {:?}: {name}({ft}, {gt}|{v}) = {rt} want {want}", current_order(&mref)));
            } else if !want.is_zero() {
                ctx.distinct((name, &want));
            }
            let et = eval_tt::<Zbdd>(&r);
            ctx.eval();
            if et != rt {
                ctx.violation("zbdd:eval-vs-interp", format!("case {case}: {name}: eval {et} interp {rt}"));
            }
            if fs.len() < 10 {
                fs.push((r, want));
            } else {
                let i = rng.usize(fs.len());
                fs[i] = (r, want);
            }
        }
    }
    ctx.sample(|| "random: 2..8 variables, random order, 1/4 workers with split depth 0/1/2/MAX, 40 steps of union/intsec/diff/subset0/subset1/change/xor with add_vars in between; family view, interp and eval compared".into());
}
