//! C08 — set_var_order establishes the requested order, with minimal swaps, and preserves
//! every function; the diagram stays canonical and usable afterwards.

use oxidd::{BooleanFunction, HasLevel, HasWorkers, Manager, ManagerRef};
use oxidd_core::function::INodeOfFunc;

use crate::hist::*;
use crate::kinds::*;
use crate::rng::{Rng, all_perms};
use crate::tt::{ALL_BOPS, Tt};
use crate::Ctx;

/// number of adjacent swaps between two total orders (level -> var) = inversions
pub fn kendall(a: &[u32], b: &[u32]) -> usize {
    let n = a.len();
    let mut pos_b = vec![0usize; n];
    for (l, &v) in b.iter().enumerate() {
        pos_b[v as usize] = l;
    }
    let mut inv = 0;
    for i in 0..n {
        for j in i + 1..n {
            if pos_b[a[i] as usize] > pos_b[a[j] as usize] {
                inv += 1;
            }
        }
    }
    inv
}

pub fn consistent(order: &[u32], req: &[u32]) -> bool {
    let mut pos = vec![usize::MAX; order.len()];
    for (l, &v) in order.iter().enumerate() {
        pos[v as usize] = l;
    }
    req.windows(2).all(|w| pos[w[0] as usize] < pos[w[1] as usize])
}

/// minimal number of adjacent swaps from `src` to any total order consistent with `req`
/// (brute force, n <= 7)
pub fn min_swaps(src: &[u32], req: &[u32], perms: &[Vec<u32>]) -> usize {
    perms.iter().filter(|p| consistent(p, req)).map(|p| kendall(src, p)).min().unwrap()
}

/// all sequences of distinct variables (partial orders as accepted by set_var_order)
pub fn all_requests(n: usize) -> Vec<Vec<u32>> {
    fn rec(n: usize, cur: &mut Vec<u32>, out: &mut Vec<Vec<u32>>) {
        out.push(cur.clone());
        for v in 0..n as u32 {
            if !cur.contains(&v) {
                cur.push(v);
                rec(n, cur, out);
                cur.pop();
            }
        }
    }
    let mut out = Vec::new();
    rec(n, &mut Vec::new(), &mut out);
    out
}

pub struct Case<'a> {
    pub n: u32,
    pub src: &'a [u32],
    pub req: &'a [u32],
    pub seq: bool,
    pub threads: u32,
    /// tables of the functions alive during the reordering
    pub tables: Vec<Tt>,
    /// additionally built and dropped before (dead nodes in the table)
    pub dead: Vec<Tt>,
    pub gc_before: bool,
    pub perms: &'a [Vec<u32>],
    /// variables no function may depend on (their levels stay empty); the tables are made
    /// independent of them per kind (ZBDD: no member set contains them)
    pub unused: Vec<u32>,
}

pub fn run_case<K: BoolKind>(ctx: &mut Ctx, c: &Case, rng: &mut Rng)
where
    for<'id> MgrOf<'id, K>: HasWorkers,
    for<'x> INodeOfFunc<'x, K::F>: HasLevel,
{
    let label = format!(
        "c08 kind={} n={} src={:?} req={:?} seq={} threads={} live={} dead={} gc_before={}",
        K::NAME, c.n, c.src, c.req, c.seq, c.threads, c.tables.len(), c.dead.len(), c.gc_before
    );
    println!("@@{{\"t\":\"case\",\"case\":{}}}", crate::ctx::json_str(&label));
    if std::env::var_os("VH_TRACE").is_some() {
        eprintln!("[trace] {label}");
    }
    let mut w = World::<K>::new(1 << 14, 1 << 10, c.threads, c.n, label);
    set_order(&w.mref, c.src);
    let strip = |t: &Tt| -> Tt {
        let mut t = t.clone();
        for &v in &c.unused {
            t = t.restrict(&[(v, false)]);
            if K::SEM == Sem::ZeroSup {
                t = t.and(&Tt::var(c.n, v).not());
            }
        }
        t
    };
    let (dead, tables): (Vec<Tt>, Vec<Tt>) = (c.dead.iter().map(&strip).collect(), c.tables.iter().map(&strip).collect());
    for t in &dead {
        let _ = build_shannon::<K>(&w.mref, t);
    }
    for t in &tables {
        let f = if rng.bool() { build_shannon::<K>(&w.mref, t) } else { build_minterms::<K>(&w.mref, t) };
        w.hs.push(Entry { f, t: t.clone() });
    }
    if c.gc_before {
        w.mref.with_manager_shared(|m| m.gc());
    }
    // one model-count cache kept across both reorderings ("subsequent operations behave as on a
    // freshly built diagram": level swaps recycle node slots, the cache must notice)
    let mut count_cache: oxidd::util::SatCountCache<u64, std::collections::hash_map::RandomState> = Default::default();
    count_cache.cache_all = true;
    let mut count_all = |ctx: &mut Ctx, w: &World<K>, when: &str| {
        for e in w.hs.iter() {
            // the handle itself and the functions of its inner nodes down to depth 3 (the root of a
            // surviving handle keeps its node id, so a stale entry would only be met below it)
            let mut frontier: Vec<(K::F, u32)> = vec![(e.f.clone(), 0)];
            while let Some((f, depth)) = frontier.pop() {
                let want = interp_tt::<K>(&f).count_ones();
                let got: u64 = f.sat_count(c.n, &mut count_cache);
                ctx.eval();
                if got != want {
                    ctx.violation(
                        &w.sig("set_var_order:sat_count-with-cache-kept-across-reordering"),
                        w.witness(&format!("{when}: sub-function at depth {depth} of table {}: counted {got}, has {want} models", e.t)),
                    );
                    return;
                }
                if depth < 3 {
                    if let Some((t, e)) = f.cofactors() {
                        frontier.push((t, depth + 1));
                        frontier.push((e, depth + 1));
                    }
                }
            }
        }
    };
    count_all(ctx, &w, "before set_var_order");
    w.trace.push(format!("set_var_order{}({:?})", if c.seq { "_seq" } else { "" }, c.req));
    w.mref.with_manager_exclusive(|m| {
        if c.seq {
            oxidd_reorder::set_var_order_seq(m, c.req)
        } else {
            oxidd_reorder::set_var_order(m, c.req)
        }
    });
    let after = current_order(&w.mref);
    ctx.eval();
    let is_perm = {
        let mut s = after.clone();
        s.sort();
        s == (0..c.n).collect::<Vec<_>>()
    };
    if !is_perm {
        ctx.violation(&w.sig("set_var_order:order-not-a-permutation"), w.witness(&format!("after {after:?}")));
        return;
    }
    if !consistent(&after, c.req) {
        ctx.violation(&w.sig("set_var_order:requested-relative-order"), w.witness(&format!("after {after:?}")));
    }
    if c.n <= 7 {
        ctx.eval();
        let best = min_swaps(c.src, c.req, c.perms);
        let got = kendall(c.src, &after);
        if consistent(&after, c.req) && got != best {
            ctx.violation(
                &w.sig("set_var_order:not-minimal-swaps"),
                w.witness(&format!("after {after:?}: {got} adjacent swaps from source, optimum {best}")),
            );
        }
        if got > 0 {
            ctx.distinct((K::NAME, c.src.to_vec(), c.req.to_vec(), c.seq, c.tables.len(), c.threads));
        }
    }
    // ZBDD: level_swap treats an edge that skips the lower level as "both cofactors are the
    // child", which is wrong for zero-suppressed diagrams (recorded known finding). To keep that
    // one defect from cascading into every later clause, a ZBDD case whose handles changed
    // meaning is reported once under a dedicated signature and not explored further.
    if K::SEM == Sem::ZeroSup {
        let changed: Vec<String> = w
            .hs
            .iter()
            .filter_map(|e| {
                let it = interp_tt::<K>(&e.f);
                (it != e.t).then(|| format!("{}->{}", e.t, it))
            })
            .take(3)
            .collect();
        ctx.eval();
        if !changed.is_empty() {
            ctx.violation(
                &w.sig("set_var_order:handle-denotes-other-family-after-swap"),
                w.witness(&format!("after {after:?}: {}", changed.join(" "))),
            );
            ctx.count("zbdd_cases_cut_short", 1);
            return;
        }
    }
    // functions preserved, structure, ref counts, node counts minimal under the new order
    w.audit(ctx, "after set_var_order");
    count_all(ctx, &w, "after set_var_order");
    // canonical: rebuilding any function yields the identical handle
    let k = w.hs.len();
    for i in 0..k {
        if k > 64 && !rng.chance(64, k as u64) {
            continue;
        }
        let t = w.hs[i].t.clone();
        let f2 = build_shannon::<K>(&w.mref, &t);
        ctx.eval();
        if f2 != w.hs[i].f {
            ctx.violation(
                &w.sig("set_var_order:rebuilt-function-differs-from-surviving-handle"),
                w.witness(&format!("table {t} after {after:?}")),
            );
        }
    }
    // subsequent operations behave as on a fresh diagram
    if k >= 2 {
        for _ in 0..(8.min(k)) {
            let (i, j) = (rng.usize(k), rng.usize(k));
            let op = *rng.pick(&ALL_BOPS);
            w.step(ctx, &Op::Bin(op, i, j));
        }
    }
    w.step(ctx, &Op::Gc);
    // and a further reordering (back to the source order)
    w.step(ctx, &Op::SetOrder(c.src.to_vec(), c.seq));
    ctx.eval();
    let back = current_order(&w.mref);
    if back != c.src {
        ctx.violation(&w.sig("set_var_order:second-reordering-order"), w.witness(&format!("wanted {:?} got {back:?}", c.src)));
    }
    w.audit(ctx, "after second set_var_order");
    count_all(ctx, &w, "after second set_var_order");
    w.teardown(ctx);
    ctx.count("reorder_cases", 1);
}

fn dispatch(ctx: &mut Ctx, kind: usize, c: &Case, rng: &mut Rng) {
    match kind {
        0 => run_case::<Bdd>(ctx, c, rng),
        1 => run_case::<Bcdd>(ctx, c, rng),
        _ => run_case::<Zbdd>(ctx, c, rng),
    }
}

/// n = 3: all 6 source orders x all 16 requests x {set_var_order, _seq} with all 256 functions
/// alive; n = 4: all 24 x 24 (total requests) + partial requests sampled, sampled functions alive.
pub fn exhaustive(ctx: &mut Ctx) {
    let mut rng = ctx.rng(0xC08);
    let kinds: Vec<usize> = ctx.param.as_deref().map(|p| p.chars().map(|c| c.to_digit(10).unwrap() as usize).collect()).unwrap_or(vec![0, 1, 2]);
    let mut idx = 0usize;
    // n = 3
    let perms3 = all_perms(3);
    let reqs3 = all_requests(3);
    let all256: Vec<Tt> = (0..256u64).map(|b| Tt::from_u64(3, b)).collect();
    for &kind in &kinds {
        for src in &perms3 {
            for req in &reqs3 {
                if req.len() < 2 {
                    continue;
                }
                for seq in [false, true] {
                    let mine = ctx.mine(idx);
                    idx += 1;
                    if !mine {
                        continue;
                    }
                    let c = Case { n: 3, src, req, seq, threads: if seq { 1 } else { 2 }, tables: all256.clone(), dead: vec![], gc_before: false, perms: &perms3, unused: vec![] };
                    dispatch(ctx, kind, &c, &mut rng);
                }
            }
        }
    }
    ctx.sample(|| "n=3: source [2,0,1], request [1,2], all 256 functions alive, then 8 ops, gc, reorder back".to_string());
    // n = 4
    let perms4 = all_perms(4);
    let reqs4 = all_requests(4);
    let nfun = ctx.by_tier(40, 200);
    for &kind in &kinds {
        for src in &perms4 {
            for req in &reqs4 {
                if req.len() < 2 {
                    continue;
                }
                // quick: total requests for all sources, partial ones sampled 1/4
                if ctx.quick() && req.len() < 4 && !rng.chance(1, 4) {
                    idx += 1;
                    continue;
                }
                let mine = ctx.mine(idx);
                idx += 1;
                if !mine {
                    continue;
                }
                let tables: Vec<Tt> = (0..nfun).map(|_| Tt::random_biased(4, &mut rng)).collect();
                let dead: Vec<Tt> = (0..10).map(|_| Tt::random(4, &mut rng)).collect();
                let seq = rng.bool();
                let c = Case { n: 4, src, req, seq, threads: if seq { 1 } else { 2 }, tables, dead, gc_before: rng.bool(), perms: &perms4, unused: vec![] };
                dispatch(ctx, kind, &c, &mut rng);
            }
        }
    }
}

/// n = 5..8 random source orders / requests / live sets
pub fn random(ctx: &mut Ctx) {
    let mut rng = ctx.rng(0xC08_2);
    let cases = ctx.by_tier(40, 1500);
    let kinds: Vec<usize> = ctx.param.as_deref().map(|p| p.chars().map(|c| c.to_digit(10).unwrap() as usize).collect()).unwrap_or(vec![0, 1, 2]);
    let perms: Vec<Vec<Vec<u32>>> = (0..=7).map(all_perms).collect();
    for i in 0..cases {
        let n = 5 + (i % 4) as u32;
        let src = rng.perm(n as usize);
        let mut req = rng.perm(n as usize);
        if rng.bool() {
            let k = rng.range(2, n as usize);
            req.truncate(k);
        }
        // every third case: 1..3 variables that no function depends on (empty levels), and a request with
        // exactly as many entries as there are populated levels that names some of the unused variables
        let mut unused: Vec<u32> = Vec::new();
        if i % 3 == 2 {
            let mut vs = rng.perm(n as usize);
            vs.truncate(rng.range(1, 3));
            unused = vs;
            let mut used: Vec<u32> = (0..n).filter(|v| !unused.contains(v)).collect();
            rng.shuffle(&mut used);
            let named_unused = rng.range(1, unused.len().min(n as usize - unused.len() - 1));
            req = unused[..named_unused].to_vec();
            req.extend(used.iter().copied().take(n as usize - unused.len() - named_unused));
            rng.shuffle(&mut req);
            ctx.count("cases_with_empty_levels", 1);
        }
        let nf = rng.range(1, 30);
        let tables: Vec<Tt> = (0..nf).map(|_| Tt::random_biased(n, &mut rng)).collect();
        let dead: Vec<Tt> = (0..rng.range(0, 8)).map(|_| Tt::random(n, &mut rng)).collect();
        let seq = rng.chance(1, 3);
        let empty: Vec<Vec<u32>> = Vec::new();
        let c = Case {
            n,
            src: &src,
            req: &req,
            seq,
            threads: if seq { 1 } else { rng.range(1, 8) as u32 },
            tables,
            dead,
            gc_before: rng.bool(),
            perms: if n <= 7 { &perms[n as usize] } else { &empty },
            unused: unused.clone(),
        };
        for &kind in &kinds {
            dispatch(ctx, kind, &c, &mut rng);
        }
    }
    ctx.sample(|| "random: n in 5..8, random source order, random (partial) request, 1..30 live functions, dead nodes, threads 1..8".to_string());
}

/// Single case given by --param "kind;n;src;req;seq;threads;tables(hex,comma)" (replay/debug)
pub fn single(ctx: &mut Ctx) {
    let p = ctx.param.clone().expect("param");
    let parts: Vec<&str> = p.split(';').collect();
    let kind: usize = parts[0].parse().unwrap();
    let n: u32 = parts[1].parse().unwrap();
    let nums = |s: &str| -> Vec<u32> { s.split(',').filter(|x| !x.is_empty()).map(|x| x.trim().parse().unwrap()).collect() };
    let src = nums(parts[2]);
    let req = nums(parts[3]);
    let seq = parts[4] == "1";
    let threads: u32 = parts[5].parse().unwrap();
    let tables: Vec<Tt> = parts[6].split(',').map(|h| Tt::from_u64(n, u64::from_str_radix(h.trim_start_matches("0x"), 16).unwrap())).collect();
    let perms = all_perms(n as usize);
    let mut rng = ctx.rng(1);
    let c = Case { n, src: &src, req: &req, seq, threads, tables, dead: vec![], gc_before: false, perms: &perms, unused: vec![] };
    dispatch(ctx, kind, &c, &mut rng);
}

/// Large diagram (>= 65536 nodes) on a manager with several workers: `set_var_order` takes the
/// concurrent bubble sort. Oracle: requested order, full structural audit, sampled evaluations
/// against the defining formula, canonicity of the rebuilt function, then a second reordering.
pub fn large(ctx: &mut Ctx) {
    use oxidd::{BooleanFunction, Function};
    type F = oxidd::bdd::BDDFunction;
    let mut rng = ctx.rng(0xC08_1A);
    let k = 18u32; // f = OR_i (x_i & x_{i+k}) over 2k variables: about 2^k nodes under the identity order
    // two more variables that no function depends on: their levels stay empty, and the reversals
    // below move empty levels past populated ones
    let n = 2 * k + 2;
    // 2, 3, 4 or 8 workers: the concurrent paths split their work by the number of workers
    let threads = [4u32, 2, 3, 8][(ctx.shard + ctx.seed as usize) % 4];
    let label = format!("c08large n={n} threads={threads} seed={} shard={}", ctx.seed, ctx.shard);
    println!("@@{{\"t\":\"case\",\"case\":{}}}", crate::ctx::json_str(&label));
    let mref = oxidd::bdd::new_manager(1 << 22, 1 << 16, threads);
    mref.with_manager_exclusive(|m| {
        m.add_vars(n);
    });
    let build = |upto: u32| -> F {
        mref.with_manager_shared(|m| {
            let mut f = F::f(m);
            for i in 0..upto {
                let c = F::var(m, i).unwrap().and(&F::var(m, i + k).unwrap()).unwrap();
                f = f.or(&c).unwrap();
            }
            f
        })
    };
    let partial: Vec<F> = (1..=k).map(build).collect();
    let formula = |upto: u32, a: u64| (0..upto).any(|i| (a >> i) & 1 == 1 && (a >> (i + k)) & 1 == 1);
    let approx = mref.with_manager_shared(|m| m.approx_num_inner_nodes());
    let exact = mref.with_manager_shared(|m| m.num_inner_nodes());
    ctx.count_max("max_large_diagram_nodes", exact as u64);
    if approx < 65536 {
        // set_var_order would take the sequential path: the run says nothing about the concurrent one
        println!("@@{{\"t\":\"note\",\"sig\":\"c08_large\",\"minimized\":\"approx_num_inner_nodes {approx} < 65536\"}}");
        return;
    }
    ctx.count("concurrent_sort_preconditions_met", 1);
    let rounds = ctx.by_tier(8, 24);
    let mut cur: Vec<u32> = (0..n).collect();
    for round in 0..rounds {
        // The concurrent paths (bubble sort over several swap tasks, parallel update of the level
        // numbers) are only taken while the manager reports >= 65536 nodes. The diagram stays
        // large as long as the x-variables (0..k) and the y-variables (k..2k) each stay together,
        // so most requests permute levels inside one block or rotate / reverse the whole order.
        // If a request has shrunk the diagram, the next round restores the initial order.
        let approx_before = mref.with_manager_shared(|m| m.approx_num_inner_nodes());
        let restore = approx_before < 65536;
        let kind = if restore { 99 } else if round == 1 { 3 } else { rng.below(8) };
        // position of the block a stretch is taken from: where variable 0 (x-block) or k (y-block) is now
        let block_start = |cur: &[u32], first: u32| cur.iter().position(|&v| v == first).unwrap().min(cur.len() - k as usize) as u32;
        let (lo, wlen): (u32, u32) = match kind {
            99 => (0, n),
            0 | 1 => (rng.range((k - 6) as usize, (k + 1) as usize) as u32, 6), // window across the block border
            2 => {
                // three neighbouring levels inside a block
                let b = block_start(&cur, if rng.bool() { 0 } else { k });
                (b + rng.range(0, (k - 3) as usize) as u32, 3)
            }
            3 => (0, n),
            4 | 5 => {
                // a stretch of odd or even length inside one block
                let b = block_start(&cur, if rng.bool() { 0 } else { k });
                let wlen = rng.range(5, k as usize) as u32;
                (b + rng.range(0, (k - wlen) as usize) as u32, wlen)
            }
            6 => {
                // all but one or two levels
                let wlen = n - rng.range(1, 2) as u32;
                (rng.range(0, (n - wlen) as usize) as u32, wlen)
            }
            _ => {
                let wlen = rng.range(13, n as usize) as u32;
                (rng.range(0, (n - wlen) as usize) as u32, wlen)
            }
        };
        let mut window: Vec<u32> = cur[lo as usize..(lo + wlen) as usize].to_vec();
        match kind {
            99 => {
                window = (0..n).collect();
                ctx.count("large_restores", 1);
            }
            0 | 1 => {
                let before = window.clone();
                while window == before {
                    rng.shuffle(&mut window);
                }
            }
            3 => {
                window.reverse();
                ctx.count("large_reversals", 1);
            }
            _ => {
                if rng.chance(2, 3) {
                    let by = rng.range(1, window.len() - 1);
                    window.rotate_left(by);
                    ctx.count("large_rotations", 1);
                } else {
                    window.reverse();
                    ctx.count("large_reversals", 1);
                }
            }
        }
        let req = window.clone();
        let approx_now = approx_before;
        if approx_now >= 65536 {
            ctx.count("reorderings_taking_the_concurrent_path", 1);
        }
        mref.with_manager_exclusive(|m| oxidd_reorder::set_var_order(m, &req));
        let after = current_order(&mref);
        let moved = cur.iter().zip(&after).filter(|(a, b)| a != b).count();
        if moved % 2 == 1 && approx_now >= 65536 {
            ctx.count("concurrent_reorderings_moving_an_odd_number_of_levels", 1);
        }
        if std::env::var_os("VH_TRACE").is_some() {
            eprintln!("[trace] {label} round {round}: approx {approx_now} moved levels {moved} request {req:?}");
        }
        ctx.eval();
        if !consistent(&after, &req) {
            ctx.violation("bdd:large:set_var_order:requested-relative-order", format!("{label} round {round}: request {req:?} after {after:?}"));
        }
        // unnamed variables must not move when only a window is permuted (minimal swaps)
        let mut expect = cur.clone();
        expect[lo as usize..(lo + wlen) as usize].copy_from_slice(&req);
        ctx.eval();
        if after != expect {
            ctx.violation("bdd:large:set_var_order:not-minimal-swaps", format!("{label} round {round}: expected {expect:?} got {after:?}"));
        }
        cur = after;
        // structure
        let s = mref.with_manager_exclusive(|m| crate::audit::structural(&*m, crate::audit::Rule::Bdd, &|_| false));
        ctx.evals(s.nodes as u64);
        ctx.count("nodes_audited", s.nodes as u64);
        for (clause, detail) in s.errs.iter().take(5) {
            ctx.violation(&format!("bdd:large:structure:{clause}"), format!("{label} round {round}: {detail}"));
        }
        // semantics on sampled assignments (eval and independent interpretation)
        for (idx, f) in partial.iter().enumerate() {
            if idx % 4 != 0 && idx + 1 != partial.len() {
                continue;
            }
            let upto = idx as u32 + 1;
            for _ in 0..400 {
                let a = rng.next() & ((1u64 << n) - 1);
                let want = formula(upto, a);
                let got = f.eval((0..n).map(|v| (v, (a >> v) & 1 == 1)));
                let it = f.with_manager_shared(|m, e| interp_edge::<Bdd>(m, e, a as usize));
                ctx.eval();
                if got != want || it != want {
                    ctx.violation("bdd:large:after set_var_order:handle-changed-function", format!("{label} round {round}: partial {upto} assignment {a:#x}: eval {got} interp {it} want {want}"));
                    break;
                }
            }
        }
        // canonicity: rebuilding yields the identical handles
        for upto in [1u32, k / 2, k] {
            let g = build(upto);
            ctx.eval();
            if g != partial[upto as usize - 1] {
                ctx.violation("bdd:large:set_var_order:rebuilt-function-differs-from-surviving-handle", format!("{label} round {round}: partial {upto}"));
            }
        }
        ctx.count("large_reorderings", 1);
        ctx.distinct(("large", ctx.shard, round, req));
    }
    drop(partial);
    mref.with_manager_shared(|m| m.gc());
    let left = mref.with_manager_shared(|m| m.num_inner_nodes());
    ctx.check(left == 0, "bdd:large:gc:nodes-left-after-dropping-everything", || format!("{label}: {left}"));
    ctx.sample(|| format!("{label}: f = OR_i(x_i & x_(i+18)) over 36 of 38 variables (2 unused: empty levels; {exact} nodes), {rounds} x set_var_order on {threads} workers, alternating a shuffled window of 6 middle variables and reversals of the whole order and reversals / rotations of 13..38 consecutive levels"));
}
