//! C07 — concurrent and parallel execution is equivalent to sequential execution.
//!
//! Layer 2 (this file, `sched_*`): cooperative scheduler on the yield-point hooks; layer 3
//! (`stress`): free-running threads with injected delays on bigger diagrams; layer 1 is the
//! `miri` monitor (tiny free-running scripts, run by the driver under Miri with many seeds).
//! Oracle in all layers: every operation's result equals the truth-table model (a sequential
//! execution returns the canonical handle of that table), at quiescence handles of all threads
//! are pairwise canonical, the structural and reference-count audits hold, gc is exact, no
//! deadlock, no abort.

use std::sync::Arc;

use oxidd::{HasLevel, HasWorkers, Manager, ManagerRef};
use oxidd_core::function::INodeOfFunc;

use crate::hist::*;
use crate::kinds::*;
use crate::rng::Rng;
use crate::sched::{self, Sched, Strategy};
use crate::tt::{ALL_BOPS, ALL_QUANTS, Tt};
use crate::Ctx;

#[derive(Clone, Debug)]
pub struct Scenario {
    pub n: u32,
    pub base: Vec<Tt>,
    pub scripts: Vec<Vec<Op>>,
    pub cache: usize,
    pub workers: u32,
    pub nodes: usize,
    pub oom_ok: bool,
}

fn gen_script(rng: &mut Rng, n: u32, len: usize, nbase: usize, quant: bool) -> Vec<Op> {
    let mut ops = Vec::new();
    let mut live = nbase;
    for _ in 0..len {
        let h = |rng: &mut Rng| rng.usize(live.max(1));
        let op = match rng.below(20) {
            0..=7 => Op::Bin(*rng.pick(&ALL_BOPS), h(rng), h(rng)),
            8..=9 => Op::Ite(h(rng), h(rng), h(rng)),
            10 => Op::Not(h(rng)),
            11..=12 if quant => Op::Quant(*rng.pick(&ALL_QUANTS), h(rng), (rng.next() as u32) & ((1 << n) - 1)),
            13 if quant => Op::ApplyQuant(*rng.pick(&ALL_QUANTS), *rng.pick(&ALL_BOPS), h(rng), h(rng), (rng.next() as u32) & ((1 << n) - 1)),
            14..=15 => Op::Clone(h(rng)),
            16..=17 if live > 1 => Op::Drop(h(rng)),
            18 => Op::Gc,
            _ => Op::Bin(*rng.pick(&ALL_BOPS), h(rng), h(rng)),
        };
        match op {
            Op::Drop(_) => live -= 1,
            Op::Gc => {}
            _ => live += 1,
        }
        ops.push(op);
    }
    ops
}

pub fn gen_scenario(rng: &mut Rng, threads: usize, len: usize, quant: bool, n: u32) -> Scenario {
    let nbase = 3;
    let base: Vec<Tt> = (0..nbase).map(|_| Tt::random_biased(n, rng)).collect();
    let scripts = (0..threads).map(|_| gen_script(rng, n, len, nbase, quant)).collect();
    Scenario { n, base, scripts, cache: 1 << rng.range(0, 8), workers: 1, nodes: 1 << 14, oom_ok: false }
}

/// Run the scenario once. `strategy`: None = free running. Returns the scheduler outcome.
fn run_scenario<K: BoolKind>(ctx: &mut Ctx, sc: &Scenario, strategy: Option<Strategy>, label: &str) -> Option<sched::Outcome>
where
    for<'id> MgrOf<'id, K>: HasWorkers,
    for<'x> INodeOfFunc<'x, K::F>: HasLevel,
    K::F: Send + Sync,
    MRefOf<K>: Send + Sync,
{
    let nodes = sc.nodes;
    let mut main = World::<K>::new(nodes, sc.cache, sc.workers, sc.n, label.to_string());
    main.oom_ok = sc.oom_ok;
    for t in &sc.base {
        match try_build_shannon::<K>(&main.mref, t) {
            Ok(f) => main.hs.push(Entry { f, t: t.clone() }),
            Err(_) => {
                // the (deliberately small) store cannot even hold the operands: nothing to observe
                ctx.count("stress_scenarios_skipped_operands_do_not_fit", 1);
                return None;
            }
        }
    }
    let nthreads = sc.scripts.len();
    let sched: Option<Arc<Box<Sched>>> = strategy.map(|s| Arc::new(Sched::new(nthreads, s)));
    let body = || {
        let mut handles = Vec::new();
        for (tid, script) in sc.scripts.iter().enumerate() {
            let mref = main.mref.clone();
            let base: Vec<(K::F, Tt)> = main.hs.iter().map(|e| (e.f.clone(), e.t.clone())).collect();
            let script = script.clone();
            let mut tctx = ctx.child();
            let sched = sched.clone();
            let lbl = format!("{label} thread={tid}");
            let n = sc.n;
            let oom_ok = sc.oom_ok;
            handles.push(std::thread::spawn(move || {
                let mut w = World::<K>::attach(mref, n, nodes, lbl);
                w.oom_ok = oom_ok;
                for (f, t) in base {
                    w.hs.push(Entry { f, t });
                }
                if let Some(s) = &sched {
                    s.enter(tid);
                }
                for op in &script {
                    match op {
                        Op::Gc => {
                            w.trace.push("Gc".into());
                            w.mref.with_manager_shared(|m| m.gc());
                        }
                        _ => w.step(&mut tctx, op),
                    }
                }
                if let Some(s) = &sched {
                    s.leave(tid);
                }
                let hs: Vec<(K::F, Tt)> = w.hs.drain(..).map(|e| (e.f, e.t)).collect();
                (hs, tctx)
            }));
        }
        handles.into_iter().map(|h| h.join()).collect::<Vec<_>>()
    };
    let results = match &sched {
        Some(s) => sched::with_scheduler(s, body),
        None => body(),
    };
    let outcome = sched.as_ref().map(|s| s.outcome());
    if let Some(o) = &outcome {
        if let Some(d) = &o.deadlock {
            ctx.violation(&format!("{}:deadlock-at-yield-points", K::NAME), format!("{label}: {d}; decisions {:?}", o.decision_log));
            // threads may be stuck; the process cannot continue safely
            ctx.finish();
            std::process::exit(0);
        }
    }
    // quiescent: merge all handles and audit
    for r in results {
        match r {
            Ok((hs, tctx)) => {
                ctx.absorb(tctx);
                for (f, t) in hs {
                    // canonicity across threads: admit() compares with all handles merged so far
                    main.admit(ctx, &Op::Clone(0), f, t);
                }
            }
            Err(_) => {
                ctx.violation(&format!("{}:thread-panicked", K::NAME), format!("{label}: at {}", crate::ctx::last_panic_loc()));
            }
        }
    }
    main.audit(ctx, "after concurrent phase");
    main.gc(ctx);
    main.teardown(ctx);
    outcome
}

fn sched_random_kind<K: BoolKind>(ctx: &mut Ctx, rng: &mut Rng, scenarios: usize, schedules: usize)
where
    for<'id> MgrOf<'id, K>: HasWorkers,
    for<'x> INodeOfFunc<'x, K::F>: HasLevel,
    K::F: Send + Sync,
    MRefOf<K>: Send + Sync,
{
    for s in 0..scenarios {
        let threads = rng.range(2, 4);
        let (len, nv) = (rng.range(3, 8), rng.range(3, 5) as u32);
        let sc = gen_scenario(rng, threads, len, K::HAS_QUANT, nv);
        let label = format!("c07sched kind={} scenario={s} seed={} shard={}", K::NAME, ctx.seed, ctx.shard);
        println!("@@{{\"t\":\"case\",\"case\":{}}}", crate::ctx::json_str(&label));
        for k in 0..schedules {
            let strat = if k % 3 == 2 {
                Strategy::Pct { seed: rng.next(), depth: 1 + (k % 4) as u32, est_len: 4000 }
            } else {
                Strategy::Random { seed: rng.next(), inv_p: [2, 4, 16, 64][k % 4] }
            };
            if let Some(o) = run_scenario::<K>(ctx, &sc, Some(strat), &label) {
                ctx.distinct((K::NAME, o.signature));
                ctx.count("schedules", 1);
                ctx.count("yield_events", o.events);
                ctx.count("context_switches", o.switches);
            }
        }
        ctx.sample(|| format!("{label}: {} threads, scripts {:?}", threads, sc.scripts));
    }
}

/// seeded random schedules at the instrumented yield points
pub fn sched_random(ctx: &mut Ctx) {
    let mut rng = ctx.rng(0xC07);
    let scenarios = ctx.by_tier(8, 150);
    let schedules = ctx.by_tier(24, 200);
    sched_random_kind::<Bdd>(ctx, &mut rng, scenarios, schedules);
    sched_random_kind::<Bcdd>(ctx, &mut rng, scenarios, schedules);
    sched_random_kind::<Zbdd>(ctx, &mut rng, scenarios, schedules);
}

/// systematic enumeration (depth-first over decision points) with at most `bound` preemptions
fn sched_dfs_kind<K: BoolKind>(ctx: &mut Ctx, rng: &mut Rng, scenarios: usize, bound: u32, max_schedules: usize)
where
    for<'id> MgrOf<'id, K>: HasWorkers,
    for<'x> INodeOfFunc<'x, K::F>: HasLevel,
    K::F: Send + Sync,
    MRefOf<K>: Send + Sync,
{
    for s in 0..scenarios {
        let len = rng.range(1, 2);
        let sc = gen_scenario(rng, 2, len, K::HAS_QUANT, 3);
        let label = format!("c07dfs kind={} scenario={s} seed={} shard={}", K::NAME, ctx.seed, ctx.shard);
        println!("@@{{\"t\":\"case\",\"case\":{}}}", crate::ctx::json_str(&label));
        let mut prefix: Vec<u32> = Vec::new();
        let mut explored = 0usize;
        let mut complete = false;
        loop {
            let strat = Strategy::Prescribed { decisions: prefix.clone(), preemptions: bound };
            let Some(o) = run_scenario::<K>(ctx, &sc, Some(strat), &label) else { break };
            explored += 1;
            ctx.distinct((K::NAME, "dfs", o.signature));
            ctx.count("schedules", 1);
            ctx.count("yield_events", o.events);
            ctx.count_max("max_decision_points", o.decision_log.len() as u64);
            // next schedule: last decision that can be advanced within the preemption bound
            let log = &o.decision_log;
            let mut next: Option<Vec<u32>> = None;
            let mut i = log.len();
            while i > 0 {
                i -= 1;
                let (nc, ch, free) = log[i];
                if ch + 1 < nc {
                    // preemptions used by the prefix up to i (free decisions with choice != 0)
                    let used: u32 = log[..i].iter().filter(|(_, c, f)| *f && *c != 0).count() as u32;
                    let cost = if free { 1 } else { 0 };
                    if used + cost <= bound {
                        let mut p: Vec<u32> = log[..i].iter().map(|d| d.1).collect();
                        p.push(ch + 1);
                        next = Some(p);
                        break;
                    }
                }
            }
            match next {
                Some(p) if explored < max_schedules => prefix = p,
                Some(_) => break,
                None => {
                    complete = true;
                    break;
                }
            }
        }
        if complete {
            ctx.count("scenarios_enumerated_completely", 1);
        } else {
            ctx.count("scenarios_cut_at_budget", 1);
        }
        ctx.sample(|| format!("{label}: 2 threads, scripts {:?}: {explored} schedules with <= {bound} preemptions, complete={complete}", sc.scripts));
    }
}

pub fn sched_dfs(ctx: &mut Ctx) {
    let mut rng = ctx.rng(0xC07_D);
    let scenarios = ctx.by_tier(2, 12);
    let budget = ctx.by_tier(3000, 40_000);
    let bound = ctx.by_tier(1, 2);
    match ctx.shard % 3 {
        0 => sched_dfs_kind::<Bdd>(ctx, &mut rng, scenarios, bound, budget),
        1 => sched_dfs_kind::<Bcdd>(ctx, &mut rng, scenarios, bound, budget),
        _ => sched_dfs_kind::<Zbdd>(ctx, &mut rng, scenarios, bound, budget),
    }
}

/// free-running: no scheduler; delays injected at the yield points; managers with several
/// workers and maximal split depth; larger diagrams
fn stress_kind<K: BoolKind>(ctx: &mut Ctx, rng: &mut Rng, rounds: usize, big: bool)
where
    for<'id> MgrOf<'id, K>: HasWorkers,
    for<'x> INodeOfFunc<'x, K::F>: HasLevel,
    K::F: Send + Sync,
    MRefOf<K>: Send + Sync,
{
    for r in 0..rounds {
        let n = if big { rng.range(10, 13) as u32 } else { rng.range(4, 7) as u32 };
        let threads = rng.range(2, 4);
        let len = if big { rng.range(4, 8) } else { rng.range(6, 20) };
        let mut sc = gen_scenario(rng, threads, len, K::HAS_QUANT, n);
        sc.workers = *rng.pick(&[1u32, 2, 4, 8]);
        sc.cache = 1 << rng.range(2, 14);
        sc.nodes = if big { 1 << 21 } else { 1 << 16 };
        if !big && r % 3 == 2 {
            // small store: the high-water mark is reached, OxiDD's background collector runs alongside
            // (repeatedly), operations may fail with OutOfMemory
            sc.nodes = rng.range(150, 600);
            sc.oom_ok = true;
            ctx.count("stress_rounds_with_background_gc_capacity", 1);
        }
        let label = format!("c07stress kind={} round={r} n={n} workers={} seed={} shard={}", K::NAME, sc.workers, ctx.seed, ctx.shard);
        println!("@@{{\"t\":\"case\",\"case\":{}}}", crate::ctx::json_str(&label));
        sched::delay::install(rng.next(), *rng.pick(&[4u64, 16, 64, 256]));
        run_scenario::<K>(ctx, &sc, None, &label);
        sched::delay::uninstall();
        ctx.count("stress_rounds", 1);
        ctx.distinct((K::NAME, sched::delay::SIGNATURE.load(std::sync::atomic::Ordering::Relaxed), r));
    }
    ctx.count_max("max_yield_events_total", sched::delay::EVENTS.load(std::sync::atomic::Ordering::Relaxed));
    ctx.count_max("max_delays_injected_total", sched::delay::DELAYS.load(std::sync::atomic::Ordering::Relaxed));
}

pub fn stress(ctx: &mut Ctx) {
    let mut rng = ctx.rng(0xC07_5);
    let rounds = ctx.by_tier(12, 300);
    stress_kind::<Bdd>(ctx, &mut rng, rounds, false);
    stress_kind::<Bcdd>(ctx, &mut rng, rounds, false);
    stress_kind::<Zbdd>(ctx, &mut rng, rounds, false);
    let big = ctx.by_tier(2, 10);
    stress_kind::<Bdd>(ctx, &mut rng, big, true);
    stress_kind::<Bcdd>(ctx, &mut rng, big, true);
    stress_kind::<Zbdd>(ctx, &mut rng, big, true);
    ctx.sample(|| "free-running: 2..4 application threads x scripts of 4..20 ops on one manager with 1..8 workers (split depth MAX), 4..13 variables, delays injected at yield points with p in {1/4..1/256}".into());
}

/// tiny free-running scenario for Miri / sanitizers (one scenario per shard = per Miri seed)
pub fn tiny(ctx: &mut Ctx) {
    let mut rng = ctx.rng(0xC07_1);
    let kind = ctx.shard % 3;
    let label = format!("c07tiny kind={kind} seed={} shard={}", ctx.seed, ctx.shard);
    println!("@@{{\"t\":\"case\",\"case\":{}}}", crate::ctx::json_str(&label));
    let len = if cfg!(miri) { 2 } else { 6 };
    let rounds = if cfg!(miri) { 1 } else { 20 };
    for _ in 0..rounds {
        match kind {
            0 => {
                let mut sc = gen_scenario(&mut rng, 2, len, true, 3);
                sc.workers = 2;
                sc.nodes = if cfg!(miri) { 96 } else { 1 << 12 };
                sc.cache = 16;
                run_scenario::<Bdd>(ctx, &sc, None, &label);
            }
            1 => {
                let mut sc = gen_scenario(&mut rng, 2, len, true, 3);
                sc.workers = 2;
                sc.nodes = if cfg!(miri) { 96 } else { 1 << 12 };
                sc.cache = 16;
                run_scenario::<Bcdd>(ctx, &sc, None, &label);
            }
            _ => {
                let mut sc = gen_scenario(&mut rng, 2, len, false, 3);
                sc.workers = 2;
                sc.nodes = if cfg!(miri) { 96 } else { 1 << 12 };
                sc.cache = 16;
                run_scenario::<Zbdd>(ctx, &sc, None, &label);
            }
        }
        ctx.count("tiny_scenarios", 1);
    }
    ctx.distinct(("tiny", ctx.shard, ctx.seed));
    ctx.distinct(("tiny-kind", kind));
}
