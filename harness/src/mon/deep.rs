//! Deep diagrams on managers with the AUTOMATIC split depth (C02 / C04 / C09)
//!
//! Every other monitor either uses one worker or forces the split depth to a fixed value, so
//! that the parallel recursion is exercised on small diagrams. A user, however, gets the
//! automatic depth `ilog2(4096 * workers)` (13 for 2 workers, 14 for 4, 15 for 8): the parallel
//! recursor counts down while descending and hands over to the sequential recursor in the
//! middle of an operation. That hand-over (arguments passed on, results of the two halves paired
//! up again) is only reached by operands with at least that many levels along one path. The
//! cases here have `depth .. depth + 2` variables, random dense operands and a random variable
//! order; the oracle is the truth-table model through the independent interpreter.

use oxidd::{BooleanFunction, HasLevel, HasWorkers, Manager, ManagerRef, Subst, WorkerPool};
use oxidd_core::function::INodeOfFunc;

use crate::kinds::*;
use crate::tt::{Tt, ALL_BOPS, ALL_QUANTS};
use crate::Ctx;

#[derive(Clone, Copy, PartialEq, Eq)]
enum Mode {
    Connectives,
    Quant,
    Sets,
}

/// Shannon expansion along the variable numbers without copying tables (2^n leaves)
fn build_fast<K: BoolKind>(mref: &MRefOf<K>, t: &Tt) -> K::F {
    fn rec<K: BoolKind>(m: &MgrOf<'_, K>, t: &Tt, v: u32, a: usize) -> K::F {
        if v == t.n {
            return if t.get(a) { K::F::t(m) } else { K::F::f(m) };
        }
        let hi = rec::<K>(m, t, v + 1, a | (1 << v));
        let lo = rec::<K>(m, t, v + 1, a);
        if hi == lo {
            return hi;
        }
        K::F::var(m, v).unwrap().ite(&hi, &lo).unwrap()
    }
    mref.with_manager_shared(|m| rec::<K>(m, t, 0, 0))
}

fn deep_kind<K: BoolKind>(ctx: &mut Ctx, rng: &mut crate::rng::Rng, cases: usize, mode: Mode)
where
    for<'id> MgrOf<'id, K>: HasWorkers,
    for<'x> INodeOfFunc<'x, K::F>: HasLevel,
{
    let k = K::NAME;
    for case in 0..cases {
        let _ = case;
        let threads = *rng.pick(&[2u32, 2, 3, 4, 8]);
        let extra = rng.range(0, 2) as u32;
        let mut rng = crate::rng::Rng::new(rng.next());
        let mref = K::new_manager(1 << 22, 1 << rng.range(10, 16), threads);
        let depth = mref.with_manager_shared(|m| m.workers().split_depth());
        let n = (depth + extra).min(16);
        mref.with_manager_exclusive(|m| m.add_vars(n));
        let order = rng.perm(n as usize);
        set_order(&mref, &order);
        let label = format!("deep {k} n={n} workers={threads} split depth {depth} (automatic) order {order:?}");
        println!("@@{{\"t\":\"case\",\"case\":{}}}", crate::ctx::json_str(&label));
        ctx.count("deep_cases", 1);
        if n >= depth {
            ctx.count("cases_with_at_least_split_depth_levels", 1);
        }
        let fs: Vec<(K::F, Tt)> = (0..4)
            .map(|i| {
                let t = if i % 2 == 0 { Tt::random(n, &mut rng) } else { Tt::random_biased(n, &mut rng) };
                (build_fast::<K>(&mref, &t), t)
            })
            .collect();
        for (f, t) in &fs {
            ctx.eval();
            let it = interp_tt::<K>(f);
            if it != *t {
                ctx.violation(&format!("{k}:deep:build:wrong-table"), format!("{label}: {} of {} assignments differ", it.xor(t).count_ones(), t.size()));
            }
        }
        let t_case = std::time::Instant::now();
        let steps = 12;
        for _ in 0..steps {
            let (f, ft) = rng.pick(&fs);
            let (g, gt) = rng.pick(&fs);
            let (h, ht) = rng.pick(&fs);
            let mask = (rng.next() & rng.next()) as u32 & ((1u32 << n) - 1);
            let vars: Vec<u32> = (0..n).filter(|v| (mask >> v) & 1 == 1).collect();
            let cube = |lits: &[(u32, bool)]| {
                mref.with_manager_shared(|m| {
                    let mut c = K::F::t(m);
                    for &(v, b) in lits {
                        let l = if b { K::F::var(m, v).unwrap() } else { K::F::not_var(m, v).unwrap() };
                        c = c.and(&l).unwrap();
                    }
                    c
                })
            };
            let (r, want, what): (oxidd::util::AllocResult<K::F>, Tt, String) = match mode {
                Mode::Connectives => {
                    if rng.chance(1, 4) {
                        (f.ite(g, h), ft.ite(gt, ht), "ite".to_string())
                    } else if rng.chance(1, 10) {
                        (f.not(), ft.not(), "not".to_string())
                    } else {
                        let op = *rng.pick(&ALL_BOPS);
                        (Ok(crate::mon::c02::apply_bop(op, f, g)), ft.bop(op, gt), op.name().to_string())
                    }
                }
                Mode::Quant => match rng.below(4) {
                    0 => {
                        let q = *rng.pick(&ALL_QUANTS);
                        let vs = cube(&vars.iter().map(|&v| (v, true)).collect::<Vec<_>>());
                        (K::quant(q, f, &vs), ft.quant(q, &vars), format!("quant {q:?} {vars:?}"))
                    }
                    1 => {
                        let q = *rng.pick(&ALL_QUANTS);
                        let op = *rng.pick(&ALL_BOPS);
                        let vs = cube(&vars.iter().map(|&v| (v, true)).collect::<Vec<_>>());
                        (K::apply_quant(q, op, f, g, &vs), ft.bop(op, gt).quant(q, &vars), format!("apply_quant {q:?} {} {vars:?}", op.name()))
                    }
                    2 => {
                        let mut svars = rng.perm(n as usize);
                        svars.truncate(rng.range(1, 3));
                        let mut model: Vec<Option<Tt>> = vec![None; n as usize];
                        let mut reps = Vec::new();
                        for &v in &svars {
                            // small replacement functions (a literal or the conjunction of two): with
                            // dense 15-variable replacements one composition takes tens of seconds
                            let (a, b) = (rng.below(n as u64) as u32, rng.below(n as u64) as u32);
                            let (pa, pb) = (rng.chance(1, 2), rng.chance(1, 2));
                            let lits = if a == b { vec![(a, pa)] } else { vec![(a, pa), (b, pb)] };
                            reps.push(cube(&lits));
                            model[v as usize] = Some(Tt::cube(n, &lits));
                        }
                        let s = Subst::new(svars.clone(), reps);
                        (K::substitute(f, &s), ft.compose(&model), format!("substitute {svars:?}"))
                    }
                    _ => {
                        let vals = rng.next() as u32 & mask;
                        let lits: Vec<(u32, bool)> = vars.iter().map(|&v| (v, (vals >> v) & 1 == 1)).collect();
                        let c = cube(&lits);
                        (f.restrict(&c), ft.restrict(&lits), format!("restrict {lits:?}"))
                    }
                },
                Mode::Sets => {
                    let v = rng.below(n as u64) as u32;
                    let bit = 1usize << v;
                    match rng.below(6) as u32 {
                        0 => (K::zset(0, f, g, v), Tt::from_fn(n, |a| a & bit == 0 && ft.get(a)), format!("subset0 {v}")),
                        1 => (K::zset(1, f, g, v), Tt::from_fn(n, |a| a & bit == 0 && ft.get(a | bit)), format!("subset1 {v}")),
                        2 => (K::zset(2, f, g, v), Tt::from_fn(n, |a| ft.get(a ^ bit)), format!("change {v}")),
                        3 => (K::zset(3, f, g, v), ft.or(gt), "union".to_string()),
                        4 => (K::zset(4, f, g, v), ft.and(gt), "intsec".to_string()),
                        _ => (K::zset(5, f, g, v), ft.diff(gt), "diff".to_string()),
                    }
                }
            };
            if std::env::var("VH_DEEP_TIMING").is_ok() {
                eprintln!("{what}: op done at {:?}", t_case.elapsed());
            }
            let Ok(r) = r else {
                // dense operands over 13..16 variables can exceed the node store: no verdict for this step
                ctx.count("steps_skipped_out_of_memory", 1);
                continue;
            };
            let rt = interp_tt::<K>(&r);
            ctx.eval();
            let opname = what.split(' ').next().unwrap().to_string();
            if rt != want {
                ctx.violation(
                    &format!("{k}:deep:{opname}:wrong-table"),
                    format!("{label}: {what}: {} of {} assignments differ", rt.xor(&want).count_ones(), want.size()),
                );
            } else if !want.is_const() {
                ctx.distinct((k, &opname, crate::rng::hash64(&want.w.iter().flat_map(|w| w.to_le_bytes()).collect::<Vec<u8>>()), threads));
            }
            // eval on a sample of assignments
            for _ in 0..64 {
                let a = rng.below(1 << n) as usize;
                ctx.eval();
                if r.eval((0..n).map(|v| (v, (a >> v) & 1 == 1))) != want.get(a) {
                    ctx.violation(&format!("{k}:deep:{opname}:eval-wrong"), format!("{label}: {what}: assignment {a:#b}"));
                    break;
                }
            }
        }
        // structure + exact collection at the quiescent end
        let s = mref.with_manager_exclusive(|m| crate::audit::structural(&*m, K::rule(), &|_| false));
        for (clause, detail) in s.errs.iter().take(3) {
            ctx.violation(&format!("{k}:deep:structure:{clause}"), format!("{label}: {detail}"));
        }
        drop(fs);
        let left = mref.with_manager_shared(|m| {
            m.gc();
            m.num_inner_nodes()
        });
        let floor = if K::SEM == Sem::ZeroSup { n as usize } else { 0 }; // tautology chain
        ctx.check(left <= floor, &format!("{k}:deep:gc:nodes-left-after-dropping-everything"), || format!("{label}: {left}"));
    }
}

/// C02: connectives / ite / not on BDD, BCDD, ZBDD
pub fn connectives(ctx: &mut Ctx) {
    let mut rng = ctx.rng(0xDEE9_02);
    let cases = ctx.by_tier(2, 40);
    deep_kind::<Bdd>(ctx, &mut rng, cases, Mode::Connectives);
    deep_kind::<Bcdd>(ctx, &mut rng, cases, Mode::Connectives);
    deep_kind::<Zbdd>(ctx, &mut rng, cases, Mode::Connectives);
    ctx.sample(|| "deep: 2..8 workers with the automatic split depth (13..15), n = depth..depth+2 variables, random order, dense random operands: 12 connective/ite/not applications per manager, result interpreted under all 2^n assignments + 64 eval samples".into());
}

/// C04: quantification, apply-and-quantify, substitution, restrict on BDD, BCDD
pub fn quant(ctx: &mut Ctx) {
    let mut rng = ctx.rng(0xDEE9_04);
    let cases = ctx.by_tier(2, 40);
    deep_kind::<Bdd>(ctx, &mut rng, cases, Mode::Quant);
    deep_kind::<Bcdd>(ctx, &mut rng, cases, Mode::Quant);
    ctx.sample(|| "deep: 2..8 workers with the automatic split depth, n = depth..depth+2 variables, random order: quant / apply_quant / substitute / restrict, result interpreted under all 2^n assignments".into());
}

/// C09: ZBDD set operations
pub fn sets(ctx: &mut Ctx) {
    let mut rng = ctx.rng(0xDEE9_09);
    let cases = ctx.by_tier(3, 60);
    deep_kind::<Zbdd>(ctx, &mut rng, cases, Mode::Sets);
    ctx.sample(|| "deep: 2..8 workers with the automatic split depth, n = depth..depth+2 variables, random order, dense random families: subset0/subset1/change/union/intsec/diff, result interpreted under all 2^n assignments".into());
}
