//! Deep diagrams on managers with the AUTOMATIC split depth (C02 / C04 / C09)
//!
//! Every other monitor either uses one worker or forces the split depth to a fixed value, so
//! that the parallel recursion is exercised on small diagrams. A user, however, gets the
//! automatic depth `ilog2(4096 * workers)` (13 for 2 workers, 14 for 4, 15 for 8): the parallel
//! recursor counts down while descending and hands over to the sequential recursor in the
//! middle of an operation. That hand-over (arguments passed on, results of the two halves paired
//! up again) is only reached by operands with at least that many levels along one path. The
//! cases here have `depth .. depth + 2` variables, random dense operands and a random variable
//! order; the oracle is the truth-table model through the independent interpreter.

use oxidd::{BooleanFunction, Function, HasLevel, HasWorkers, Manager, ManagerRef, Subst, WorkerPool};
use oxidd_core::function::INodeOfFunc;

use crate::kinds::*;
use crate::tt::{Tt, ALL_BOPS, ALL_QUANTS};
use crate::Ctx;

#[derive(Clone, Copy, PartialEq, Eq)]
enum Mode {
    Connectives,
    Quant,
    Sets,
}

/// Shannon expansion along the variable numbers without copying tables (2^n leaves)
fn build_fast<K: BoolKind>(mref: &MRefOf<K>, t: &Tt) -> K::F {
    fn rec<K: BoolKind>(m: &MgrOf<'_, K>, t: &Tt, v: u32, a: usize) -> K::F {
        if v == t.n {
            return if t.get(a) { K::F::t(m) } else { K::F::f(m) };
        }
        let hi = rec::<K>(m, t, v + 1, a | (1 << v));
        let lo = rec::<K>(m, t, v + 1, a);
        if hi == lo {
            return hi;
        }
        K::F::var(m, v).unwrap().ite(&hi, &lo).unwrap()
    }
    mref.with_manager_shared(|m| rec::<K>(m, t, 0, 0))
}

fn deep_kind<K: BoolKind>(ctx: &mut Ctx, rng: &mut crate::rng::Rng, cases: usize, mode: Mode)
where
    for<'id> MgrOf<'id, K>: HasWorkers,
    for<'x> INodeOfFunc<'x, K::F>: HasLevel,
{
    let k = K::NAME;
    for case in 0..cases {
        let _ = case;
        let threads = *rng.pick(&[2u32, 2, 3, 4, 8]);
        let extra = rng.range(0, 2) as u32;
        let mut rng = crate::rng::Rng::new(rng.next());
        let mref = K::new_manager(1 << 22, 1 << rng.range(10, 16), threads);
        let depth = mref.with_manager_shared(|m| m.workers().split_depth());
        let n = (depth + extra).min(16);
        mref.with_manager_exclusive(|m| m.add_vars(n));
        let order = rng.perm(n as usize);
        set_order(&mref, &order);
        let label = format!("deep {k} n={n} workers={threads} split depth {depth} (automatic) order {order:?}");
        println!("@@{{\"t\":\"case\",\"case\":{}}}", crate::ctx::json_str(&label));
        ctx.count("deep_cases", 1);
        if n >= depth {
            ctx.count("cases_with_at_least_split_depth_levels", 1);
        }
        let fs: Vec<(K::F, Tt)> = (0..4)
            .map(|i| {
                let t = if i % 2 == 0 { Tt::random(n, &mut rng) } else { Tt::random_biased(n, &mut rng) };
                (build_fast::<K>(&mref, &t), t)
            })
            .collect();
        for (f, t) in &fs {
            ctx.eval();
            let it = interp_tt::<K>(f);
            if it != *t {
                ctx.violation(&format!("{k}:deep:build:wrong-table"), format!("{label}: {} of {} assignments differ", it.xor(t).count_ones(), t.size()));
            }
        }
        let t_case = std::time::Instant::now();
        let steps = 12;
        for _ in 0..steps {
            let (f, ft) = rng.pick(&fs);
            let (g, gt) = rng.pick(&fs);
            let (h, ht) = rng.pick(&fs);
            let mask = (rng.next() & rng.next()) as u32 & ((1u32 << n) - 1);
            let vars: Vec<u32> = (0..n).filter(|v| (mask >> v) & 1 == 1).collect();
            let cube = |lits: &[(u32, bool)]| {
                mref.with_manager_shared(|m| {
                    let mut c = K::F::t(m);
                    for &(v, b) in lits {
                        let l = if b { K::F::var(m, v).unwrap() } else { K::F::not_var(m, v).unwrap() };
                        c = c.and(&l).unwrap();
                    }
                    c
                })
            };
            let (r, want, what): (oxidd::util::AllocResult<K::F>, Tt, String) = match mode {
                Mode::Connectives => {
                    if rng.chance(1, 4) {
                        (f.ite(g, h), ft.ite(gt, ht), "ite".to_string())
                    } else if rng.chance(1, 10) {
                        (f.not(), ft.not(), "not".to_string())
                    } else {
                        let op = *rng.pick(&ALL_BOPS);
                        (Ok(crate::mon::c02::apply_bop(op, f, g)), ft.bop(op, gt), op.name().to_string())
                    }
                }
                Mode::Quant => match rng.below(4) {
                    0 => {
                        let q = *rng.pick(&ALL_QUANTS);
                        let vs = cube(&vars.iter().map(|&v| (v, true)).collect::<Vec<_>>());
                        (K::quant(q, f, &vs), ft.quant(q, &vars), format!("quant {q:?} {vars:?}"))
                    }
                    1 => {
                        let q = *rng.pick(&ALL_QUANTS);
                        let op = *rng.pick(&ALL_BOPS);
                        let vs = cube(&vars.iter().map(|&v| (v, true)).collect::<Vec<_>>());
                        (K::apply_quant(q, op, f, g, &vs), ft.bop(op, gt).quant(q, &vars), format!("apply_quant {q:?} {} {vars:?}", op.name()))
                    }
                    2 => {
                        let mut svars = rng.perm(n as usize);
                        svars.truncate(rng.range(1, 3));
                        let mut model: Vec<Option<Tt>> = vec![None; n as usize];
                        let mut reps = Vec::new();
                        for &v in &svars {
                            // small replacement functions (a literal or the conjunction of two): with
                            // dense 15-variable replacements one composition takes tens of seconds
                            let (a, b) = (rng.below(n as u64) as u32, rng.below(n as u64) as u32);
                            let (pa, pb) = (rng.chance(1, 2), rng.chance(1, 2));
                            let lits = if a == b { vec![(a, pa)] } else { vec![(a, pa), (b, pb)] };
                            reps.push(cube(&lits));
                            model[v as usize] = Some(Tt::cube(n, &lits));
                        }
                        let s = Subst::new(svars.clone(), reps);
                        (K::substitute(f, &s), ft.compose(&model), format!("substitute {svars:?}"))
                    }
                    _ => {
                        let vals = rng.next() as u32 & mask;
                        let lits: Vec<(u32, bool)> = vars.iter().map(|&v| (v, (vals >> v) & 1 == 1)).collect();
                        let c = cube(&lits);
                        (f.restrict(&c), ft.restrict(&lits), format!("restrict {lits:?}"))
                    }
                },
                Mode::Sets => {
                    let v = rng.below(n as u64) as u32;
                    let bit = 1usize << v;
                    match rng.below(6) as u32 {
                        0 => (K::zset(0, f, g, v), Tt::from_fn(n, |a| a & bit == 0 && ft.get(a)), format!("subset0 {v}")),
                        1 => (K::zset(1, f, g, v), Tt::from_fn(n, |a| a & bit == 0 && ft.get(a | bit)), format!("subset1 {v}")),
                        2 => (K::zset(2, f, g, v), Tt::from_fn(n, |a| ft.get(a ^ bit)), format!("change {v}")),
                        3 => (K::zset(3, f, g, v), ft.or(gt), "union".to_string()),
                        4 => (K::zset(4, f, g, v), ft.and(gt), "intsec".to_string()),
                        _ => (K::zset(5, f, g, v), ft.diff(gt), "diff".to_string()),
                    }
                }
            };
            if std::env::var("VH_DEEP_TIMING").is_ok() {
                eprintln!("{what}: op done at {:?}", t_case.elapsed());
            }
            let Ok(r) = r else {
                // dense operands over 13..16 variables can exceed the node store: no verdict for this step
                ctx.count("steps_skipped_out_of_memory", 1);
                continue;
            };
            let rt = interp_tt::<K>(&r);
            ctx.eval();
            let opname = what.split(' ').next().unwrap().to_string();
            if rt != want {
                ctx.violation(
                    &format!("{k}:deep:{opname}:wrong-table"),
                    format!("{label}: {what}: {} of {} assignments differ", rt.xor(&want).count_ones(), want.size()),
                );
            } else if !want.is_const() {
                ctx.distinct((k, &opname, crate::rng::hash64(&want.w.iter().flat_map(|w| w.to_le_bytes()).collect::<Vec<u8>>()), threads));
            }
            // eval on a sample of assignments
            for _ in 0..64 {
                let a = rng.below(1 << n) as usize;
                ctx.eval();
                if r.eval((0..n).map(|v| (v, (a >> v) & 1 == 1))) != want.get(a) {
                    ctx.violation(&format!("{k}:deep:{opname}:eval-wrong"), format!("{label}: {what}: assignment {a:#b}"));
                    break;
                }
            }
        }
        // structure + exact collection at the quiescent end
        let s = mref.with_manager_exclusive(|m| crate::audit::structural(&*m, K::rule(), &|_| false));
        for (clause, detail) in s.errs.iter().take(3) {
            ctx.violation(&format!("{k}:deep:structure:{clause}"), format!("{label}: {detail}"));
        }
        drop(fs);
        let left = mref.with_manager_shared(|m| {
            m.gc();
            m.num_inner_nodes()
        });
        let floor = if K::SEM == Sem::ZeroSup { n as usize } else { 0 }; // tautology chain
        ctx.check(left <= floor, &format!("{k}:deep:gc:nodes-left-after-dropping-everything"), || format!("{label}: {left}"));
    }
}

/// C02: connectives / ite / not on BDD, BCDD, ZBDD
pub fn connectives(ctx: &mut Ctx) {
    let mut rng = ctx.rng(0xDEE9_02);
    let cases = ctx.by_tier(2, 40);
    deep_kind::<Bdd>(ctx, &mut rng, cases, Mode::Connectives);
    deep_kind::<Bcdd>(ctx, &mut rng, cases, Mode::Connectives);
    deep_kind::<Zbdd>(ctx, &mut rng, cases, Mode::Connectives);
    ctx.sample(|| "deep: 2..8 workers with the automatic split depth (13..15), n = depth..depth+2 variables, random order, dense random operands: 12 connective/ite/not applications per manager, result interpreted under all 2^n assignments + 64 eval samples".into());
}

/// C04: quantification, apply-and-quantify, substitution, restrict on BDD, BCDD
pub fn quant(ctx: &mut Ctx) {
    let mut rng = ctx.rng(0xDEE9_04);
    let cases = ctx.by_tier(2, 40);
    deep_kind::<Bdd>(ctx, &mut rng, cases, Mode::Quant);
    deep_kind::<Bcdd>(ctx, &mut rng, cases, Mode::Quant);
    ctx.sample(|| "deep: 2..8 workers with the automatic split depth, n = depth..depth+2 variables, random order: quant / apply_quant / substitute / restrict, result interpreted under all 2^n assignments".into());
}

/// C09: ZBDD set operations
pub fn sets(ctx: &mut Ctx) {
    let mut rng = ctx.rng(0xDEE9_09);
    let cases = ctx.by_tier(3, 60);
    deep_kind::<Zbdd>(ctx, &mut rng, cases, Mode::Sets);
    ctx.sample(|| "deep: 2..8 workers with the automatic split depth, n = depth..depth+2 variables, random order, dense random families: subset0/subset1/change/union/intsec/diff, result interpreted under all 2^n assignments".into());
}

/// C15: DDDMP round trip of LARGE diagrams (thousands of nodes, several roots). Node references
/// above 1536 / 16384 and every escaped byte value of the binary encoding only occur in files of
/// this size. Export in binary and ASCII mode, import into the exporting manager (handles must be
/// identical) and into a fresh manager (tables must be equal under the independent interpreter).
fn dddmp_large_kind<K: BoolKind>(ctx: &mut Ctx, rng: &mut crate::rng::Rng, cases: usize)
where
    for<'id> MgrOf<'id, K>: HasWorkers,
    for<'x> INodeOfFunc<'x, K::F>: HasLevel,
{
    let k = K::NAME;
    for _ in 0..cases {
        let n = rng.range(12, 15) as u32;
        let mref = K::new_manager(1 << 20, 1 << 12, 1);
        mref.with_manager_exclusive(|m| m.add_vars(n));
        let order = rng.perm(n as usize);
        set_order(&mref, &order);
        let nroots = rng.range(1, 3);
        let fs: Vec<(K::F, Tt)> = (0..nroots)
            .map(|i| {
                let t = if i == 0 { Tt::random(n, rng) } else { Tt::random_biased(n, rng) };
                (build_fast::<K>(&mref, &t), t)
            })
            .collect();
        let nodes = mref.with_manager_shared(|m| m.num_inner_nodes());
        ctx.count_max("max_nodes_in_exported_manager", nodes as u64);
        let label = format!("dddmp large {k} n={n} order {order:?} roots {nroots} nodes {nodes}");
        println!("@@{{\"t\":\"case\",\"case\":{}}}", crate::ctx::json_str(&label));
        for (how, mode) in [(1u32, "binary"), (0u32, "ascii")] {
            let roots: Vec<&K::F> = fs.iter().map(|x| &x.0).collect();
            let Some(bytes) = K::export(&mref, &roots, how) else {
                ctx.violation(&format!("{k}:dddmp-large:{mode}:export-failed"), label.clone());
                continue;
            };
            ctx.count("large_files_exported", 1);
            ctx.count_max("max_file_bytes", bytes.len() as u64);
            // same manager: identical handles
            ctx.eval();
            match K::import(&mref, &bytes) {
                Ok(back) => {
                    if back.len() != fs.len() || back.iter().zip(&fs).any(|(b, (f, _))| b != f) {
                        ctx.violation(&format!("{k}:dddmp-large:{mode}:reimport-into-same-manager-differs"), label.clone());
                    }
                }
                Err(e) => ctx.violation(&format!("{k}:dddmp-large:{mode}:own-file-rejected"), format!("{label}: {e}")),
            }
            // fresh manager with the same order: equal tables
            let m2 = K::new_manager(1 << 20, 1 << 12, 1);
            m2.with_manager_exclusive(|m| m.add_vars(n));
            set_order(&m2, &order);
            ctx.eval();
            match K::import(&m2, &bytes) {
                Ok(back) => {
                    for (i, (b, (_, t))) in back.iter().zip(&fs).enumerate() {
                        let bt = interp_tt::<K>(b);
                        if bt != *t {
                            ctx.violation(
                                &format!("{k}:dddmp-large:{mode}:imported-function-differs"),
                                format!("{label}: root {i}: {} of {} assignments differ", bt.xor(t).count_ones(), t.size()),
                            );
                        } else {
                            ctx.distinct((k, mode, n, nodes, i));
                        }
                    }
                    let s = m2.with_manager_exclusive(|m| crate::audit::structural(&*m, K::rule(), &|_| false));
                    for (clause, detail) in s.errs.iter().take(3) {
                        ctx.violation(&format!("{k}:dddmp-large:{mode}:structure:{clause}"), format!("{label}: {detail}"));
                    }
                }
                Err(e) => ctx.violation(&format!("{k}:dddmp-large:{mode}:own-file-rejected"), format!("{label} (fresh manager): {e}")),
            }
            // binary mode: a 7-bit encoded number extended by ten more leading groups, the first of
            // them non-zero, denotes a value >= 2^64. Such a file is malformed ("integer too large");
            // if the importer drops the excess bits it reads the ORIGINAL number and returns the
            // original functions for a file that says something else.
            if how == 1 {
                if let Some(off) = bytes.windows(7).position(|w| w == b".nodes\n").map(|p| p + 7) {
                    let mut wrapped = 0u64;
                    for _ in 0..40 {
                        let p = off + rng.usize(bytes.len() - off);
                        let mut mutant = bytes.clone();
                        mutant.splice(p..p, [0x03u8, 1, 1, 1, 1, 1, 1, 1, 1, 1]);
                        ctx.eval();
                        if let Ok(Ok(back)) = crate::ctx::catch(|| K::import(&mref, &mutant)) {
                            if back.len() == fs.len() && back.iter().zip(&fs).all(|(b, (f, _))| b == f) {
                                wrapped += 1;
                                if wrapped == 1 {
                                    ctx.violation(
                                        &format!("{k}:dddmp-large:binary:integer-beyond-64-bits-accepted"),
                                        format!("{label}: 10 continuation bytes (03 01 01 01 01 01 01 01 01 01) inserted at offset {p} of the node section ({} bytes): import succeeds and returns the functions of the unmodified file", bytes.len() - off),
                                    );
                                }
                            }
                        }
                        ctx.count("overlong_number_mutants", 1);
                    }
                }
            }
            // a LARGER manager: the file's variables are mapped onto the last variables (levels beyond
            // the file's own variable count), as when several files are loaded into one manager
            if n <= 13 {
                let extra = rng.range(1, 3) as u32;
                let m3 = K::new_manager(1 << 20, 1 << 12, 1);
                m3.with_manager_exclusive(|m| m.add_vars(n + extra));
                let order3: Vec<u32> = (0..extra).chain(order.iter().map(|&v| v + extra)).collect();
                set_order(&m3, &order3);
                ctx.eval();
                let r = crate::ctx::catch(|| K::import_shifted(&m3, &bytes, extra));
                match r {
                    Err(msg) => ctx.violation(&format!("{k}:dddmp-large:{mode}:panic-importing-into-larger-manager"), format!("{label}, {extra} extra variables in front: {msg}")),
                    Ok(Err(e)) => ctx.violation(&format!("{k}:dddmp-large:{mode}:own-file-rejected"), format!("{label} (larger manager, {extra} extra variables in front): {e}")),
                    Ok(Ok(back)) => {
                        let low = (1usize << extra) - 1;
                        for (i, (b, (_, t))) in back.iter().zip(&fs).enumerate() {
                            let want = Tt::from_fn(n + extra, |a| (K::SEM != Sem::ZeroSup || a & low == 0) && t.get(a >> extra));
                            let bt = interp_tt::<K>(b);
                            if bt != want {
                                ctx.violation(
                                    &format!("{k}:dddmp-large:{mode}:imported-function-differs"),
                                    format!("{label} (larger manager, variables shifted by {extra}): root {i}: {} of {} assignments differ", bt.xor(&want).count_ones(), want.size()),
                                );
                            }
                        }
                        ctx.count("imports_into_larger_manager", 1);
                    }
                }
            }
        }
    }
}

pub fn dddmp_large(ctx: &mut Ctx) {
    let mut rng = ctx.rng(0xDEE9_15);
    let cases = ctx.by_tier(2, 40);
    dddmp_large_kind::<Bcdd>(ctx, &mut rng, cases);
    dddmp_large_kind::<Bdd>(ctx, &mut rng, cases);
    dddmp_large_kind::<Zbdd>(ctx, &mut rng, cases);
    ctx.sample(|| "DDDMP round trip of dense random functions over 12..15 variables (thousands of nodes, 1..3 roots), binary and ASCII, into the exporting and into a fresh manager".into());
}

// ------------------------------------------------------------------------------------------
// wide managers: 31..200 variables, functions over 6 scattered "active" ones
// ------------------------------------------------------------------------------------------

/// Independent interpretation under an assignment given per variable (any number of variables)
fn interp_wide<'id, K: BoolKind>(m: &MgrOf<'id, K>, root: &oxidd_core::function::EdgeOfFunc<'id, K::F>, a: &[bool]) -> bool
where
    for<'x> INodeOfFunc<'x, K::F>: HasLevel,
{
    use oxidd::{Edge, InnerNode, Node};
    use oxidd_core::Countable;
    fn walk<'id, K: BoolKind>(m: &MgrOf<'id, K>, e: &oxidd_core::function::EdgeOfFunc<'id, K::F>, a: &[bool], neg: &mut bool, next_level: &mut u32) -> bool
    where
        for<'x> INodeOfFunc<'x, K::F>: HasLevel,
    {
        if K::SEM == Sem::Complement && e.tag().as_usize() == 1 {
            *neg = !*neg;
        }
        match m.get_node(e) {
            Node::Inner(n) => {
                let l = n.level();
                if K::SEM == Sem::ZeroSup {
                    for s in *next_level..l {
                        if a[m.level_to_var(s) as usize] {
                            return false;
                        }
                    }
                    *next_level = l + 1;
                }
                let c = n.child(if a[m.level_to_var(l) as usize] { 0 } else { 1 });
                walk::<K>(m, &c, a, neg, next_level)
            }
            Node::Terminal(t) => {
                use std::borrow::Borrow;
                if K::SEM == Sem::ZeroSup {
                    for s in *next_level..m.num_levels() {
                        if a[m.level_to_var(s) as usize] {
                            return false;
                        }
                    }
                }
                K::term(t.borrow()) ^ *neg
            }
        }
    }
    walk::<K>(m, root, a, &mut false, &mut 0)
}

fn wide_kind<K: BoolKind>(ctx: &mut Ctx, rng: &mut crate::rng::Rng, cases: usize, mode: Mode)
where
    for<'id> MgrOf<'id, K>: HasWorkers,
    for<'x> INodeOfFunc<'x, K::F>: HasLevel,
{
    use oxidd::util::OptBool;
    let k = K::NAME;
    const A: u32 = 6; // active variables
    for _ in 0..cases {
        let n = *rng.pick(&[31u32, 32, 33, 63, 64, 65, 96, 127, 128, 129, 200]);
        let threads = if rng.chance(1, 3) { 4 } else { 1 };
        let mref = setup::<K>(1 << 16, 1 << rng.range(4, 12), threads, n);
        // active variables: word boundaries of 32/64-bit bit sets first, then random ones
        let mut act: Vec<u32> = [0, n - 1, 31, 32, 63, 64, 127, 128].into_iter().filter(|&v| v < n).collect();
        act.sort();
        act.dedup();
        rng.shuffle(&mut act);
        act.truncate(rng.range(2, 4));
        while act.len() < A as usize {
            let v = rng.below(n as u64) as u32;
            if !act.contains(&v) {
                act.push(v);
            }
        }
        act.sort();
        let order = rng.perm(n as usize);
        set_order(&mref, &order);
        let label = format!("wide {k} n={n} threads={threads} active {act:?}");
        println!("@@{{\"t\":\"case\",\"case\":{}}}", crate::ctx::json_str(&label));
        ctx.count("wide_cases", 1);
        let build = |t: &Tt| -> K::F {
            fn rec<K: BoolKind>(m: &MgrOf<'_, K>, t: &Tt, act: &[u32], v: u32, a: usize) -> K::F {
                if v == t.n {
                    return if t.get(a) { K::F::t(m) } else { K::F::f(m) };
                }
                let hi = rec::<K>(m, t, act, v + 1, a | (1 << v));
                let lo = rec::<K>(m, t, act, v + 1, a);
                if hi == lo {
                    return hi;
                }
                K::F::var(m, act[v as usize]).unwrap().ite(&hi, &lo).unwrap()
            }
            mref.with_manager_shared(|m| rec::<K>(m, t, &act, 0, 0))
        };
        let project = |full: &[bool]| -> usize { (0..A as usize).fold(0, |acc, i| acc | ((full[act[i] as usize] as usize) << i)) };
        // oracle: eval + independent interpretation on assignments over ALL n variables
        let verify = |ctx: &mut Ctx, rng: &mut crate::rng::Rng, r: &K::F, want: &Tt, what: &str| -> bool {
            for round in 0..(64 + 64 + 40) {
                let full: Vec<bool> = if round < 128 {
                    // every assignment of the active variables, the others all false / all true
                    let a = round % 64;
                    (0..n).map(|v| match act.iter().position(|&x| x == v) {
                        Some(i) => (a >> i) & 1 == 1,
                        None => round >= 64,
                    }).collect()
                } else {
                    (0..n).map(|_| rng.chance(1, 2)).collect()
                };
                // under the zero-suppressed reading an inactive variable set to true is part of
                // the Boolean function as well: the functions here are built with Boolean
                // connectives over `var(v)`, so they do not depend on inactive variables
                let w = want.get(project(&full));
                let ev = r.eval(full.iter().enumerate().map(|(v, &b)| (v as u32, b)));
                let it = r.with_manager_shared(|m, e| interp_wide::<K>(m, e, &full));
                ctx.eval();
                if ev != w || it != w {
                    let ones: Vec<usize> = full.iter().enumerate().filter(|x| *x.1).map(|x| x.0).collect();
                    ctx.violation(&format!("{k}:wide:{}:wrong-value", what.split(' ').next().unwrap()), format!("{label}: {what}: variables set {ones:?}: eval {ev} interp {it} want {w}"));
                    return false;
                }
            }
            true
        };
        let fs: Vec<(K::F, Tt)> = (0..5)
            .map(|i| {
                let t = if i % 2 == 0 { Tt::random(A, rng) } else { Tt::random_biased(A, rng) };
                (build(&t), t)
            })
            .collect();
        for (f, t) in &fs {
            verify(ctx, rng, f, t, "build");
        }
        let cube_of = |lits: &[(u32, bool)]| {
            mref.with_manager_shared(|m| {
                let mut c = K::F::t(m);
                for &(v, b) in lits {
                    let l = if b { K::F::var(m, v).unwrap() } else { K::F::not_var(m, v).unwrap() };
                    c = c.and(&l).unwrap();
                }
                c
            })
        };
        for _ in 0..24 {
            let (f, ft) = rng.pick(&fs);
            let (g, gt) = rng.pick(&fs);
            let (h, ht) = rng.pick(&fs);
            // active positions and some inactive variables
            let amask = rng.below(1 << A) as u32;
            let apos: Vec<u32> = (0..A).filter(|i| (amask >> i) & 1 == 1).collect();
            let mut inactive: Vec<u32> = Vec::new();
            for _ in 0..rng.range(0, 3) {
                let v = rng.below(n as u64) as u32;
                if !act.contains(&v) && !inactive.contains(&v) {
                    inactive.push(v);
                }
            }
            let (r, want, what): (K::F, Tt, String) = match mode {
                Mode::Connectives | Mode::Sets => match rng.below(10) {
                    0 | 1 => (f.ite(g, h).unwrap(), ft.ite(gt, ht), "ite".into()),
                    2 => (f.not().unwrap(), ft.not(), "not".into()),
                    3 => {
                        // pick_cube: any completion of the cube must satisfy f
                        if let Some(c) = f.pick_cube(|_, _, _| rng.chance(1, 2)) {
                            ctx.eval();
                            if c.len() != n as usize {
                                ctx.violation(&format!("{k}:wide:pick_cube:length"), format!("{label}: {} entries", c.len()));
                            } else {
                                for _ in 0..8 {
                                    let full: Vec<bool> = c.iter().map(|o| match o {
                                        OptBool::True => true,
                                        OptBool::False => false,
                                        OptBool::None => rng.chance(1, 2),
                                    }).collect();
                                    if !ft.get(project(&full)) {
                                        ctx.violation(&format!("{k}:wide:pick_cube:not-an-implicant"), format!("{label}: f={ft} cube fixes {:?}", c.iter().enumerate().filter(|x| *x.1 != OptBool::None).map(|x| (x.0, *x.1 == OptBool::True)).collect::<Vec<_>>()));
                                        break;
                                    }
                                }
                            }
                        } else if !ft.is_zero() {
                            ctx.violation(&format!("{k}:wide:pick_cube:none-for-satisfiable"), format!("{label}: f={ft}"));
                        }
                        continue;
                    }
                    _ => {
                        let op = *rng.pick(&ALL_BOPS);
                        (crate::mon::c02::apply_bop(op, f, g), ft.bop(op, gt), op.name().to_string())
                    }
                },
                Mode::Quant => {
                    let avars: Vec<u32> = apos.iter().map(|&i| act[i as usize]).collect();
                    let mut all_vars = avars.clone();
                    all_vars.extend(&inactive);
                    rng.shuffle(&mut all_vars);
                    match rng.below(4) {
                        0 => {
                            let q = *rng.pick(&ALL_QUANTS);
                            let vs = cube_of(&all_vars.iter().map(|&v| (v, true)).collect::<Vec<_>>());
                            // unique quantification over a variable the function does not depend on gives false
                            let mut want = ft.quant(q, &apos);
                            if q == crate::tt::Quant::Unique && !inactive.is_empty() {
                                want = Tt::zero(A);
                            }
                            (K::quant(q, f, &vs).unwrap(), want, format!("quant {q:?} {all_vars:?}"))
                        }
                        1 => {
                            let q = *rng.pick(&ALL_QUANTS);
                            let op = *rng.pick(&ALL_BOPS);
                            let vs = cube_of(&all_vars.iter().map(|&v| (v, true)).collect::<Vec<_>>());
                            let mut want = ft.bop(op, gt).quant(q, &apos);
                            if q == crate::tt::Quant::Unique && !inactive.is_empty() {
                                want = Tt::zero(A);
                            }
                            (K::apply_quant(q, op, f, g, &vs).unwrap(), want, format!("apply_quant {q:?} {} {all_vars:?}", op.name()))
                        }
                        2 => {
                            let mut model: Vec<Option<Tt>> = vec![None; A as usize];
                            let (mut svars, mut reps) = (Vec::new(), Vec::new());
                            for &i in &apos {
                                let (h, ht) = rng.pick(&fs);
                                svars.push(act[i as usize]);
                                reps.push(h.clone());
                                model[i as usize] = Some(ht.clone());
                            }
                            for &v in &inactive {
                                // replacing a variable the function does not depend on changes nothing
                                svars.push(v);
                                reps.push(rng.pick(&fs).0.clone());
                            }
                            if svars.is_empty() {
                                continue;
                            }
                            let s = Subst::new(svars.clone(), reps);
                            (K::substitute(f, &s).unwrap(), ft.compose(&model), format!("substitute {svars:?}"))
                        }
                        _ => {
                            let alits: Vec<(u32, bool)> = apos.iter().map(|&i| (i, rng.chance(1, 2))).collect();
                            let mut lits: Vec<(u32, bool)> = alits.iter().map(|&(i, b)| (act[i as usize], b)).collect();
                            lits.extend(inactive.iter().map(|&v| (v, rng.chance(1, 2))));
                            rng.shuffle(&mut lits);
                            let c = cube_of(&lits);
                            (f.restrict(&c).unwrap(), ft.restrict(&alits), format!("restrict {lits:?}"))
                        }
                    }
                }
            };
            if verify(ctx, rng, &r, &want, &what) && !want.is_const() {
                ctx.distinct((k, what.split(' ').next().unwrap().to_string(), want.as_u64(), n));
            }
        }
        let s = mref.with_manager_exclusive(|m| crate::audit::structural(&*m, K::rule(), &|_| false));
        for (clause, detail) in s.errs.iter().take(3) {
            ctx.violation(&format!("{k}:wide:structure:{clause}"), format!("{label}: {detail}"));
        }
    }
}

/// C02 on managers with 31..200 variables (bit-set word boundaries in eval / pick_cube / level maps)
pub fn wide_connectives(ctx: &mut Ctx) {
    let mut rng = ctx.rng(0x01DE_02);
    let cases = ctx.by_tier(6, 200);
    wide_kind::<Bdd>(ctx, &mut rng, cases, Mode::Connectives);
    wide_kind::<Bcdd>(ctx, &mut rng, cases, Mode::Connectives);
    wide_kind::<Zbdd>(ctx, &mut rng, cases, Mode::Connectives);
    ctx.sample(|| "wide: managers with 31/32/33/63/64/65/96/127/128/129/200 variables in random order, functions over 6 active variables (word boundaries preferred): connectives/ite/not/pick_cube, each result evaluated (eval + independent interpreter) on 168 assignments of ALL variables".into());
}

/// C04 on managers with 31..200 variables: variable sets / cubes / substitutions that mention inactive variables
pub fn wide_quant(ctx: &mut Ctx) {
    let mut rng = ctx.rng(0x01DE_04);
    let cases = ctx.by_tier(6, 200);
    wide_kind::<Bdd>(ctx, &mut rng, cases, Mode::Quant);
    wide_kind::<Bcdd>(ctx, &mut rng, cases, Mode::Quant);
    ctx.sample(|| "wide: managers with 31..200 variables: quant / apply_quant / substitute / restrict whose variable sets, cubes and substitutions also mention variables the operands do not depend on".into());
}
