//! Monitor registry: name -> (property, entry point)
use crate::Ctx;

pub mod c01;
pub mod c02;
pub mod c08;

pub type MonFn = fn(&mut Ctx);

pub fn registry() -> Vec<(&'static str, &'static str, MonFn)> {
    vec![
        ("c01_hist", "C01", c01::random_histories as MonFn),
        ("c08_exh", "C08", c08::exhaustive as MonFn),
        ("c08_rand", "C08", c08::random as MonFn),
        ("c08_case", "C08", c08::single as MonFn),
        ("c02_pairs", "C02", c02::pairs as MonFn),
    ]
}
