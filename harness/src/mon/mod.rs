//! Monitor registry: name -> (property, entry point)
use crate::Ctx;

pub mod c02;

pub type MonFn = fn(&mut Ctx);

pub fn registry() -> Vec<(&'static str, &'static str, MonFn)> {
    vec![
        ("c02_pairs", "C02", c02::pairs as MonFn),
    ]
}
