//! Monitor registry: name -> (property, entry point)
use crate::Ctx;

pub mod c01;
pub mod c02;
pub mod c03;
pub mod c05;
pub mod c06;
pub mod c07;
pub mod c04;
pub mod c08;
pub mod c09;
#[cfg(not(feature = "pointer"))]
pub mod c10;
pub mod c11;
pub mod c12;
pub mod c13;
pub mod c14;
#[cfg(not(feature = "pointer"))]
pub mod c15;
pub mod c16;
pub mod c17;
pub mod c18;
pub mod c19;
pub mod c20;
pub mod deep;
pub mod defaults;

pub type MonFn = fn(&mut Ctx);

pub fn registry() -> Vec<(&'static str, &'static str, MonFn)> {
    vec![
        ("c01_hist", "C01", c01::random_histories as MonFn),
        ("c08_exh", "C08", c08::exhaustive as MonFn),
        ("c08_rand", "C08", c08::random as MonFn),
        ("c08_case", "C08", c08::single as MonFn),
        ("c08_large", "C08", c08::large as MonFn),
        ("c13_exh", "C13", c13::exhaustive as MonFn),
        ("c13_rand", "C13", c13::random as MonFn),
        ("c13_uniform", "C13", c13::uniform as MonFn),
        ("c04_exh", "C04", c04::exhaustive as MonFn),
        ("c04_rand", "C04", c04::random as MonFn),
        ("c09_exh", "C09", c09::exhaustive as MonFn),
        ("c09_rand", "C09", c09::random as MonFn),
        ("c04_defaults", "C04", c04::defaults as MonFn),
        ("c02_deep", "C02", deep::connectives as MonFn),
        ("c04_deep", "C04", deep::quant as MonFn),
        ("c09_deep", "C09", deep::sets as MonFn),
        ("c15_large", "C15", deep::dddmp_large as MonFn),
        ("c02_api", "C02", defaults::boolean as MonFn),
        ("c04_api", "C04", defaults::quant as MonFn),
        ("c09_api", "C09", defaults::sets as MonFn),
        ("c02_wide", "C02", deep::wide_connectives as MonFn),
        ("c04_wide", "C04", deep::wide_quant as MonFn),
        ("c03_hist", "C03", c03::histories as MonFn),
        ("c05_hist", "C05", c05::histories as MonFn),
        ("c05_bg", "C05", c05::background_gc as MonFn),
        ("c05_probe", "C05", c05::probe as MonFn),
        ("c05_probe_large", "C05", c05::probe_large as MonFn),
        ("c06_diff", "C06", c06::differential as MonFn),
        ("c06_subst_ids", "C06", c06::subst_ids as MonFn),
        ("c14_sweep", "C14", c14::sweep as MonFn),
        ("c14_nested", "C14", c14::nested as MonFn),
        ("c14_aborts", "C14", c14::aborts as MonFn),
        ("c14_import", "C14", c14::import as MonFn),
        ("c11_exh", "C11", c11::exhaustive as MonFn),
        ("c11_rand", "C11", c11::random as MonFn),
        ("c07_sched_rand", "C07", c07::sched_random as MonFn),
        ("c07_sched_dfs", "C07", c07::sched_dfs as MonFn),
        ("c07_stress", "C07", c07::stress as MonFn),
        ("c07_tiny", "C07", c07::tiny as MonFn),
        #[cfg(not(feature = "pointer"))]
        ("c10_scalar", "C10", c10::scalar as MonFn),
        #[cfg(not(feature = "pointer"))]
        ("c10_dd", "C10", c10::dd as MonFn),
        #[cfg(not(feature = "pointer"))]
        ("c05_mtbdd_terminals", "C05", c10::terminals_iter as MonFn),
        #[cfg(not(feature = "pointer"))]
        ("c07_mtbdd", "C07", c10::conc as MonFn),
        #[cfg(not(feature = "pointer"))]
        ("c15_roundtrip", "C15", c15::c15_roundtrip as MonFn),
        #[cfg(not(feature = "pointer"))]
        ("c15_malformed", "C15", c15::c15_malformed as MonFn),
        #[cfg(not(feature = "pointer"))]
        ("c15_huge", "C15", c15::c15_huge as MonFn),
        #[cfg(not(feature = "pointer"))]
        ("c15_case", "C15", c15::c15_case as MonFn),
        ("c19_lifecycle", "C19", c19::lifecycle as MonFn),
        #[cfg(not(feature = "pointer"))]
        ("c19_ffi", "C19", c19::c19_ffi as MonFn),
        #[cfg(not(feature = "pointer"))]
        ("c19_ffi_enum", "C19", c19::c19_ffi_enum as MonFn),
        ("c12_natural", "C12", c12::natural as MonFn),
        ("c12_satcount", "C12", c12::satcount as MonFn),
        ("c12_cache", "C12", c12::cache as MonFn),
        ("c16_map_exh", "C16", c16::map_exhaustive as MonFn),
        ("c16_map_rand", "C16", c16::map_random as MonFn),
        ("c16_map_leak", "C16", c16::map_leak as MonFn),
        ("c16_mgr", "C16", c16::manager as MonFn),
        ("c17_exh", "C17", c17::exhaustive as MonFn),
        ("c17_rand", "C17", c17::random as MonFn),
        ("c17_plain", "C17", c17::plain as MonFn),
        ("c17_case", "C17", c17::single as MonFn),
        ("c18_simplify_exh", "C18", c18::simplify_exh as MonFn),
        ("c18_simplify_rand", "C18", c18::simplify_rand as MonFn),
        ("c18_parsers", "C18", c18::parsers as MonFn),
        ("c20_digest", "C20", c20::digest as MonFn),
        ("c02_pairs", "C02", c02::pairs as MonFn),
        ("c02_rand", "C02", c02::random as MonFn),
    ]
}
