//! C18 — `Circuit::simplify` and the DIMACS / AIGER / NNF parsers
//!
//! Reference models (all written here, independent of OxiDD):
//! * `Tt<W>`: truth tables as bit vectors, assignment `a` gives variable `v` the value `(a>>v)&1`
//! * `MCircuit`: a gate list interpreter with its own cycle / unknown-input detection
//! * writers for DIMACS CNF/SAT, AIGER (ascii + binary) and c2d NNF together with the semantic
//!   value (truth table) of what was written

use std::collections::BTreeSet;
use std::fmt::Write as _;

use nom::error::{VerboseError, VerboseErrorKind};
use oxidd_parser::{Circuit, FileType, GateKind, Literal, ParseOptions, ParseOptionsBuilder, Problem, ProblemDetails, VarSet};

use crate::Ctx;
use crate::rng::Rng;

// ------------------------------------------------------------------------------------------
// panic bookkeeping: the harness hook prints one line per panic, which floods stderr when a
// defect makes millions of calls panic. Our hook records the location and prints a few lines.
// ------------------------------------------------------------------------------------------

thread_local! {
    static PANIC_LOC: std::cell::RefCell<String> = const { std::cell::RefCell::new(String::new()) };
    static PANIC_PRINTED: std::cell::Cell<u32> = const { std::cell::Cell::new(0) };
}

fn quiet_hook() {
    std::panic::set_hook(Box::new(|info| {
        let loc = info.location().map(|l| format!("{}:{}", l.file(), l.line())).unwrap_or_default();
        PANIC_LOC.with(|c| *c.borrow_mut() = loc.clone());
        let n = PANIC_PRINTED.with(|c| {
            c.set(c.get() + 1);
            c.get()
        });
        if n <= 8 {
            eprintln!("[panic] {loc}");
        }
    }));
}

fn restore_hook() {
    crate::ctx::install_panic_hook();
}

fn panic_loc() -> String {
    let s = PANIC_LOC.with(|c| c.borrow().clone());
    // make the location independent of the checkout (worktree vs /repo)
    match s.find("crates/") {
        Some(i) => s[i..].to_string(),
        None => s,
    }
}

// ------------------------------------------------------------------------------------------
// lazy witnesses: the context prints only the first few witnesses per signature, and a defect
// in a hot path fails millions of times, so the (expensive) witness text is built on demand
// ------------------------------------------------------------------------------------------

thread_local! {
    static SIG_SEEN: std::cell::RefCell<std::collections::HashMap<String, u32>> = std::cell::RefCell::new(Default::default());
}

/// Clauses that go beyond what property C18 states (it demands totality of the parsers and
/// equality of equivalent ASCII/binary AIGER files, not that every valid DIMACS file is
/// accepted or that latch reset values are decoded correctly): recorded as observations.
const OBSERVATION_ONLY: [&str; 2] = ["dimacs:valid-sate-rejected", "aiger:latch-init-value-wrong"];

fn viol(ctx: &mut Ctx, sig: &str, witness: impl FnOnce() -> String) {
    if OBSERVATION_ONLY.contains(&sig) {
        if ctx.counter(&format!("observed:{sig}")) == 0 {
            eprintln!("[observation] {sig}: {}", witness());
        }
        ctx.count(&format!("observed:{sig}"), 1);
        return;
    }
    let n = SIG_SEEN.with(|m| {
        let mut m = m.borrow_mut();
        if let Some(e) = m.get_mut(sig) {
            *e += 1;
            *e
        } else {
            m.insert(sig.to_string(), 1);
            1
        }
    });
    ctx.violation(sig, if n <= 3 { witness() } else { String::new() });
}

fn chk(ctx: &mut Ctx, cond: bool, sig: &str, witness: impl FnOnce() -> String) -> bool {
    ctx.eval();
    if !cond {
        viol(ctx, sig, witness);
    }
    cond
}

// ------------------------------------------------------------------------------------------
// truth tables
// ------------------------------------------------------------------------------------------

#[derive(Clone, Copy, PartialEq, Eq, Hash)]
pub struct Tt<const W: usize>([u64; W]);

const VARMASK: [u64; 6] = [
    0xAAAA_AAAA_AAAA_AAAA,
    0xCCCC_CCCC_CCCC_CCCC,
    0xF0F0_F0F0_F0F0_F0F0,
    0xFF00_FF00_FF00_FF00,
    0xFFFF_0000_FFFF_0000,
    0xFFFF_FFFF_0000_0000,
];

impl<const W: usize> Tt<W> {
    fn max_vars() -> usize {
        6 + W.trailing_zeros() as usize
    }
    fn zero() -> Self {
        Tt([0; W])
    }
    fn ones(nv: usize) -> Self {
        assert!(nv <= Self::max_vars());
        let mut w = [0u64; W];
        if nv >= 6 {
            for x in w.iter_mut().take(1 << (nv - 6)) {
                *x = !0;
            }
        } else {
            w[0] = (1u64 << (1 << nv)) - 1;
        }
        Tt(w)
    }
    fn var(nv: usize, v: usize) -> Self {
        assert!(v < nv);
        let mut w = [0u64; W];
        for (i, x) in w.iter_mut().enumerate() {
            *x = if v < 6 {
                VARMASK[v]
            } else if (i >> (v - 6)) & 1 == 1 {
                !0
            } else {
                0
            };
        }
        Tt(w).and(Self::ones(nv))
    }
    fn and(mut self, o: Self) -> Self {
        for i in 0..W {
            self.0[i] &= o.0[i];
        }
        self
    }
    fn or(mut self, o: Self) -> Self {
        for i in 0..W {
            self.0[i] |= o.0[i];
        }
        self
    }
    fn xor(mut self, o: Self) -> Self {
        for i in 0..W {
            self.0[i] ^= o.0[i];
        }
        self
    }
    fn not(self, nv: usize) -> Self {
        self.xor(Self::ones(nv))
    }
    fn neg_if(self, neg: bool, nv: usize) -> Self {
        if neg { self.not(nv) } else { self }
    }
    fn get(&self, a: usize) -> bool {
        (self.0[a >> 6] >> (a & 63)) & 1 == 1
    }
    fn depends_on(&self, nv: usize, v: usize) -> bool {
        (0..1usize << nv).any(|a| a & (1 << v) == 0 && self.get(a) != self.get(a | (1 << v)))
    }
    fn hex(&self, nv: usize) -> String {
        let words = if nv >= 6 { 1 << (nv - 6) } else { 1 };
        let mut s = format!("{nv}v:");
        for i in (0..words).rev() {
            if words == 1 {
                let _ = write!(s, "{:x}", self.0[i]);
            } else {
                let _ = write!(s, "{:016x}", self.0[i]);
            }
        }
        s
    }
}

// ------------------------------------------------------------------------------------------
// model circuits
// ------------------------------------------------------------------------------------------

/// model literal; the bool is "negated"
#[derive(Clone, Copy, PartialEq, Eq, Hash, PartialOrd, Ord, Debug)]
pub enum ML {
    C(bool),
    In(bool, usize),
    G(bool, usize),
    /// `Literal::UNDEF` (an input whose number is MAX_INPUT + 1)
    U(bool),
}

impl ML {
    fn lit(self) -> Literal {
        match self {
            ML::C(false) => Literal::FALSE,
            ML::C(true) => Literal::TRUE,
            ML::In(neg, n) => Literal::from_input(neg, n),
            ML::G(neg, g) => Literal::from_gate(neg, g),
            ML::U(false) => Literal::UNDEF,
            ML::U(true) => !Literal::UNDEF,
        }
    }
    /// read an OxiDD literal through its public accessors
    fn view(l: Literal) -> ML {
        if l == Literal::FALSE {
            ML::C(false)
        } else if l == Literal::TRUE {
            ML::C(true)
        } else if let Some(g) = l.get_gate_no() {
            ML::G(l.is_negative(), g)
        } else {
            match l.get_input() {
                Some(n) if n <= Literal::MAX_INPUT => ML::In(l.is_negative(), n),
                _ => ML::U(l.is_negative()),
            }
        }
    }
    fn neg(self) -> bool {
        match self {
            ML::C(b) => b, // TRUE is the "negative" constant
            ML::In(n, _) | ML::G(n, _) | ML::U(n) => n,
        }
    }
    fn flip(self) -> ML {
        match self {
            ML::C(b) => ML::C(!b),
            ML::In(n, i) => ML::In(!n, i),
            ML::G(n, g) => ML::G(!n, g),
            ML::U(n) => ML::U(!n),
        }
    }
    /// variable identity disregarding polarity
    fn pos(self) -> ML {
        match self {
            ML::C(_) => ML::C(false),
            ML::In(_, i) => ML::In(false, i),
            ML::G(_, g) => ML::G(false, g),
            ML::U(_) => ML::U(false),
        }
    }
    /// number of the input this literal refers to, if it is an input literal
    fn input_no(self) -> Option<usize> {
        match self {
            ML::In(_, n) => Some(n),
            ML::U(_) => Some(Literal::MAX_INPUT + 1),
            _ => None,
        }
    }
}

impl std::fmt::Display for ML {
    fn fmt(&self, f: &mut std::fmt::Formatter<'_>) -> std::fmt::Result {
        match *self {
            ML::C(false) => write!(f, "F"),
            ML::C(true) => write!(f, "T"),
            ML::In(n, i) => write!(f, "{}i{i}", if n { "-" } else { "" }),
            ML::G(n, g) => write!(f, "{}g{g}", if n { "-" } else { "" }),
            ML::U(n) => write!(f, "{}UNDEF", if n { "-" } else { "" }),
        }
    }
}

const KIND_NAMES: [&str; 3] = ["and", "or", "xor"];

#[derive(Clone, Default, PartialEq, Eq, Hash, Debug)]
pub struct MGate {
    /// 0 = and, 1 = or, 2 = xor
    kind: u8,
    ins: Vec<ML>,
}

#[derive(Clone, PartialEq, Eq, Hash, Debug)]
pub struct MCircuit {
    ninputs: usize,
    gates: Vec<MGate>,
}

impl std::fmt::Display for MCircuit {
    fn fmt(&self, f: &mut std::fmt::Formatter<'_>) -> std::fmt::Result {
        write!(f, "inputs={}", self.ninputs)?;
        for (i, g) in self.gates.iter().enumerate() {
            write!(f, "; g{i}={}(", KIND_NAMES[g.kind as usize])?;
            for (j, l) in g.ins.iter().enumerate() {
                if j > 0 {
                    write!(f, ",")?;
                }
                write!(f, "{l}")?;
            }
            write!(f, ")")?;
        }
        Ok(())
    }
}

fn gate_kind(k: u8) -> GateKind {
    match k {
        0 => GateKind::And,
        1 => GateKind::Or,
        _ => GateKind::Xor,
    }
}
fn kind_no(k: GateKind) -> u8 {
    match k {
        GateKind::And => 0,
        GateKind::Or => 1,
        GateKind::Xor => 2,
    }
}

impl MCircuit {
    fn build(&self) -> Circuit {
        let mut c = Circuit::new(VarSet::new(self.ninputs));
        for g in &self.gates {
            c.push_gate(gate_kind(g.kind));
            c.push_gate_inputs(g.ins.iter().map(|l| l.lit()));
        }
        c
    }
}

/// What the model knows about a circuit. Unknown inputs (number >= ninputs) are treated as
/// additional free variables so that semantic dependence on them can be decided.
struct Analysis<const W: usize> {
    ninputs: usize,
    nv: usize,
    /// distinct unknown input numbers; `unknown[j]` is variable `ninputs + j`
    unknown: Vec<usize>,
    /// per gate: bit j set iff the gate has an input literal referring to `unknown[j]`
    gate_unk: Vec<u32>,
    /// per gate: gates reachable in >= 1 steps
    reach: Vec<u64>,
    on_cycle: Vec<bool>,
    /// None iff a cycle is reachable from the gate (no function defined)
    fun: Vec<Option<Tt<W>>>,
}

impl<const W: usize> Analysis<W> {
    fn new(c: &MCircuit) -> Self {
        let ng = c.gates.len();
        assert!(ng <= 64);
        let mut unknown: Vec<usize> = Vec::new();
        for g in &c.gates {
            for l in &g.ins {
                if let Some(n) = l.input_no() {
                    if n >= c.ninputs && !unknown.contains(&n) {
                        unknown.push(n);
                    }
                }
            }
        }
        unknown.sort_unstable();
        let nv = c.ninputs + unknown.len();
        assert!(nv <= Tt::<W>::max_vars(), "too many variables for the table width");
        let mut gate_unk = vec![0u32; ng];
        let mut reach = vec![0u64; ng];
        for (i, g) in c.gates.iter().enumerate() {
            for l in &g.ins {
                match *l {
                    ML::G(_, h) => {
                        assert!(h < ng, "model circuits only refer to existing gates");
                        reach[i] |= 1 << h;
                    }
                    _ => {
                        if let Some(n) = l.input_no() {
                            if n >= c.ninputs {
                                gate_unk[i] |= 1 << unknown.iter().position(|&u| u == n).unwrap();
                            }
                        }
                    }
                }
            }
        }
        // Warshall
        for k in 0..ng {
            for i in 0..ng {
                if reach[i] >> k & 1 == 1 {
                    reach[i] |= reach[k];
                }
            }
        }
        let on_cycle: Vec<bool> = (0..ng).map(|i| reach[i] >> i & 1 == 1).collect();
        let tainted: Vec<bool> =
            (0..ng).map(|i| on_cycle[i] || (0..ng).any(|h| reach[i] >> h & 1 == 1 && on_cycle[h])).collect();
        let mut an = Analysis { ninputs: c.ninputs, nv, unknown, gate_unk, reach, on_cycle, fun: vec![None; ng] };
        let mut done = vec![false; ng];
        for i in 0..ng {
            if !tainted[i] {
                an.eval_gate(c, i, &mut done);
            }
        }
        an
    }

    fn eval_gate(&mut self, c: &MCircuit, i: usize, done: &mut [bool]) -> Tt<W> {
        if done[i] {
            return self.fun[i].unwrap();
        }
        let g = &c.gates[i];
        let mut acc = if g.kind == 0 { Tt::ones(self.nv) } else { Tt::zero() };
        for &l in &g.ins {
            let t = match l {
                ML::G(neg, h) => self.eval_gate(c, h, done).neg_if(neg, self.nv),
                _ => self.leaf(l),
            };
            acc = match g.kind {
                0 => acc.and(t),
                1 => acc.or(t),
                _ => acc.xor(t),
            };
        }
        self.fun[i] = Some(acc);
        done[i] = true;
        acc
    }

    fn leaf(&self, l: ML) -> Tt<W> {
        match l {
            ML::C(b) => {
                if b {
                    Tt::ones(self.nv)
                } else {
                    Tt::zero()
                }
            }
            ML::G(..) => unreachable!(),
            _ => {
                let n = l.input_no().unwrap();
                let v = if n < self.ninputs {
                    n
                } else {
                    self.ninputs + self.unknown.iter().position(|&u| u == n).unwrap()
                };
                Tt::var(self.nv, v).neg_if(l.neg(), self.nv)
            }
        }
    }

    /// function of a literal (None if it is a gate from which a cycle is reachable)
    fn lit_fun(&self, l: ML) -> Option<Tt<W>> {
        match l {
            ML::G(neg, g) => self.fun[g].map(|t| t.neg_if(neg, self.nv)),
            _ => Some(self.leaf(l)),
        }
    }

    /// gates reachable from the roots (including root gates)
    fn reachable(&self, roots: &[ML]) -> u64 {
        let mut r = 0u64;
        for l in roots {
            if let ML::G(_, g) = *l {
                r |= 1 << g | self.reach[g];
            }
        }
        r
    }
}

// ------------------------------------------------------------------------------------------
// the simplify oracle
// ------------------------------------------------------------------------------------------

#[derive(Default)]
struct Stats {
    circuits: u64,
    calls: u64,
    ok: u64,
    errors_cycle: u64,
    errors_unknown_input: u64,
    panics: u64,
    out_gates: u64,
    collapsed_to_literal: u64,
}

impl Stats {
    fn flush(&self, ctx: &mut Ctx) {
        ctx.count("circuits", self.circuits);
        ctx.count("simplify_calls", self.calls);
        ctx.count("simplify_ok", self.ok);
        ctx.count("errors_cycle", self.errors_cycle);
        ctx.count("errors_unknown_input", self.errors_unknown_input);
        ctx.count("simplify_panics", self.panics);
        ctx.count("output_gates_checked", self.out_gates);
        ctx.count("gates_collapsed_to_literal_or_constant", self.collapsed_to_literal);
    }
}

fn show_new(nc: &Circuit, map: &[Literal]) -> String {
    let gates: Vec<String> = nc.iter_gates().map(|g| format!("{g:?}")).collect();
    format!("Ok(gates=[{}], map={:?})", gates.join(", "), map)
}

/// Evaluate the simplified circuit with our own interpreter. Err((sig, detail)) if it contains
/// literals that are not valid in it or is not topologically sorted (both documented).
fn eval_new<const W: usize>(nc: &Circuit, ninputs: usize, nv: usize) -> Result<Vec<Tt<W>>, (&'static str, String)> {
    let n = nc.num_gates();
    let mut funs: Vec<Tt<W>> = Vec::with_capacity(n);
    for i in 0..n {
        let g = nc.gate_for_no(i).unwrap();
        let kind = kind_no(g.kind);
        let mut acc = if kind == 0 { Tt::ones(nv) } else { Tt::zero() };
        for &l in g.inputs {
            let t = match ML::view(l) {
                ML::C(b) => {
                    if b {
                        Tt::ones(nv)
                    } else {
                        Tt::zero()
                    }
                }
                ML::In(neg, v) if v < ninputs => Tt::var(nv, v).neg_if(neg, nv),
                ML::G(neg, h) if h < i => funs[h].neg_if(neg, nv),
                ML::G(_, h) if h < n => {
                    return Err(("simplify:output-not-topologically-sorted", format!("gate {i} refers to gate {h}")));
                }
                other => {
                    return Err(("simplify:output-invalid-literal", format!("gate {i} has input {other}")));
                }
            };
            acc = match kind {
                0 => acc.and(t),
                1 => acc.or(t),
                _ => acc.xor(t),
            };
        }
        funs.push(acc);
    }
    Ok(funs)
}

/// One call of `simplify` on `oc` (built from `c`) with `roots`, checked against the model.
fn check_simplify<const W: usize>(
    ctx: &mut Ctx,
    st: &mut Stats,
    c: &MCircuit,
    an: &Analysis<W>,
    oc: &Circuit,
    roots: &[ML],
) {
    st.calls += 1;
    let ng = c.gates.len();
    let reach = an.reachable(roots);
    let cyc = (0..ng).any(|g| reach >> g & 1 == 1 && an.on_cycle[g]);
    let unk: u32 = (0..ng).filter(|&g| reach >> g & 1 == 1).fold(0, |m, g| m | an.gate_unk[g]);
    let oroots: Vec<Literal> = roots.iter().map(|l| l.lit()).collect();
    let wit = |res: &str| {
        let mut w = format!("{c} roots={roots:?} -> {res}");
        if w.len() > 900 {
            let mut cut = 900;
            while !w.is_char_boundary(cut) {
                cut -= 1;
            }
            w.truncate(cut);
            w.push_str("...");
        }
        w
    };

    let res = crate::ctx::catch(|| oc.simplify(oroots.iter().copied()));
    ctx.eval();
    let res = match res {
        Err(msg) => {
            st.panics += 1;
            let sig = if cyc || unk != 0 { "simplify:panic-instead-of-error" } else { "simplify:panic" };
            viol(ctx, sig, || wit(&format!("panic at {}: {msg}", panic_loc())));
            return;
        }
        Ok(r) => r,
    };

    match res {
        Err(l) => {
            let v = ML::view(l);
            match v {
                ML::G(_, g) => {
                    st.errors_cycle += 1;
                    if !cyc && unk == 0 {
                        viol(ctx, "simplify:spurious-error", || wit(&format!("Err({l})")));
                    } else if !(g < ng && reach >> g & 1 == 1 && an.on_cycle[g]) {
                        viol(ctx, "simplify:err-literal-not-on-reachable-cycle", || wit(&format!("Err({l})")));
                    }
                }
                ML::In(..) | ML::U(_) => {
                    st.errors_unknown_input += 1;
                    let n = v.input_no().unwrap();
                    let known = an.unknown.iter().position(|&u| u == n).is_some_and(|j| unk >> j & 1 == 1);
                    if !cyc && unk == 0 {
                        viol(ctx, "simplify:spurious-error", || wit(&format!("Err({l})")));
                    } else if !known {
                        viol(ctx, "simplify:err-literal-not-a-reachable-unknown-input", || wit(&format!("Err({l})")));
                    }
                }
                ML::C(_) => viol(ctx, "simplify:err-literal-constant", || wit(&format!("Err({l})"))),
            }
        }
        Ok((nc, map)) => {
            st.ok += 1;
            if cyc {
                viol(ctx, "simplify:cycle-accepted", || wit(&show_new(&nc, &map)));
                return;
            }
            if unk != 0 {
                // does some root function really depend on an unknown input?
                let dep = roots.iter().any(|r| {
                    let t = an.lit_fun(*r).unwrap();
                    (0..an.unknown.len()).any(|j| unk >> j & 1 == 1 && t.depends_on(an.nv, an.ninputs + j))
                });
                let sig = if dep { "simplify:unknown-input-accepted" } else { "simplify:unknown-input-reference-accepted" };
                viol(ctx, sig, || wit(&show_new(&nc, &map)));
                return;
            }
            verify_ok(ctx, st, c, an, roots, reach, &nc, &map, &wit);
        }
    }
}

fn verify_ok<const W: usize>(
    ctx: &mut Ctx,
    st: &mut Stats,
    c: &MCircuit,
    an: &Analysis<W>,
    roots: &[ML],
    reach: u64,
    nc: &Circuit,
    map: &[Literal],
    wit: &dyn Fn(&str) -> String,
) {
    let ng = c.gates.len();
    let nn = nc.num_gates();
    let nv = an.nv; // == ninputs here (no unknown input is reachable; unreachable ones are extra variables nobody depends on)
    let show = || wit(&show_new(nc, map));
    chk(ctx, nc.inputs().len() == c.ninputs, "simplify:inputs-changed", show);
    if !chk(ctx, map.len() == ng, "simplify:gate-map-wrong-length", show) {
        return;
    }

    // the five normal-form conditions, literally
    let mut seen: BTreeSet<(u8, Vec<ML>)> = BTreeSet::new();
    for i in 0..nn {
        let g = nc.gate_for_no(i).unwrap();
        let ins: Vec<ML> = g.inputs.iter().map(|&l| ML::view(l)).collect();
        st.out_gates += 1;
        chk(ctx, !ins.iter().any(|l| matches!(l, ML::C(_))), "simplify:nf1-constant-input", show);
        if g.kind == GateKind::Xor {
            chk(ctx, !ins.iter().any(|l| l.neg() && !matches!(l, ML::C(_))), "simplify:nf2-xor-negative-input", show);
        }
        let mut vars: Vec<ML> = ins.iter().map(|l| l.pos()).collect();
        vars.sort();
        chk(ctx, vars.windows(2).all(|w| w[0] != w[1]), "simplify:nf3-duplicate-input", show);
        chk(ctx, ins.len() >= 2, "simplify:nf4-fewer-than-two-inputs", show);
        let mut sorted = ins.clone();
        sorted.sort();
        chk(ctx, seen.insert((kind_no(g.kind), sorted)), "simplify:nf5-structurally-equal-gates", show);
    }

    // every output gate is the image of a gate reachable from the roots
    let mut image = vec![false; nn];
    for g in 0..ng {
        if reach >> g & 1 == 1 {
            if let ML::G(_, h) = ML::view(map[g]) {
                if h < nn {
                    image[h] = true;
                }
            }
        }
    }
    chk(ctx, image.iter().all(|&b| b), "simplify:output-gate-not-image-of-reachable-gate", show);

    // semantics
    let funs = match eval_new::<W>(nc, c.ninputs, nv) {
        Ok(f) => f,
        Err((sig, detail)) => {
            viol(ctx, sig, || format!("{} [{detail}]", show()));
            return;
        }
    };
    let new_fun = |l: Literal| -> Option<Tt<W>> {
        match ML::view(l) {
            ML::C(b) => Some(if b { Tt::ones(nv) } else { Tt::zero() }),
            ML::In(neg, v) if v < c.ninputs => Some(Tt::var(nv, v).neg_if(neg, nv)),
            ML::G(neg, h) if h < nn => Some(funs[h].neg_if(neg, nv)),
            _ => None,
        }
    };
    let is_root: u64 = roots.iter().fold(0, |m, r| if let ML::G(_, g) = *r { m | 1 << g } else { m });
    for g in 0..ng {
        if reach >> g & 1 == 0 {
            continue;
        }
        ctx.eval();
        if !matches!(ML::view(map[g]), ML::G(..)) {
            st.collapsed_to_literal += 1;
        }
        match new_fun(map[g]) {
            None => viol(ctx, "simplify:gate-map-invalid-literal", || format!("{} [gate {g}]", show())),
            Some(t) => {
                let want = an.fun[g].unwrap();
                if t != want {
                    let sig = if is_root >> g & 1 == 1 { "simplify:root-function-changed" } else { "simplify:gate-map-function-differs" };
                    viol(ctx, sig, || format!("{} [gate {g}: want {} got {}]", show(), want.hex(nv), t.hex(nv)));
                }
            }
        }
    }
    // roots through the documented `apply_gate_map`
    for r in roots {
        let nr = r.lit().apply_gate_map(map);
        let want = an.lit_fun(*r).unwrap();
        ctx.eval();
        match new_fun(nr) {
            Some(t) if t == want => {}
            Some(t) => viol(ctx, "simplify:root-function-changed", || format!("{} [root {r} -> {nr}: want {} got {}]", show(), want.hex(nv), t.hex(nv))),
            None => viol(ctx, "simplify:root-maps-to-invalid-literal", || format!("{} [root {r} -> {nr}]", show())),
        }
    }
}

/// All checks for one circuit: roots = every gate + every input + both constants, then every
/// single gate alone (reachability differs), alternating polarity.
fn check_circuit<const W: usize>(ctx: &mut Ctx, st: &mut Stats, c: &MCircuit, extra_roots: Option<&[ML]>) {
    st.circuits += 1;
    let an = Analysis::<W>::new(c);
    let oc = c.build();
    let ng = c.gates.len();
    let mut roots: Vec<ML> = (0..ng).map(|g| ML::G(false, g)).collect();
    roots.extend((0..c.ninputs).map(|i| ML::In(i % 2 == 1, i)));
    roots.push(ML::C(false));
    roots.push(ML::C(true));
    check_simplify(ctx, st, c, &an, &oc, &roots);
    if ng > 1 {
        for g in 0..ng {
            check_simplify(ctx, st, c, &an, &oc, &[ML::G(g % 2 == 1, g)]);
        }
    }
    if let Some(r) = extra_roots {
        check_simplify(ctx, st, c, &an, &oc, r);
    }
}

// ------------------------------------------------------------------------------------------
// c18_simplify_exh
// ------------------------------------------------------------------------------------------

/// constants, every input in both polarities, the unknown inputs `len`, `len+1` and UNDEF in
/// both polarities, every gate (self, backward and forward references) in both polarities
fn alphabet(ninputs: usize, ngates: usize) -> Vec<ML> {
    let mut a = vec![ML::C(false), ML::C(true)];
    for i in 0..ninputs + 2 {
        a.push(ML::In(false, i));
        a.push(ML::In(true, i));
    }
    a.push(ML::U(false));
    a.push(ML::U(true));
    for g in 0..ngates {
        a.push(ML::G(false, g));
        a.push(ML::G(true, g));
    }
    a
}

/// all (kind, literal sequence of length <= k) over the alphabet
fn gate_options(alpha: &[ML], k: usize) -> Vec<MGate> {
    let mut out = Vec::new();
    for kind in 0..3u8 {
        let mut cur: Vec<Vec<ML>> = vec![vec![]];
        for len in 0..=k {
            if len > 0 {
                let mut next = Vec::with_capacity(cur.len() * alpha.len());
                for p in &cur {
                    for &l in alpha {
                        let mut q = p.clone();
                        q.push(l);
                        next.push(q);
                    }
                }
                cur = next;
            }
            out.extend(cur.iter().map(|ins| MGate { kind, ins: ins.clone() }));
        }
    }
    out
}

fn exhaustive_space(ctx: &mut Ctx, st: &mut Stats, ninputs: usize, ngates: usize, k: usize, salt: usize) {
    let alpha = alphabet(ninputs, ngates);
    let opts = gate_options(&alpha, k);
    let p = opts.len();
    let mut c = MCircuit { ninputs, gates: vec![MGate::default(); ngates] };
    let mut idx = vec![0usize; ngates];
    let mut total = 0u64;
    for o0 in 0..p {
        if !ctx.mine(o0 + salt) {
            continue;
        }
        c.gates[0] = opts[o0].clone();
        idx[0] = o0;
        for i in idx.iter_mut().skip(1) {
            *i = 0;
        }
        'odo: loop {
            for g in 1..ngates {
                c.gates[g].kind = opts[idx[g]].kind;
                c.gates[g].ins.clear();
                c.gates[g].ins.extend_from_slice(&opts[idx[g]].ins);
            }
            check_circuit::<1>(ctx, st, &c, None);
            ctx.distinct((ninputs, k, &idx));
            total += 1;
            // next
            let mut g = ngates;
            loop {
                if g == 1 {
                    break 'odo;
                }
                g -= 1;
                idx[g] += 1;
                if idx[g] < p {
                    break;
                }
                idx[g] = 0;
            }
        }
    }
    ctx.count(&format!("exhaustive_I{ninputs}_G{ngates}_K{k}_circuits"), total);
    ctx.sample(|| {
        format!(
            "exhaustive: {ninputs} inputs, {ngates} gates, <= {k} literals per gate, alphabet {} literals, {} options per gate ({} circuits over all shards), e.g. {c}",
            alpha.len(),
            p,
            (p as f64).powi(ngates as i32)
        )
    });
}

fn sampled_space(ctx: &mut Ctx, st: &mut Stats, ngates: usize, k: usize, n: usize, tag: u64) {
    let mut rng = ctx.rng(tag);
    let per: Vec<(usize, Vec<MGate>)> = (0..=3).map(|i| (i, gate_options(&alphabet(i, ngates), k))).collect();
    for _ in 0..n {
        let (ninputs, opts) = rng.pick(&per);
        let idx: Vec<usize> = (0..ngates).map(|_| rng.usize(opts.len())).collect();
        let c = MCircuit { ninputs: *ninputs, gates: idx.iter().map(|&o| opts[o].clone()).collect() };
        check_circuit::<1>(ctx, st, &c, None);
        ctx.distinct((*ninputs, k, &idx));
    }
    ctx.count(&format!("sampled_G{ngates}_K{k}_circuits"), n as u64);
}

/// Exhaustive enumeration of small circuits (W = 1: <= 3 inputs + 3 unknown input numbers).
///
/// The space of the property (<= 3 inputs, <= 3 gates, <= 3 literals) has 1.6e13 members with
/// the full alphabet, so it is covered as follows:
///   quick:    exhaustive G=1/K<=3 and G=2/K<=2 (I = 0..=3); seeded samples (I = 0..=3) of
///             G=2/K<=3, G=3/K<=2, G=3/K<=3
///   thorough: additionally exhaustive G=2/K<=3 (I = 0..=2) and G=3/K<=2 (I = 0); larger samples
/// (G = gates, K = literals per gate, I = inputs; the alphabet always contains both constants,
/// every input, the unknown inputs I, I+1 and UNDEF, and every gate incl. self/forward
/// references, all in both polarities.)
pub fn simplify_exh(ctx: &mut Ctx) {
    quiet_hook();
    let mut st = Stats::default();
    println!("@@{{\"t\":\"case\",\"case\":{}}}", crate::ctx::json_str("simplify_exh"));
    for i in 0..=3 {
        exhaustive_space(ctx, &mut st, i, 1, 3, i);
        exhaustive_space(ctx, &mut st, i, 2, 2, 5 + i);
    }
    if ctx.quick() {
        sampled_space(ctx, &mut st, 2, 3, 200_000, 11);
        sampled_space(ctx, &mut st, 3, 2, 200_000, 12);
        sampled_space(ctx, &mut st, 3, 3, 200_000, 13);
    } else {
        for i in 0..=2 {
            exhaustive_space(ctx, &mut st, i, 2, 3, 9 + i);
        }
        exhaustive_space(ctx, &mut st, 0, 3, 2, 13);
        sampled_space(ctx, &mut st, 2, 3, 2_000_000, 11);
        sampled_space(ctx, &mut st, 3, 2, 3_000_000, 12);
        sampled_space(ctx, &mut st, 3, 3, 4_000_000, 13);
    }
    st.flush(ctx);
    restore_hook();
}

// ------------------------------------------------------------------------------------------
// c18_simplify_rand
// ------------------------------------------------------------------------------------------

fn random_circuit(rng: &mut Rng) -> (MCircuit, Vec<ML>) {
    let ninputs = rng.range(0, 8);
    let ngates = if rng.chance(1, 3) { rng.range(1, 6) } else { rng.range(1, 30) };
    let cyclic = rng.chance(1, 8);
    let with_unknown = rng.chance(1, 8);
    // at most two distinct unknown numbers so that 8 + 2 variables fit the table
    let unk_pool: Vec<ML> = match rng.usize(3) {
        0 => vec![ML::In(false, ninputs), ML::In(true, ninputs)],
        1 => vec![ML::In(false, ninputs), ML::U(false), ML::U(true)],
        _ => vec![ML::In(true, ninputs + 1 + rng.usize(5)), ML::In(false, ninputs)],
    };
    let const_rate = *rng.pick(&[0u64, 1, 1, 3]);
    let mut gates: Vec<MGate> = Vec::with_capacity(ngates);
    for g in 0..ngates {
        if g > 0 && rng.chance(1, 7) {
            // structurally equal (after normalisation) copy of an earlier gate
            let mut cp = gates[rng.usize(g)].clone();
            rng.shuffle(&mut cp.ins);
            if cp.kind == 2 && cp.ins.len() >= 2 && rng.bool() {
                cp.ins[0] = cp.ins[0].flip();
                cp.ins[1] = cp.ins[1].flip();
            }
            gates.push(cp);
            continue;
        }
        let kind = rng.usize(3) as u8;
        let len = if rng.chance(1, 10) { rng.range(0, 1) } else { rng.range(2, 6) };
        let mut ins: Vec<ML> = Vec::with_capacity(len);
        for _ in 0..len {
            let l = if !ins.is_empty() && rng.chance(1, 7) {
                let l = *rng.pick(&ins);
                if rng.bool() { l.flip() } else { l }
            } else if rng.chance(const_rate, 24) {
                ML::C(rng.bool())
            } else if with_unknown && rng.chance(1, 12) {
                *rng.pick(&unk_pool)
            } else if cyclic && rng.chance(1, 10) {
                ML::G(rng.bool(), rng.range(g, ngates - 1))
            } else if g > 0 && (ninputs == 0 || rng.chance(1, 2)) {
                let back = if rng.bool() { rng.usize(g.min(4)) } else { rng.usize(g) };
                ML::G(rng.bool(), g - 1 - back)
            } else if ninputs > 0 {
                ML::In(rng.bool(), rng.usize(ninputs))
            } else {
                ML::C(rng.bool())
            };
            ins.push(l);
        }
        gates.push(MGate { kind, ins });
    }
    let mut roots = vec![ML::G(rng.bool(), ngates - 1)];
    for g in 0..ngates {
        if rng.chance(1, 4) {
            roots.push(ML::G(rng.bool(), g));
        }
    }
    if ninputs > 0 && rng.bool() {
        roots.push(ML::In(rng.bool(), rng.usize(ninputs)));
    }
    rng.shuffle(&mut roots);
    (MCircuit { ninputs, gates }, roots)
}

/// Random circuits up to 8 inputs / 30 gates / 6 literals per gate (cyclic and unknown-input
/// variants included), same oracle, tables of 1024 bits.
pub fn simplify_rand(ctx: &mut Ctx) {
    quiet_hook();
    let mut st = Stats::default();
    let mut rng = ctx.rng(18);
    let n = ctx.by_tier(40_000, 1_500_000);
    println!("@@{{\"t\":\"case\",\"case\":{}}}", crate::ctx::json_str("simplify_rand"));
    for i in 0..n {
        let (c, roots) = random_circuit(&mut rng);
        if i < 2 {
            ctx.sample(|| format!("random: {c} roots={roots:?}"));
        }
        check_circuit::<16>(ctx, &mut st, &c, Some(&roots));
        ctx.distinct(&c);

        // Problem::simplify maps the root of the problem details with the same gate map
        if i % 8 == 0 {
            let an = Analysis::<16>::new(&c);
            let root = roots[0];
            let p = Problem { circuit: c.build(), details: ProblemDetails::Root(root.lit()) };
            if let Ok(Ok((np, _))) = crate::ctx::catch(|| p.simplify()) {
                let reach = an.reachable(&[root]);
                let clean = !(0..c.gates.len()).any(|g| reach >> g & 1 == 1 && (an.on_cycle[g] || an.gate_unk[g] != 0));
                if let (true, ProblemDetails::Root(nr)) = (clean, &np.details) {
                    let ok = match eval_new::<16>(&np.circuit, c.ninputs, an.nv) {
                        Ok(funs) => {
                            let got = match ML::view(*nr) {
                                ML::C(b) => Some(if b { Tt::ones(an.nv) } else { Tt::zero() }),
                                ML::In(neg, v) if v < c.ninputs => Some(Tt::var(an.nv, v).neg_if(neg, an.nv)),
                                ML::G(neg, h) if h < funs.len() => Some(funs[h].neg_if(neg, an.nv)),
                                _ => None,
                            };
                            got == an.lit_fun(root)
                        }
                        Err(_) => false,
                    };
                    chk(ctx, ok, "problem-simplify:root-function-changed", || format!("{c} root={root} -> {:?}", np.details));
                }
            }
        }
    }

    // Not asserted (the rustdoc is silent): references to gates that do not exist.
    for i in 0..200 {
        let (mut c, _) = random_circuit(&mut rng);
        let ng = c.gates.len();
        let g = rng.usize(ng);
        let bad = ML::G(rng.bool(), ng + if i % 2 == 0 { 0 } else { 5 });
        c.gates[g].ins.push(bad);
        let oc = c.build();
        match crate::ctx::catch(|| oc.simplify((0..ng).map(|g| Literal::from_gate(false, g)))) {
            Err(_) => ctx.count("unasserted_unknown_gate_ref_panic", 1),
            Ok(Err(_)) => ctx.count("unasserted_unknown_gate_ref_err", 1),
            Ok(Ok(_)) => ctx.count("unasserted_unknown_gate_ref_ok", 1),
        }
    }
    st.flush(ctx);
    restore_hook();
}


// ------------------------------------------------------------------------------------------
// c18_parsers: infrastructure
// ------------------------------------------------------------------------------------------


#[derive(Clone, Copy, PartialEq, Eq, Hash, Debug)]
enum Fmt {
    Dimacs,
    Aiger,
    Nnf,
}

impl Fmt {
    fn name(self) -> &'static str {
        match self {
            Fmt::Dimacs => "dimacs",
            Fmt::Aiger => "aiger",
            Fmt::Nnf => "nnf",
        }
    }
    fn file_type(self) -> FileType {
        match self {
            Fmt::Dimacs => FileType::DIMACS,
            Fmt::Aiger => FileType::AIGER,
            Fmt::Nnf => FileType::NNF,
        }
    }
}

fn opts(var_order: bool, clause_tree: bool, check_acyclic: bool) -> ParseOptions {
    ParseOptionsBuilder::default()
        .var_order(var_order)
        .clause_tree(clause_tree)
        .check_acyclic(check_acyclic)
        .build()
        .unwrap()
}

/// option sets that matter per format: (var_order, clause_tree, check_acyclic)
fn option_sets(fmt: Fmt) -> Vec<(bool, bool, bool)> {
    match fmt {
        Fmt::Dimacs => vec![(false, false, true), (true, false, true), (false, true, true), (true, true, true)],
        Fmt::Aiger => vec![(false, false, true), (false, false, false)],
        Fmt::Nnf => vec![(false, false, true), (true, false, true), (false, false, false), (true, false, false)],
    }
}

enum Outcome {
    Ok(Box<Problem>),
    /// first diagnostic message
    Err(String),
    Panic(String),
}

fn describe(e: nom::Err<VerboseError<&[u8]>>) -> String {
    match e {
        nom::Err::Incomplete(_) => "incomplete".into(),
        nom::Err::Error(e) | nom::Err::Failure(e) => {
            for (_, k) in &e.errors {
                if let VerboseErrorKind::Context(m) = k {
                    return (*m).to_string();
                }
            }
            match e.errors.first() {
                Some((_, k)) => format!("{k:?}"),
                None => "empty error".into(),
            }
        }
    }
}

/// the nom entry point of the respective module
fn parse_raw(fmt: Fmt, o: &ParseOptions, bytes: &[u8]) -> Outcome {
    let r = crate::ctx::catch(|| match fmt {
        Fmt::Dimacs => oxidd_parser::dimacs::parse::<VerboseError<&[u8]>>(o)(bytes).map(|(_, p)| p).map_err(describe),
        Fmt::Aiger => {
            let mut f = oxidd_parser::aiger::parse::<VerboseError<&[u8]>>(o);
            f(bytes).map(|(_, p)| p).map_err(describe)
        }
        Fmt::Nnf => {
            let mut f = oxidd_parser::nnf::parse::<VerboseError<&[u8]>>(o);
            f(bytes).map(|(_, p)| p).map_err(describe)
        }
    });
    match r {
        Err(msg) => Outcome::Panic(format!("{} ({msg})", panic_loc())),
        Ok(Ok(p)) => Outcome::Ok(Box::new(p)),
        Ok(Err(m)) => Outcome::Err(m),
    }
}

/// `oxidd_parser::parse`: the entry point that renders a diagnostic
fn parse_diag(fmt: Fmt, o: &ParseOptions, bytes: &[u8]) -> Result<(Option<Problem>, usize), String> {
    use codespan_reporting::term::termcolor::NoColor;
    crate::ctx::catch(|| {
        let mut w = NoColor::new(Vec::<u8>::new());
        let cfg = codespan_reporting::term::Config::default();
        let p = oxidd_parser::parse(bytes, fmt.file_type(), o, "input", &mut w, &cfg);
        (p, w.into_inner().len())
    })
    .map_err(|msg| format!("{} ({msg})", panic_loc()))
}

fn show_bytes(b: &[u8]) -> String {
    let mut s = String::new();
    for &c in b.iter().take(400) {
        match c {
            b'\n' => s.push_str("\\n"),
            b'\r' => s.push_str("\\r"),
            b'\\' => s.push_str("\\\\"),
            0x20..=0x7e => s.push(c as char),
            _ => {
                let _ = write!(s, "\\x{c:02x}");
            }
        }
    }
    if b.len() > 400 {
        let _ = write!(s, "...({} bytes)", b.len());
    }
    s
}

#[derive(Default)]
struct PStats {
    inputs: u64,
    ok: u64,
    errors: u64,
    panics: u64,
    skipped: u64,
}

impl PStats {
    fn flush(&self, ctx: &mut Ctx) {
        ctx.count("parser_inputs", self.inputs);
        ctx.count("parser_ok", self.ok);
        ctx.count("parser_errors", self.errors);
        ctx.count("parser_panics", self.panics);
        ctx.count("parser_inputs_skipped_by_allocation_guard", self.skipped);
    }
}

/// Header-declared sizes drive `Vec::with_capacity`/`resize` in all three parsers; a count
/// between 2^16 and 2^60 makes the allocator abort the process (not a panic, and the driver
/// cannot tell it from a host problem). Such inputs are left out of the in-process fuzzing.
fn alloc_guard_ok(bytes: &[u8]) -> bool {
    let mut i = 0;
    while i < bytes.len() {
        if bytes[i].is_ascii_digit() {
            let s = i;
            while i < bytes.len() && bytes[i].is_ascii_digit() {
                i += 1;
            }
            let mut s = s;
            while s < i && bytes[s] == b'0' {
                s += 1;
            }
            if i - s <= 19 {
                let mut v = 0u64;
                for &d in &bytes[s..i] {
                    v = v * 10 + (d - b'0') as u64;
                }
                if v > 65_536 && v < (1u64 << 60) {
                    return false;
                }
            }
        } else {
            i += 1;
        }
    }
    true
}

/// Feed one input to both entry points; the only requirement is "no panic" (plus agreement
/// of the two entry points on success/failure and the problem itself).
fn fuzz_one(ctx: &mut Ctx, ps: &mut PStats, fmt: Fmt, os: (bool, bool, bool), bytes: &[u8]) {
    if !alloc_guard_ok(bytes) {
        ps.skipped += 1;
        return;
    }
    let o = opts(os.0, os.1, os.2);
    ps.inputs += 1;
    ctx.eval();
    let raw = parse_raw(fmt, &o, bytes);
    let class = match &raw {
        Outcome::Ok(_) => {
            ps.ok += 1;
            "ok".to_string()
        }
        Outcome::Err(m) => {
            ps.errors += 1;
            m.clone()
        }
        Outcome::Panic(m) => {
            ps.panics += 1;
            viol(ctx, &format!("{}:panic", fmt.name()), || format!("opts(var_order={},clause_tree={},check_acyclic={}) input \"{}\": {m}", os.0, os.1, os.2, show_bytes(bytes)));
            "panic".to_string()
        }
    };
    ctx.distinct((fmt, os, &class, crate::rng::hash64(bytes)));
    ctx.eval();
    match parse_diag(fmt, &o, bytes) {
        Err(m) => {
            if !matches!(raw, Outcome::Panic(_)) {
                ps.panics += 1;
                viol(ctx, &format!("{}:diagnostic-panic", fmt.name()), || format!("opts(var_order={},clause_tree={},check_acyclic={}) input \"{}\": {m}", os.0, os.1, os.2, show_bytes(bytes)));
            }
        }
        Ok((p, diag_len)) => {
            let agree = match (&raw, &p) {
                (Outcome::Ok(a), Some(b)) => **a == *b,
                (Outcome::Err(_), None) => diag_len > 0,
                (Outcome::Panic(_), _) => true,
                _ => false,
            };
            if !agree {
                viol(ctx, &format!("{}:entry-points-disagree", fmt.name()), || format!("input \"{}\": nom entry point {class}, parse() returned {} with {diag_len} bytes of diagnostics", show_bytes(bytes), if p.is_some() { "Some" } else { "None" }));
            }
        }
    }
}

// ------------------------------------------------------------------------------------------
// corpus (samples from the crate's own tests + a few more features)
// ------------------------------------------------------------------------------------------

fn corpus() -> Vec<(Fmt, &'static str, Vec<u8>)> {
    let d = |n: &'static str, s: &str| (Fmt::Dimacs, n, s.as_bytes().to_vec());
    let a = |n: &'static str, s: &[u8]| (Fmt::Aiger, n, s.to_vec());
    let n = |nm: &'static str, s: &str| (Fmt::Nnf, nm, s.as_bytes().to_vec());
    vec![
        d("example_cnf", "c Example CNF format file\nc\np cnf 4 3\n1 3 -4 0\n4 0 2\n-3"),
        d("example_cnf_0term", "c Example CNF format file\nc\np cnf 4 3\n1 3 -4 0\n4 0 2\n-3 0"),
        d("empty_cnf", "p cnf 0 0\n"),
        d("xcnf", "p cnf 3 3\nx1 2 0\nx -1 3 0\n1 -2 3 0\n"),
        d("cnf_order", "c 1 a\nc 3 c c\nc 2 b\nc 4\np cnf 4 3\n1 3 -4 0\n4 0 2\n-3 0\n"),
        d("cnf_order_tree", "c vo [[1, 2], [4, [3]]]\nc 2 foo\nc co [[0, 1], 2]\np cnf 4 3\n1 3 -4 0\n4 0 2\n-3 0\n"),
        d("cnf_names_then_order_tree", "c 2 foo\nc 1 bar\nc vo [[1, 2], [4, [3]]]\nc 4 baz\np cnf 4 3\n1 3 -4 0\n4 0 2\n-3 0\n"),
        d("cnf_linear_then_order_tree", "c 3\nc 1 a\nc 2\nc vo [3, [2, 1]]\np cnf 3 1\n1 2 3 0\n"),
        d("cnf_clause_tree", "c co [2, [0, 1]]\np cnf 2 3\n1 2 0\n-1 0\n-2 1 0\n"),
        d("example_sat", "c Sample SAT format\nc\np sat 4\n(*(+(1 3 -4)\n    +(4)\n    +(2 3)))"),
        d("satx", "p satx 3 \n xor(1 -2 *(3 -1) +())"),
        d("sate", "p sate 2\n=(1 -(+(2 1)))\n"),
        d("satex", "c 2 y\nc 1 x\np satex 2\n*(=(1 2) xor(1 2) -(-1) *())\n"),
        a("aag_empty", b"aag 0 0 0 0 0\n"),
        a("aig_empty", b"aig 0 0 0 0 0\n"),
        a("aag_true", b"aag 0 0 0 1 0\n1\n"),
        a("aag_and", b"aag 3 2 0 1 1\n2\n4\n6\n6 4 2\n"),
        a("aig_and", b"aig 3 2 0 1 1\n6\n\x02\x02"),
        a("aag_or", b"aag 3 2 0 1 1\n2\n4\n7\n6 5 3\n"),
        a("aig_or", b"aig 3 2 0 1 1\n7\n\x01\x02"),
        a("aag_half_adder", b"aag 7 2 0 2 3\n2\n4\n6\n12\n6 13 15\n12 2 4\n14 3 5\ni0 x\ni1 y\no0 s\no1 c\nc\nhalf adder\n"),
        a("aig_half_adder", b"aig 5 2 0 2 3\n10\n6\n\x02\x02\x03\x02\x01\x02i0 x\ni1 y\no0 s\no1 c\nc\nhalf adder\n"),
        a("aag_toggle", b"aag 1 0 1 2 0\n2 3\n2\n3\n"),
        a("aig_toggle", b"aig 1 0 1 2 0\n3\n2\n3\n"),
        a("aag_toggle_reset", b"aag 7 2 1 2 4\n2\n4\n6 8\n6\n7\n8 4 10\n10 13 15\n12 2 6\n14 3 7\ni0 toggle\ni1 ~reset\no0 q\no1 ~q\nl0 q\nc foobar\n"),
        a("aig_toggle_reset", b"aig 7 2 1 2 4\n14\n6\n7\n\x02\x04\x03\x04\x01\x02\x02\x08"),
        a("aag_bad_inv", b"aag 5 1 1 0 3 1 1\n2\n4 10 0\n4\n3\n6 5 3\n8 4 2\n10 9 7\n"),
        a("aig_bad_inv", b"aig 5 1 1 0 3 1 1\n10 0\n4\n3\n\x01\x02\x04\x02\x01\x02"),
        a("aag_extra", b"aag 3 2 0 1 1 1 1 2 1\n2\n4\n6\n2\n3\n1\n2\n1\n4\n5\n6\n6 4 2\nb0 bad\nc0 inv\nj1 just\nf0 fair\n"),
        a("aig_extra", b"aig 3 2 0 1 1 1 1 2 1\n6\n2\n3\n1\n2\n1\n4\n5\n6\n\x02\x02b0 bad\nc0 inv\nj1 just\nf0 fair\n"),
        a("aag_latch_uninit", b"aag 3 1 2 1 0\n2\n4 2 4\n6 5 1\n6\nl1 second\n"),
        n("c2d_example", "nnf 15 17 4\nL -3\nL -2\nL 1\nA 3 2 1 0\nL 3\nO 3 2 4 3\nL -4\nA 2 6 5\nL 4\nA 2 2 8\nA 2 1 4\nL 2\nO 2 2 11 10\nA 2 12 9\nO 4 2 13 7\n"),
        n("nnf_ext", "c 2 b\nc 1 a\nnnf 7 6 2\nl 1\nL -2\nx 2 0 1\nB 0\nO 0 0\no 0 3 2 3 4\na 2 5 0\n"),
        n("nnf_tree", "c vo [2, [1, 3]]\nc 3 z\nnnf 4 3 3\nL 1\nL 2\nL -3\nA 3 0 1 2\n"),
        n("nnf_forward", "nnf 3 2 1\nA 1 2\nL 1\nO 0 2 0 1\n"),
    ]
}

// ------------------------------------------------------------------------------------------
// mutations
// ------------------------------------------------------------------------------------------

const HUGE: [&str; 10] = [
    "1152921504606846976",    // 2^60 = MAX_CAPACITY + 1
    "9223372036854775807",    // 2^63 - 1
    "9223372036854775808",    // 2^63
    "18446744073709551615",   // 2^64 - 1
    "18446744073709551616",   // 2^64
    "100000000000000000000",  // 10^20
    "340282366920938463463374607431768211456", // 2^128
    "99999999999999999999999999999999999999999999",
    "4611686018427387904",    // 2^62
    "13835058055282163712",   // 3 * 2^62
];
const MODERATE: [&str; 10] = ["0", "1", "2", "3", "7", "255", "256", "4096", "65535", "65536"];
const BYTES: [u8; 24] = [
    0, 0xff, 0x80, 0x7f, b'\n', b'\r', b' ', b'\t', b'-', b'0', b'1', b'9', b'[', b']', b',', b'(', b')', b'c', b'x', b'p', b'=', b'*', b'+', b'a',
];
const SNIPPETS: [&[u8]; 22] = [
    b"\r\n", b"\0", b"\xff\xfe", b"\xc3\x28", b"\xf0\x9f", b"c vo []\n", b"c co []\n", b"c vo [1]\n", b"c co [0]\n", b"c 1 a\n", b"c 1\n", b"c\n", b" ", b"\t",
    b"-", b"--", b"x", b"0\n", b"i0 n\n", b"l0 n\n", b"c0 n\n", b"\xe2\x82\xac",
];

/// positions of maximal digit runs
fn digit_runs(b: &[u8]) -> Vec<(usize, usize)> {
    let mut v = Vec::new();
    let mut i = 0;
    while i < b.len() {
        if b[i].is_ascii_digit() {
            let s = i;
            while i < b.len() && b[i].is_ascii_digit() {
                i += 1;
            }
            v.push((s, i));
        } else {
            i += 1;
        }
    }
    v
}

fn lines_of(b: &[u8]) -> Vec<(usize, usize)> {
    let mut v = Vec::new();
    let mut s = 0;
    for (i, &c) in b.iter().enumerate() {
        if c == b'\n' {
            v.push((s, i + 1));
            s = i + 1;
        }
    }
    if s < b.len() {
        v.push((s, b.len()));
    }
    v
}

fn mutate(rng: &mut Rng, base: &[u8]) -> Vec<u8> {
    let mut b = base.to_vec();
    let rounds = if rng.chance(3, 5) { 1 } else { rng.range(2, 4) };
    for _ in 0..rounds {
        if b.is_empty() {
            b.push(*rng.pick(&BYTES));
            continue;
        }
        match rng.usize(16) {
            0 => {
                let i = rng.usize(b.len());
                b[i] ^= 1 << rng.usize(8);
            }
            1 => {
                let i = rng.usize(b.len());
                b[i] = *rng.pick(&BYTES);
            }
            2 => {
                let i = rng.usize(b.len());
                b[i] = rng.below(256) as u8;
            }
            3 | 4 => {
                // digit edit
                let runs = digit_runs(&b);
                if let Some(&(s, e)) = runs.get(rng.usize(runs.len().max(1))) {
                    let i = rng.range(s, e - 1);
                    b[i] = b'0' + rng.below(10) as u8;
                }
            }
            5 | 6 | 7 => {
                // replace a number
                let runs = digit_runs(&b);
                if let Some(&(s, e)) = runs.get(rng.usize(runs.len().max(1))) {
                    let old: u64 = std::str::from_utf8(&b[s..e]).unwrap().parse().unwrap_or(9);
                    let new: String = match rng.usize(6) {
                        0 | 1 => (*rng.pick(&HUGE)).to_string(),
                        2 => (*rng.pick(&MODERATE)).to_string(),
                        3 => old.saturating_add(1).to_string(),
                        4 => old.saturating_sub(1).to_string(),
                        _ => (old.wrapping_mul(2) % 60_000).to_string(),
                    };
                    b.splice(s..e, new.into_bytes());
                }
            }
            8 => {
                // delete a range
                let s = rng.usize(b.len());
                let e = (s + rng.range(1, 6)).min(b.len());
                b.drain(s..e);
            }
            9 => {
                // duplicate a range
                let s = rng.usize(b.len());
                let e = (s + rng.range(1, 12)).min(b.len());
                let part = b[s..e].to_vec();
                b.splice(e..e, part);
            }
            10 => {
                let i = rng.range(0, b.len());
                let sn = *rng.pick(&SNIPPETS);
                b.splice(i..i, sn.iter().copied());
            }
            11 => {
                // \n -> \r\n (one or all)
                let all = rng.bool();
                let nl: Vec<usize> = b.iter().enumerate().filter(|(_, c)| **c == b'\n').map(|(i, _)| i).collect();
                if !nl.is_empty() {
                    let pick = *rng.pick(&nl);
                    for &i in nl.iter().rev() {
                        if all || i == pick {
                            b.insert(i, b'\r');
                        }
                    }
                }
            }
            12 => {
                // delete a line
                let ls = lines_of(&b);
                let (s, e) = *rng.pick(&ls);
                b.drain(s..e);
            }
            13 => {
                // duplicate / move a line
                let ls = lines_of(&b);
                let (s, e) = *rng.pick(&ls);
                let line = b[s..e].to_vec();
                let (t, _) = *rng.pick(&ls);
                b.splice(t..t, line);
            }
            14 => {
                // swap two lines
                let ls = lines_of(&b);
                if ls.len() >= 2 {
                    let i = rng.usize(ls.len() - 1);
                    let (s1, e1) = ls[i];
                    let (s2, e2) = ls[i + 1];
                    let mut seg = b[s2..e2].to_vec();
                    if !seg.ends_with(b"\n") {
                        seg.push(b'\n');
                    }
                    seg.extend_from_slice(&b[s1..e1]);
                    b.splice(s1..e2, seg);
                }
            }
            _ => {
                // truncate at a random place
                let i = rng.usize(b.len());
                b.truncate(i);
            }
        }
    }
    b
}

/// (a) no-panic fuzzing: all truncations + seeded mutations of the corpus and of generated files
fn fuzz_corpus(ctx: &mut Ctx, ps: &mut PStats, files: &[(Fmt, String, Vec<u8>)], n_mut: usize) {
    for (fi, (fmt, name, bytes)) in files.iter().enumerate() {
        println!("@@{{\"t\":\"case\",\"case\":{}}}", crate::ctx::json_str(&format!("parser fuzz: {} file {name}", fmt.name())));
        let sets = option_sets(*fmt);
        // truncations are deterministic: shard them by file
        if ctx.mine(fi) {
            for os in &sets {
                for len in 0..=bytes.len() {
                    fuzz_one(ctx, ps, *fmt, *os, &bytes[..len]);
                }
                // and every suffix (file starting in the middle)
                for s in 1..bytes.len() {
                    fuzz_one(ctx, ps, *fmt, *os, &bytes[s..]);
                }
            }
            ctx.count("truncation_sweeps", 1);
        }
        let mut rng = ctx.rng(1000 + fi as u64);
        for i in 0..n_mut {
            let m = mutate(&mut rng, bytes);
            fuzz_one(ctx, ps, *fmt, sets[i % sets.len()], &m);
        }
    }
    // cross-format: every file to every other parser
    for (fmt, _, bytes) in files.iter() {
        for other in [Fmt::Dimacs, Fmt::Aiger, Fmt::Nnf] {
            if other != *fmt {
                fuzz_one(ctx, ps, other, option_sets(other)[1], bytes);
            }
        }
    }
}


// ------------------------------------------------------------------------------------------
// reading parsed problems with our own interpreter
// ------------------------------------------------------------------------------------------

type T16 = Tt<16>;

/// truth tables of all gates of a parsed circuit (None if it is cyclic / refers to unknown things)
fn eval_parsed(c: &Circuit) -> Option<Vec<T16>> {
    let nv = c.inputs().len();
    if nv > T16::max_vars() {
        return None;
    }
    let n = c.num_gates();
    let mut funs: Vec<Option<T16>> = vec![None; n];
    let mut state = vec![0u8; n];
    fn rec(c: &Circuit, nv: usize, i: usize, funs: &mut Vec<Option<T16>>, state: &mut Vec<u8>) -> Option<T16> {
        if state[i] == 2 {
            return funs[i];
        }
        if state[i] == 1 {
            return None;
        }
        state[i] = 1;
        let g = c.gate_for_no(i)?;
        let kind = kind_no(g.kind);
        let mut acc = if kind == 0 { T16::ones(nv) } else { T16::zero() };
        for &l in g.inputs {
            let t = match ML::view(l) {
                ML::C(b) => {
                    if b {
                        T16::ones(nv)
                    } else {
                        T16::zero()
                    }
                }
                ML::In(neg, v) if v < nv => T16::var(nv, v).neg_if(neg, nv),
                ML::G(neg, h) if h < funs.len() => rec(c, nv, h, funs, state)?.neg_if(neg, nv),
                _ => return None,
            };
            acc = match kind {
                0 => acc.and(t),
                1 => acc.or(t),
                _ => acc.xor(t),
            };
        }
        funs[i] = Some(acc);
        state[i] = 2;
        Some(acc)
    }
    for i in 0..n {
        rec(c, nv, i, &mut funs, &mut state)?;
    }
    funs.into_iter().collect()
}

fn parsed_lit_fun(c: &Circuit, funs: &[T16], l: Literal) -> Option<T16> {
    let nv = c.inputs().len();
    match ML::view(l) {
        ML::C(b) => Some(if b { T16::ones(nv) } else { T16::zero() }),
        ML::In(neg, v) if v < nv => Some(T16::var(nv, v).neg_if(neg, nv)),
        ML::G(neg, h) if h < funs.len() => Some(funs[h].neg_if(neg, nv)),
        _ => None,
    }
}

fn random_name(rng: &mut Rng, uniq: usize) -> String {
    const PARTS: [&str; 10] = ["x", "foo", "~reset", "a b", "q[3]", "\u{e4}\u{20ac}", "n-1", "c", "0", "A.B"];
    format!("{}{}", rng.pick(&PARTS), uniq)
}

fn ws(rng: &mut Rng) -> &'static str {
    *rng.pick(&[" ", " ", " ", "  ", "\t", "\n", " \n", "\n  "])
}

// ------------------------------------------------------------------------------------------
// (b) AIGER: ascii / binary equivalence and semantics
// ------------------------------------------------------------------------------------------

struct Aig {
    i: usize,
    l: usize,
    /// (rhs0, rhs1) AIGER literals with lhs > rhs0 >= rhs1; gate k defines variable i+l+1+k
    ands: Vec<(usize, usize)>,
    latch_next: Vec<usize>,
    latch_init: Vec<Option<bool>>,
    outputs: Vec<usize>,
    bad: Vec<usize>,
    inv: Vec<usize>,
    justice: Vec<Vec<usize>>,
    fair: Vec<usize>,
    /// symbol table: (kind char, index, name)
    symbols: Vec<(char, usize, String)>,
    comment: Option<String>,
}

impl Aig {
    fn random(rng: &mut Rng) -> Aig {
        let i = rng.range(0, 5);
        let l = if rng.chance(1, 3) { 0 } else { rng.range(1, 4) };
        let na = if rng.chance(1, 6) { 0 } else { rng.range(1, 14) };
        let mut ands = Vec::new();
        for k in 0..na {
            let lhs = 2 * (i + l + 1 + k);
            let a = rng.usize(lhs);
            let b = rng.usize(lhs);
            ands.push((a.max(b), a.min(b)));
        }
        let maxlit = 2 * (i + l + na) + 1;
        let mut lit = |rng: &mut Rng| if rng.chance(1, 12) { rng.usize(2) } else { rng.range(0, maxlit) };
        let latch_next = (0..l).map(|_| lit(rng)).collect();
        let latch_init = (0..l).map(|_| *rng.pick(&[Some(false), Some(false), Some(true), None])).collect();
        let list = |rng: &mut Rng, lit: &mut dyn FnMut(&mut Rng) -> usize, p: u64| -> Vec<usize> {
            if rng.chance(p, 4) { (0..rng.range(1, 3)).map(|_| lit(rng)).collect() } else { vec![] }
        };
        let outputs = list(rng, &mut lit, 3);
        let bad = list(rng, &mut lit, 1);
        let inv = list(rng, &mut lit, 1);
        let justice: Vec<Vec<usize>> = if rng.chance(1, 4) {
            (0..rng.range(1, 3)).map(|_| (0..rng.range(0, 3)).map(|_| lit(rng)).collect()).collect()
        } else {
            vec![]
        };
        let fair = list(rng, &mut lit, 1);
        let mut symbols = Vec::new();
        if rng.chance(2, 3) {
            let mut u = 0;
            for (k, n) in [('i', i), ('l', l), ('o', outputs.len()), ('b', bad.len()), ('c', inv.len()), ('j', justice.len()), ('f', fair.len())] {
                for idx in 0..n {
                    if rng.chance(1, 2) {
                        u += 1;
                        symbols.push((k, idx, random_name(rng, u)));
                    }
                }
            }
        }
        let comment = if rng.chance(1, 3) { Some("generated by vh\nsecond line 12 34".to_string()) } else { None };
        Aig { i, l, ands, latch_next, latch_init, outputs, bad, inv, justice, fair, symbols, comment }
    }

    fn header(&self, tag: &str, m: usize) -> String {
        let mut h = format!("{tag} {m} {} {} {} {}", self.i, self.l, self.outputs.len(), self.ands.len());
        let ext = [self.bad.len(), self.inv.len(), self.justice.len(), self.fair.len()];
        let last = ext.iter().rposition(|&n| n > 0).map_or(0, |p| p + 1);
        for n in &ext[..last] {
            let _ = write!(h, " {n}");
        }
        h.push('\n');
        h
    }

    fn init_suffix(&self, j: usize, latch_lit: usize, rng: &mut Rng) -> String {
        match self.latch_init[j] {
            Some(false) => {
                if rng.bool() {
                    String::new()
                } else {
                    " 0".into()
                }
            }
            Some(true) => " 1".into(),
            None => format!(" {latch_lit}"),
        }
    }

    fn tail(&self, out: &mut Vec<u8>) {
        for (k, idx, name) in &self.symbols {
            out.extend_from_slice(format!("{k}{idx} {name}\n").as_bytes());
        }
        if let Some(c) = &self.comment {
            out.extend_from_slice(format!("c\n{c}\n").as_bytes());
        }
    }

    fn props(&self, out: &mut Vec<u8>, map: &dyn Fn(usize) -> usize) {
        let mut line = |x: usize| out.extend_from_slice(format!("{x}\n").as_bytes());
        for &o in &self.outputs {
            line(map(o));
        }
        for &o in &self.bad {
            line(map(o));
        }
        for &o in &self.inv {
            line(map(o));
        }
        for j in &self.justice {
            line(j.len());
        }
        for j in &self.justice {
            for &o in j {
                line(map(o));
            }
        }
        for &o in &self.fair {
            line(map(o));
        }
    }

    /// canonical ascii file (same numbering as the binary one)
    fn write_ascii(&self, rng: &mut Rng) -> Vec<u8> {
        let m = self.i + self.l + self.ands.len();
        let mut out = self.header("aag", m).into_bytes();
        for k in 0..self.i {
            out.extend_from_slice(format!("{}\n", 2 * (k + 1)).as_bytes());
        }
        for j in 0..self.l {
            let ll = 2 * (self.i + 1 + j);
            out.extend_from_slice(format!("{ll} {}{}\n", self.latch_next[j], self.init_suffix(j, ll, rng)).as_bytes());
        }
        self.props(&mut out, &|x| x);
        for (k, &(a, b)) in self.ands.iter().enumerate() {
            out.extend_from_slice(format!("{} {a} {b}\n", 2 * (self.i + self.l + 1 + k)).as_bytes());
        }
        self.tail(&mut out);
        out
    }

    fn write_binary(&self, rng: &mut Rng) -> Vec<u8> {
        let m = self.i + self.l + self.ands.len();
        let mut out = self.header("aig", m).into_bytes();
        for j in 0..self.l {
            let ll = 2 * (self.i + 1 + j);
            out.extend_from_slice(format!("{}{}\n", self.latch_next[j], self.init_suffix(j, ll, rng)).as_bytes());
        }
        self.props(&mut out, &|x| x);
        let mut enc = |mut x: usize| {
            while x >= 0x80 {
                out.push((x & 0x7f) as u8 | 0x80);
                x >>= 7;
            }
            out.push(x as u8);
        };
        for (k, &(a, b)) in self.ands.iter().enumerate() {
            let lhs = 2 * (self.i + self.l + 1 + k);
            enc(lhs - a);
            enc(a - b);
        }
        self.tail(&mut out);
        out
    }

    /// ascii file with scrambled variable numbers, unused variables, gate lines in random
    /// order (forward references) and arbitrary operand order; returns (bytes, var renaming)
    fn write_ascii_scrambled(&self, rng: &mut Rng) -> (Vec<u8>, Vec<usize>) {
        let n = self.i + self.l + self.ands.len();
        let m = n + rng.range(0, 3);
        let mut pool: Vec<usize> = (1..=m).collect();
        rng.shuffle(&mut pool);
        let mut ren = vec![0usize; n + 1];
        ren[1..(n + 1)].copy_from_slice(&pool[..n]);
        let ren2 = ren.clone();
        let map = move |x: usize| 2 * ren2[x >> 1] + (x & 1);
        let mut out = self.header("aag", m).into_bytes();
        for k in 0..self.i {
            out.extend_from_slice(format!("{}\n", map(2 * (k + 1))).as_bytes());
        }
        for j in 0..self.l {
            let ll = map(2 * (self.i + 1 + j));
            out.extend_from_slice(format!("{ll} {}{}\n", map(self.latch_next[j]), self.init_suffix(j, ll, rng)).as_bytes());
        }
        self.props(&mut out, &map);
        let mut order: Vec<usize> = (0..self.ands.len()).collect();
        rng.shuffle(&mut order);
        for k in order {
            let (a, b) = self.ands[k];
            let (a, b) = if rng.bool() { (a, b) } else { (b, a) };
            out.extend_from_slice(format!("{} {} {}\n", map(2 * (self.i + self.l + 1 + k)), map(a), map(b)).as_bytes());
        }
        self.tail(&mut out);
        (out, ren)
    }

    /// truth tables of all AIG variables (index = variable number) over inputs + latches
    fn tables(&self) -> Vec<T16> {
        let nv = self.i + self.l;
        let mut t = vec![T16::zero()];
        for v in 0..nv {
            t.push(T16::var(nv, v));
        }
        for &(a, b) in &self.ands {
            let f = |x: usize, t: &Vec<T16>| t[x >> 1].neg_if(x & 1 == 1, nv);
            let r = f(a, &t).and(f(b, &t));
            t.push(r);
        }
        t
    }

    fn describe(&self) -> String {
        format!(
            "I={} L={} ands={:?} next={:?} init={:?} out={:?} bad={:?} inv={:?} just={:?} fair={:?} symbols={:?}",
            self.i, self.l, self.ands, self.latch_next, self.latch_init, self.outputs, self.bad, self.inv, self.justice, self.fair, self.symbols
        )
    }
}

/// compare everything the public accessors of `AIGERDetails` expose with the generator
fn check_aig_semantics(ctx: &mut Ctx, g: &Aig, p: &Problem, what: &str, file: &[u8], ren: Option<&[usize]>) {
    let nv = g.i + g.l;
    let tabs = g.tables();
    let want = |x: usize| tabs[x >> 1].neg_if(x & 1 == 1, nv);
    let wit = |m: &str| format!("{what}: {m}; generator {}; file \"{}\"", g.describe(), show_bytes(file));
    let ProblemDetails::AIGER(d) = &p.details else {
        viol(ctx, "aiger:details-not-aiger", || wit(""));
        return;
    };
    let c = &p.circuit;
    if !chk(ctx, c.inputs().len() == nv && d.inputs() == g.i && d.latches().len() == g.l && d.outputs().len() == g.outputs.len(), "aiger:counts-differ", || {
        wit(&format!("inputs {} / {} latches {} outputs {}", c.inputs().len(), d.inputs(), d.latches().len(), d.outputs().len()))
    }) {
        return;
    }
    let Some(funs) = eval_parsed(c) else {
        viol(ctx, "aiger:parsed-circuit-not-evaluable", || wit("cyclic or invalid literal"));
        return;
    };
    for (k, &o) in g.outputs.iter().enumerate() {
        let got = parsed_lit_fun(c, &funs, d.outputs()[k]);
        chk(ctx, got == Some(want(o)), "aiger:output-function-differs", || wit(&format!("output {k}")));
    }
    for j in 0..g.l {
        let got = parsed_lit_fun(c, &funs, d.latches()[j]);
        chk(ctx, got == Some(want(g.latch_next[j])), "aiger:latch-function-differs", || wit(&format!("latch {j}")));
        let iv = crate::ctx::catch(|| d.latch_init_value(j));
        chk(ctx, iv == Ok(g.latch_init[j]), "aiger:latch-init-value-wrong", || wit(&format!("latch {j}: got {iv:?} want {:?}", g.latch_init[j])));
        chk(ctx, d.get_latch_no(Literal::from_input(false, g.i + j)) == Some(j), "aiger:get_latch_no-wrong", || wit(&format!("latch {j}")));
    }
    // AIGER literal map
    for v in 0..tabs.len() {
        let file_var = match ren {
            Some(r) => r[v],
            None => v,
        };
        let got = d.map_aiger_literal(2 * file_var + 1).and_then(|l| parsed_lit_fun(c, &funs, l));
        chk(ctx, got == Some(want(2 * v + 1)), "aiger:map_aiger_literal-wrong", || wit(&format!("aiger literal {}", 2 * file_var + 1)));
    }
    // names
    let name_of = |k: char, idx: usize| g.symbols.iter().find(|s| s.0 == k && s.1 == idx).map(|s| s.2.as_str());
    for k in 0..g.i {
        chk(ctx, c.inputs().name(k) == name_of('i', k), "aiger:symbol-wrong", || wit(&format!("input {k}: {:?}", c.inputs().name(k))));
    }
    for j in 0..g.l {
        chk(ctx, c.inputs().name(g.i + j) == name_of('l', j), "aiger:symbol-wrong", || wit(&format!("latch {j}: {:?}", c.inputs().name(g.i + j))));
    }
    for k in 0..g.outputs.len() {
        chk(ctx, d.output_name(k) == name_of('o', k), "aiger:symbol-wrong", || wit(&format!("output {k}: {:?}", d.output_name(k))));
    }
    for k in 0..g.bad.len() {
        chk(ctx, d.bad_name(k) == name_of('b', k), "aiger:symbol-wrong", || wit(&format!("bad {k}: {:?}", d.bad_name(k))));
    }
    for k in 0..g.inv.len() {
        chk(ctx, d.invariant_name(k) == name_of('c', k), "aiger:symbol-wrong", || wit(&format!("invariant {k}: {:?}", d.invariant_name(k))));
    }
    for k in 0..g.justice.len() {
        chk(ctx, d.justice_name(k) == name_of('j', k), "aiger:symbol-wrong", || wit(&format!("justice {k}: {:?}", d.justice_name(k))));
    }
}

fn aiger_roundtrip(ctx: &mut Ctx, rng: &mut Rng, keep: &mut Vec<(Fmt, String, Vec<u8>)>) {
    let g = Aig::random(rng);
    let aag = g.write_ascii(rng);
    let aig = g.write_binary(rng);
    let (scr, ren) = g.write_ascii_scrambled(rng);
    if keep.len() < 6 {
        keep.push((Fmt::Aiger, format!("generated aag #{}", keep.len()), aag.clone()));
        keep.push((Fmt::Aiger, format!("generated aig #{}", keep.len()), aig.clone()));
    }
    ctx.count("aiger_roundtrips", 1);
    ctx.distinct(("aig", crate::rng::hash64(&aig)));
    let o = opts(false, false, true);
    let pa = parse_raw(Fmt::Aiger, &o, &aag);
    let pb = parse_raw(Fmt::Aiger, &o, &aig);
    let ps = parse_raw(Fmt::Aiger, &o, &scr);
    let get = |ctx: &mut Ctx, r: Outcome, what: &str, file: &[u8]| -> Option<Problem> {
        ctx.eval();
        match r {
            Outcome::Ok(p) => Some(*p),
            Outcome::Err(m) => {
                viol(ctx, &format!("aiger:valid-{what}-rejected"), || format!("\"{m}\" for \"{}\" (generator {})", show_bytes(file), g.describe()));
                None
            }
            Outcome::Panic(m) => {
                viol(ctx, "aiger:panic", || format!("valid {what} \"{}\": {m}", show_bytes(file)));
                None
            }
        }
    };
    let pa = get(ctx, pa, "ascii", &aag);
    let pb = get(ctx, pb, "binary", &aig);
    let ps = get(ctx, ps, "ascii-scrambled", &scr);
    if let (Some(a), Some(b)) = (&pa, &pb) {
        chk(ctx, a == b, "aiger:ascii-binary-differ", || {
            format!("aag \"{}\" aig \"{}\": {a:?} vs {b:?}", show_bytes(&aag), show_bytes(&aig))
        });
    }
    if let Some(a) = &pa {
        check_aig_semantics(ctx, &g, a, "ascii", &aag, None);
    }
    if let Some(b) = &pb {
        check_aig_semantics(ctx, &g, b, "binary", &aig, None);
    }
    if let Some(s) = &ps {
        check_aig_semantics(ctx, &g, s, "ascii-scrambled", &scr, Some(&ren));
    }
}

// ------------------------------------------------------------------------------------------
// (c) DIMACS CNF / SAT and NNF: semantic round trips
// ------------------------------------------------------------------------------------------

/// variable order / name preamble shared by DIMACS and NNF; returns the text and the expected
/// (order, names)
fn order_preamble(rng: &mut Rng, v: usize) -> (String, Vec<usize>, Vec<Option<String>>) {
    let mut order: Vec<usize> = (0..v).collect();
    rng.shuffle(&mut order);
    let mut names: Vec<Option<String>> = vec![None; v];
    let mut s = String::new();
    if v >= 1 && rng.chance(1, 3) {
        // the order as a tree ("c vo [..]") covering every variable, with name records for some of
        // the variables before and after it; the linear order is the flattened tree
        let mut tree = String::new();
        let mut k = 0;
        tree.push('[');
        while k < v {
            let take = rng.range(1, 3).min(v - k);
            if k > 0 {
                tree.push_str(", ");
            }
            if take == 1 && rng.bool() {
                let _ = write!(tree, "{}", order[k] + 1);
            } else {
                tree.push('[');
                for (j, x) in order[k..k + take].iter().enumerate() {
                    if j > 0 {
                        tree.push_str(", ");
                    }
                    let _ = write!(tree, "{}", x + 1);
                }
                tree.push(']');
            }
            k += take;
        }
        tree.push(']');
        let mut named: Vec<usize> = (0..v).filter(|_| rng.chance(1, 2)).collect();
        rng.shuffle(&mut named);
        let split = rng.usize(named.len() + 1);
        for (i, &x) in named.iter().enumerate() {
            if i == split {
                let _ = writeln!(s, "c vo {tree}");
            }
            let n = random_name(rng, x);
            let _ = writeln!(s, "c {} {n}", x + 1);
            names[x] = Some(n);
        }
        if split >= named.len() {
            let _ = writeln!(s, "c vo {tree}");
        }
        return (s, order, names);
    }
    for (k, &x) in order.iter().enumerate() {
        if rng.chance(2, 3) {
            let n = random_name(rng, k);
            let _ = writeln!(s, "c {} {n}", x + 1);
            names[x] = Some(n);
        } else {
            let _ = writeln!(s, "c {}", x + 1);
        }
    }
    (s, order, names)
}

fn check_order(ctx: &mut Ctx, fmt: &str, c: &Circuit, order: &[usize], names: &[Option<String>], file: &[u8]) {
    if order.is_empty() {
        return;
    }
    let vs = c.inputs();
    chk(ctx, vs.order() == Some(order), &format!("{fmt}:var-order-differs"), || {
        format!("got {:?} want {order:?} for \"{}\"", vs.order(), show_bytes(file))
    });
    for (v, n) in names.iter().enumerate() {
        chk(ctx, vs.name(v) == n.as_deref(), &format!("{fmt}:var-name-differs"), || {
            format!("var {v}: got {:?} want {n:?} for \"{}\"", vs.name(v), show_bytes(file))
        });
    }
}

fn expect_ok(ctx: &mut Ctx, fmt: Fmt, what: &str, o: &ParseOptions, file: &[u8]) -> Option<Problem> {
    ctx.eval();
    match parse_raw(fmt, o, file) {
        Outcome::Ok(p) => Some(*p),
        Outcome::Err(m) => {
            viol(ctx, &format!("{}:valid-{what}-rejected", fmt.name()), || format!("\"{m}\" for \"{}\"", show_bytes(file)));
            None
        }
        Outcome::Panic(m) => {
            viol(ctx, &format!("{}:panic", fmt.name()), || format!("valid {what} \"{}\": {m}", show_bytes(file)));
            None
        }
    }
}

fn root_of(p: &Problem) -> Option<Literal> {
    match &p.details {
        ProblemDetails::Root(l) => Some(*l),
        _ => None,
    }
}

fn cnf_roundtrip(ctx: &mut Ctx, rng: &mut Rng, keep: &mut Vec<(Fmt, String, Vec<u8>)>) {
    let v = rng.range(0, 8);
    let nc = if v == 0 { rng.range(0, 2) } else { rng.range(0, 9) };
    // clause = (xor, literals as (neg, var))
    let mut clauses: Vec<(bool, Vec<(bool, usize)>)> = Vec::new();
    for _ in 0..nc {
        let xor = rng.chance(1, 5);
        let len = if v == 0 || rng.chance(1, 20) { 0 } else if rng.chance(1, 6) { 1 } else { rng.range(2, 5) };
        clauses.push((xor, (0..len).map(|_| (rng.bool(), rng.usize(v))).collect()));
    }
    let with_order = v > 0 && rng.chance(1, 3);
    let with_tree = nc > 0 && rng.chance(1, 3);
    let mut s = String::new();
    let (mut order, mut names) = (vec![], vec![]);
    if with_order {
        let (pre, o, n) = order_preamble(rng, v);
        s.push_str(&pre);
        order = o;
        names = n;
    } else if !with_tree && rng.bool() {
        s.push_str("c some comment 1 2 [\nc\n");
    }
    if with_tree {
        // a random grouping of the clause numbers
        let mut ids: Vec<usize> = (0..nc).collect();
        rng.shuffle(&mut ids);
        let mut t = String::from("[");
        let mut k = 0;
        while k < ids.len() {
            let take = rng.range(1, 3).min(ids.len() - k);
            if k > 0 {
                t.push_str(", ");
            }
            if take == 1 && rng.bool() {
                let _ = write!(t, "{}", ids[k]);
            } else {
                let inner: Vec<String> = ids[k..k + take].iter().map(|x| x.to_string()).collect();
                let _ = write!(t, "[{}]", inner.join(","));
            }
            k += take;
        }
        t.push(']');
        let _ = writeln!(s, "c co {t}");
    }
    let _ = writeln!(s, "p cnf {v} {nc}");
    for (k, (xor, lits)) in clauses.iter().enumerate() {
        if *xor {
            s.push_str(if rng.bool() { "x" } else { "x " });
        }
        for (neg, var) in lits {
            let _ = write!(s, "{}{}{}", if *neg { "-" } else { "" }, var + 1, ws(rng));
        }
        let last = k + 1 == clauses.len();
        if last && !lits.is_empty() && rng.bool() {
            // the terminating 0 of the last clause is optional
        } else {
            s.push('0');
            s.push_str(if rng.bool() { "\n" } else { " " });
        }
    }
    let file = s.into_bytes();
    if keep.len() < 12 {
        keep.push((Fmt::Dimacs, format!("generated cnf #{}", keep.len()), file.clone()));
    }
    ctx.count("cnf_roundtrips", 1);
    ctx.distinct(("cnf", crate::rng::hash64(&file)));
    let o = opts(with_order, with_tree, true);
    let Some(p) = expect_ok(ctx, Fmt::Dimacs, "cnf", &o, &file) else { return };
    let wit = |m: &str| format!("{m}: file \"{}\" parsed {:?} root {:?}", show_bytes(&file), p.circuit, p.details);
    let c = &p.circuit;
    if !chk(ctx, c.inputs().len() == v, "dimacs:var-count-differs", || wit("vars")) {
        return;
    }
    // semantics
    let mut want = T16::ones(v);
    for (xor, lits) in &clauses {
        let mut acc = T16::zero();
        for &(neg, var) in lits {
            let t = T16::var(v, var).neg_if(neg, v);
            acc = if *xor { acc.xor(t) } else { acc.or(t) };
        }
        want = want.and(acc);
    }
    let got = eval_parsed(c).and_then(|f| parsed_lit_fun(c, &f, root_of(&p)?));
    chk(ctx, got == Some(want), "dimacs:cnf-function-differs", || wit(&format!("want {}", want.hex(v))));
    check_order(ctx, "dimacs", c, &order, &names, &file);
    // structure as documented by the module docs and the crate's tests
    let root = root_of(&p).unwrap();
    if nc == 0 {
        chk(ctx, root == Literal::TRUE, "dimacs:cnf-structure-differs", || wit("empty CNF must be TRUE"));
    } else if clauses.iter().any(|c| c.1.is_empty()) {
        chk(ctx, root == Literal::FALSE, "dimacs:cnf-structure-differs", || wit("CNF with empty clause must be FALSE"));
    } else if !with_tree {
        let ok = (|| {
            let g = c.gate(root)?;
            if root.is_negative() || g.kind != GateKind::And || g.inputs.len() != nc {
                return None;
            }
            for (k, (xor, lits)) in clauses.iter().enumerate() {
                let l = g.inputs[k];
                let wl: Vec<Literal> = lits.iter().map(|&(n, x)| Literal::from_input(n, x)).collect();
                if lits.len() == 1 {
                    if l != wl[0] {
                        return None;
                    }
                } else {
                    let cg = c.gate(l)?;
                    let wk = if *xor { GateKind::Xor } else { GateKind::Or };
                    if l.is_negative() || cg.kind != wk || cg.inputs != &wl[..] {
                        return None;
                    }
                }
            }
            Some(())
        })();
        chk(ctx, ok.is_some(), "dimacs:cnf-structure-differs", || wit("clauses"));
    }
}

/// random SAT-format formula: returns text and table; records which extensions are used
fn sat_formula(rng: &mut Rng, v: usize, depth: usize, s: &mut String, used: &mut (bool, bool)) -> T16 {
    let leaf = depth == 0 || rng.chance(1, 3);
    if leaf && v > 0 {
        let (neg, var) = (rng.bool(), rng.usize(v));
        let _ = write!(s, "{}{}", if neg { if rng.bool() { "-" } else { "- " } } else { "" }, var + 1);
        return T16::var(v, var).neg_if(neg, v);
    }
    if depth == 0 {
        // no variables: constants only
        return if rng.bool() {
            s.push_str("*()");
            T16::ones(v)
        } else {
            s.push_str("+( )");
            T16::zero()
        };
    }
    match rng.usize(8) {
        0 => {
            s.push('(');
            let t = sat_formula(rng, v, depth.saturating_sub(1), s, used);
            s.push(')');
            t
        }
        1 => {
            s.push_str("-(");
            let t = sat_formula(rng, v, depth.saturating_sub(1), s, used);
            s.push(')');
            t.not(v)
        }
        k => {
            // 2,3: and  4,5: or  6: xor  7: eq
            let (op, n) = match k {
                2 | 3 => ("*", rng.range(0, 4)),
                4 | 5 => ("+", rng.range(0, 4)),
                6 => {
                    used.0 = true;
                    ("xor", rng.range(0, 4))
                }
                _ => {
                    used.1 = true;
                    // n-ary '=' is only unambiguous for 0 and 2 operands
                    ("=", if rng.chance(1, 6) { 0 } else { 2 })
                }
            };
            s.push_str(op);
            s.push('(');
            let mut acc = if op == "*" { T16::ones(v) } else { T16::zero() };
            for j in 0..n {
                if j > 0 {
                    s.push_str(ws(rng));
                }
                let t = sat_formula(rng, v, depth.saturating_sub(1), s, used);
                acc = match op {
                    "*" => acc.and(t),
                    "+" => acc.or(t),
                    _ => acc.xor(t),
                };
            }
            s.push(')');
            if op == "=" { acc.not(v) } else { acc }
        }
    }
}

fn sat_roundtrip(ctx: &mut Ctx, rng: &mut Rng, keep: &mut Vec<(Fmt, String, Vec<u8>)>) {
    let v = rng.range(0, 7);
    let mut body = String::new();
    let mut used = (false, false);
    let want = sat_formula(rng, v, 4, &mut body, &mut used);
    // weakest format that allows the formula, or any stronger one
    let fmts: Vec<&str> = [("sat", false, false), ("satx", true, false), ("sate", false, true), ("satex", true, true)]
        .iter()
        .filter(|f| (f.1 || !used.0) && (f.2 || !used.1))
        .map(|f| f.0)
        .collect();
    let f = *rng.pick(&fmts);
    let with_order = v > 0 && rng.chance(1, 4);
    let mut s = String::new();
    let (mut order, mut names) = (vec![], vec![]);
    if with_order {
        let (pre, o, n) = order_preamble(rng, v);
        s.push_str(&pre);
        order = o;
        names = n;
    } else if rng.bool() {
        s.push_str("c Sample SAT format\nc\n");
    }
    let _ = write!(s, "p {f} {v}{}\n{body}{}", if rng.bool() { " " } else { "" }, if rng.bool() { "\n" } else { "" });
    let file = s.into_bytes();
    if keep.len() < 12 {
        keep.push((Fmt::Dimacs, format!("generated sat #{}", keep.len()), file.clone()));
    }
    ctx.count("sat_roundtrips", 1);
    ctx.distinct(("sat", crate::rng::hash64(&file)));
    let o = opts(with_order, false, true);
    let Some(p) = expect_ok(ctx, Fmt::Dimacs, f, &o, &file) else { return };
    let c = &p.circuit;
    let wit = |m: &str| format!("{m}: file \"{}\" parsed {:?} root {:?}", show_bytes(&file), p.circuit, p.details);
    if !chk(ctx, c.inputs().len() == v, "dimacs:var-count-differs", || wit("vars")) {
        return;
    }
    let got = eval_parsed(c).and_then(|fs| parsed_lit_fun(c, &fs, root_of(&p)?));
    chk(ctx, got == Some(want), "dimacs:sat-function-differs", || wit(&format!("want {}", want.hex(v))));
    check_order(ctx, "dimacs", c, &order, &names, &file);
}

fn nnf_roundtrip(ctx: &mut Ctx, rng: &mut Rng, keep: &mut Vec<(Fmt, String, Vec<u8>)>) {
    let v = rng.range(0, 7);
    let n = rng.range(1, 16);
    // nodes in topological order: (text kind, children / literal), tables
    enum Nd {
        L(bool, usize),
        A(char, Vec<usize>),
        O(usize, Vec<usize>),
        X(Vec<usize>),
    }
    let mut nodes: Vec<Nd> = Vec::new();
    let mut tabs: Vec<T16> = Vec::new();
    for k in 0..n {
        let kids = |rng: &mut Rng, cnt: usize| -> Vec<usize> { (0..cnt).map(|_| rng.usize(k)).collect() };
        let choice = if k == 0 || rng.chance(1, 3) { 0 } else { rng.range(1, 3) };
        let cnt = rng.range(1, 4);
        let nd = match choice {
            0 if v > 0 && !rng.chance(1, 8) => Nd::L(rng.bool(), rng.usize(v)),
            0 => match rng.usize(3) {
                0 => Nd::A('A', vec![]),
                1 => Nd::O(0, vec![]),
                _ => Nd::X(vec![]),
            },
            1 => Nd::A(*rng.pick(&['A', 'a', 'B', 'b']), kids(rng, cnt)),
            2 => {
                if v > 0 && rng.bool() {
                    Nd::O(rng.range(1, v), kids(rng, 2))
                } else {
                    Nd::O(0, kids(rng, cnt))
                }
            }
            _ => Nd::X(kids(rng, cnt)),
        };
        let t = match &nd {
            Nd::L(neg, x) => T16::var(v, *x).neg_if(*neg, v),
            Nd::A(_, ks) => ks.iter().fold(T16::ones(v), |a, &k| a.and(tabs[k])),
            Nd::O(_, ks) => ks.iter().fold(T16::zero(), |a, &k| a.or(tabs[k])),
            Nd::X(ks) => ks.iter().fold(T16::zero(), |a, &k| a.xor(tabs[k])),
        };
        nodes.push(nd);
        tabs.push(t);
    }
    // file position of every node: root stays last; the rest in c2d order or permuted
    let mut pos: Vec<usize> = (0..n).collect();
    if rng.bool() {
        rng.shuffle(&mut pos[..n - 1]);
    }
    let mut at = vec![0usize; n];
    for (node, &p) in pos.iter().enumerate() {
        at[p] = node;
    }
    let edges: usize = nodes.iter().map(|nd| match nd {
        Nd::L(..) => 0,
        Nd::A(_, k) | Nd::O(_, k) | Nd::X(k) => k.len(),
    }).sum();
    let with_order = v > 0 && rng.chance(1, 3);
    let mut s = String::new();
    let (mut order, mut names) = (vec![], vec![]);
    if with_order {
        let (pre, o, nm) = order_preamble(rng, v);
        s.push_str(&pre);
        order = o;
        names = nm;
    } else if rng.bool() {
        s.push_str("c produced by vh 1 2 3\n");
    }
    let _ = writeln!(s, "nnf {n} {edges} {v}");
    for &node in &at {
        let kids = |ks: &Vec<usize>| ks.iter().map(|&k| format!(" {}", pos[k])).collect::<String>();
        match &nodes[node] {
            Nd::L(neg, x) => {
                let _ = writeln!(s, "{} {}{}", if rng.bool() { "L" } else { "l" }, if *neg { "-" } else { "" }, x + 1);
            }
            Nd::A(ch, ks) => {
                let _ = writeln!(s, "{ch} {}{}", ks.len(), kids(ks));
            }
            Nd::O(j, ks) => {
                let _ = writeln!(s, "{} {j} {}{}", if rng.bool() { "O" } else { "o" }, ks.len(), kids(ks));
            }
            Nd::X(ks) => {
                let _ = writeln!(s, "{} {}{}{}", if rng.bool() { "X" } else { "x" }, ks.len(), kids(ks), if rng.chance(1, 5) { " " } else { "" });
            }
        }
    }
    let file = s.into_bytes();
    if keep.len() < 12 {
        keep.push((Fmt::Nnf, format!("generated nnf #{}", keep.len()), file.clone()));
    }
    ctx.count("nnf_roundtrips", 1);
    ctx.distinct(("nnf", crate::rng::hash64(&file)));
    let o = opts(with_order, false, rng.bool());
    let Some(p) = expect_ok(ctx, Fmt::Nnf, "nnf", &o, &file) else { return };
    let c = &p.circuit;
    let wit = |m: &str| format!("{m}: file \"{}\" parsed {:?} root {:?}", show_bytes(&file), p.circuit, p.details);
    if !chk(ctx, c.inputs().len() == v, "nnf:var-count-differs", || wit("vars")) {
        return;
    }
    let want = tabs[n - 1];
    let got = eval_parsed(c).and_then(|fs| parsed_lit_fun(c, &fs, root_of(&p)?));
    chk(ctx, got == Some(want), "nnf:function-differs", || wit(&format!("want {}", want.hex(v))));
    check_order(ctx, "nnf", c, &order, &names, &file);
}

/// Hand-written invalid inputs whose rejection the rustdoc / diagnostics promise
fn must_reject(ctx: &mut Ctx) {
    let cases: [(Fmt, (bool, bool, bool), &[u8], &str); 10] = [
        (Fmt::Aiger, (false, false, true), b"aag 1 0 0 1 1\n2\n2 2 2\n", "and gate depends on itself"),
        (Fmt::Aiger, (false, false, true), b"aag 2 0 0 1 2\n2\n2 4 4\n4 2 2\n", "cyclic and gates"),
        (Fmt::Aiger, (false, false, true), b"aag 2 1 0 1 0\n2\n4\n", "undefined literal"),
        (Fmt::Aiger, (false, false, true), b"aig 2 1 0 1 0\n2\n", "binary: #vars must be I+L+A"),
        (Fmt::Nnf, (false, false, true), b"nnf 2 2 1\nA 1 1\nA 1 0\n", "node depends on itself"),
        (Fmt::Nnf, (false, false, true), b"nnf 1 0 1\nL 2\n", "invalid literal"),
        (Fmt::Dimacs, (false, false, true), b"p cnf 2 1\n3 0\n", "variable out of range"),
        (Fmt::Dimacs, (false, false, true), b"p cnf 2 3\n1 0\n", "clause count mismatch"),
        (Fmt::Dimacs, (false, false, true), b"p sat 2\nxor(1 2)\n", "xor not allowed in sat"),
        (Fmt::Dimacs, (false, false, true), b"p satx 2\n=(1 2)\n", "= not allowed in satx"),
    ];
    for (fmt, os, bytes, why) in cases {
        let o = opts(os.0, os.1, os.2);
        ctx.eval();
        match parse_raw(fmt, &o, bytes) {
            Outcome::Err(_) => ctx.count("invalid_inputs_rejected", 1),
            Outcome::Ok(p) => viol(ctx, &format!("{}:invalid-accepted", fmt.name()), || format!("{why}: \"{}\" -> {:?}", show_bytes(bytes), p.details)),
            Outcome::Panic(m) => viol(ctx, &format!("{}:panic", fmt.name()), || format!("{why}: \"{}\": {m}", show_bytes(bytes))),
        }
    }
}

/// Opt-in (`--param allocbomb`): header-declared sizes near MAX_CAPACITY = 2^60 - 1. Every
/// input here either panics with "capacity overflow" or is rejected; sizes a little smaller
/// abort the process in the allocator and are therefore not part of any tier.
fn alloc_bombs(ctx: &mut Ctx, ps: &mut PStats) {
    let m = "1152921504606846975";
    let cases: Vec<(Fmt, (bool, bool, bool), String)> = vec![
        (Fmt::Aiger, (false, false, true), format!("aag {m} 0 0 0 0\n")),
        (Fmt::Dimacs, (false, false, true), format!("p sat {m}\n(1)")),
        (Fmt::Dimacs, (true, false, true), format!("c {m} x\np cnf {m} 0\n")),
        (Fmt::Nnf, (true, false, true), format!("c {m} x\nnnf 1 0 {m}\nL 1\n")),
    ];
    for (fmt, os, s) in cases {
        println!("@@{{\"t\":\"case\",\"case\":{}}}", crate::ctx::json_str(&format!("allocation bomb {s}")));
        let o = opts(os.0, os.1, os.2);
        ps.inputs += 1;
        ctx.eval();
        match parse_raw(fmt, &o, s.as_bytes()) {
            Outcome::Panic(msg) => {
                ps.panics += 1;
                viol(ctx, &format!("{}:panic-capacity-overflow", fmt.name()), || format!("\"{}\": {msg}", show_bytes(s.as_bytes())));
            }
            Outcome::Ok(_) => ps.ok += 1,
            Outcome::Err(_) => ps.errors += 1,
        }
    }
}

/// (a) no-panic fuzzing, (b) AIGER ascii/binary equivalence + semantics, (c) DIMACS / NNF
/// semantic round trips
pub fn parsers(ctx: &mut Ctx) {
    quiet_hook();
    let mut ps = PStats::default();
    if ctx.param.as_deref() == Some("allocbomb") {
        alloc_bombs(ctx, &mut ps);
        ps.flush(ctx);
        restore_hook();
        return;
    }
    must_reject(ctx);

    // round trips first: they also provide generated files for the fuzzer
    let mut keep: Vec<(Fmt, String, Vec<u8>)> = Vec::new();
    let n = ctx.by_tier(15_000, 300_000);
    println!("@@{{\"t\":\"case\",\"case\":{}}}", crate::ctx::json_str("parser round trips"));
    let mut rng = ctx.rng(181);
    let mut k_aig = Vec::new();
    let mut k_cnf = Vec::new();
    let mut k_sat = Vec::new();
    let mut k_nnf = Vec::new();
    for _ in 0..n {
        aiger_roundtrip(ctx, &mut rng, &mut k_aig);
        cnf_roundtrip(ctx, &mut rng, &mut k_cnf);
        sat_roundtrip(ctx, &mut rng, &mut k_sat);
        nnf_roundtrip(ctx, &mut rng, &mut k_nnf);
    }
    for k in [k_aig, k_cnf, k_sat, k_nnf] {
        keep.extend(k.into_iter().take(6));
    }

    let mut files: Vec<(Fmt, String, Vec<u8>)> = corpus().into_iter().map(|(f, n, b)| (f, n.to_string(), b)).collect();
    ctx.sample(|| format!("corpus: {} files from the crate's tests / hand written + {} generated per shard; all prefixes and suffixes, seeded mutations", files.len(), keep.len()));
    files.extend(keep);
    let n_mut = ctx.by_tier(8_000, 100_000);
    fuzz_corpus(ctx, &mut ps, &files, n_mut);
    ps.flush(ctx);
    restore_hook();
}
