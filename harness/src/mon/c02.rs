//! C02 — Boolean connectives, ite, constants, variables, eval, cofactors (BDD, BCDD, ZBDD)

use std::collections::HashMap;

use oxidd::{BooleanFunction, Function, HasLevel, HasWorkers, Manager, ManagerRef};
use oxidd_core::function::INodeOfFunc;

use crate::kinds::*;
use crate::rng::all_perms;
use crate::tt::{ALL_BOPS, BOp, Tt};
use crate::Ctx;

pub fn apply_bop<F: BooleanFunction>(op: BOp, f: &F, g: &F) -> F {
    match op {
        BOp::And => f.and(g),
        BOp::Or => f.or(g),
        BOp::Xor => f.xor(g),
        BOp::Equiv => f.equiv(g),
        BOp::Nand => f.nand(g),
        BOp::Nor => f.nor(g),
        BOp::Imp => f.imp(g),
        BOp::ImpStrict => f.imp_strict(g),
    }
    .expect("unexpected OutOfMemory with ample capacity")
}

/// All 256 three-variable functions in one manager + reverse map handle -> table
pub struct All3<K: BoolKind> {
    pub mref: MRefOf<K>,
    pub funcs: Vec<K::F>,
    pub map: HashMap<K::F, u8>,
}

/// Model of `cofactors()`: None iff the handle is a terminal, else (f_true, f_false) w.r.t. the
/// top-most variable under `order` (level -> var); ZBDD: subset1/subset0 reading.
pub fn model_cofactors(sem: Sem, t: &Tt, order: &[u32]) -> Option<(u32, Tt, Tt)> {
    match sem {
        Sem::Plain | Sem::Complement => {
            let v = *order.iter().find(|&&v| t.depends_on(v))?;
            Some((v, t.cofactor(v, true), t.cofactor(v, false)))
        }
        Sem::ZeroSup => {
            // top node = first level whose variable occurs in some member set
            let v = *order.iter().find(|&&v| !t.and(&Tt::var(t.n, v)).is_zero())?;
            let nv = Tt::var(t.n, v).not();
            let hi = t.cofactor(v, true).and(&nv);
            let lo = t.cofactor(v, false).and(&nv);
            Some((v, hi, lo))
        }
    }
}

impl<K: BoolKind> All3<K>
where
    for<'id> MgrOf<'id, K>: HasWorkers,
    for<'x> INodeOfFunc<'x, K::F>: HasLevel,
{
    /// Builds all functions over `n` <= 3 variables; verifies eval == interp == table and
    /// distinctness (reports on ctx). `order`: level -> var, established before construction.
    pub fn build(ctx: &mut Ctx, n: u32, order: &[u32], threads: u32, nodes: usize, cache: usize) -> Self {
        assert!(n <= 3);
        let mref = setup::<K>(nodes, cache, threads, n);
        set_order(&mref, order);
        let got = current_order(&mref);
        ctx.check(got == order, &format!("{}:set_var_order-empty:order", K::NAME), || {
            format!("requested {order:?} got {got:?}")
        });
        let nf = 1usize << (1 << n);
        let mut funcs = Vec::with_capacity(nf);
        let mut map = HashMap::new();
        for bits in 0..nf {
            let t = Tt::from_u64(n, bits as u64);
            let f = if bits % 2 == 0 { build_minterms::<K>(&mref, &t) } else { build_shannon::<K>(&mref, &t) };
            let it = interp_tt::<K>(&f);
            let et = eval_tt::<K>(&f);
            ctx.check(it == t, &format!("{}:build:interp-table", K::NAME), || {
                format!("order {order:?} wanted {t} interp {it}")
            });
            ctx.check(et == it, &format!("{}:eval-vs-interp", K::NAME), || {
                format!("order {order:?} f={t} eval {et} interp {it}")
            });
            if let Some(prev) = map.insert(f.clone(), bits as u8) {
                ctx.violation(
                    &format!("{}:canonicity:distinct-functions-equal-handles", K::NAME),
                    format!("order {order:?} tables {prev:#x} and {bits:#x}"),
                );
            }
            funcs.push(f);
        }
        All3 { mref, funcs, map }
    }

    /// table of a result handle: via the reverse map (canonicity) or, failing that, by interpretation
    pub fn table_of(&self, ctx: &mut Ctx, r: &K::F, what: &dyn Fn() -> String) -> Tt {
        let n = self.mref.with_manager_shared(|m| m.num_vars());
        if let Some(&b) = self.map.get(r) {
            Tt::from_u64(n, b as u64)
        } else {
            let it = interp_tt::<K>(r);
            ctx.violation(
                &format!("{}:canonicity:result-not-identical-to-existing-handle", K::NAME),
                format!("{} -> interp {it}", what()),
            );
            it
        }
    }
}

fn pairs_kind<K: BoolKind>(ctx: &mut Ctx, order: &[u32], threads: u32)
where
    for<'id> MgrOf<'id, K>: HasWorkers,
    for<'x> INodeOfFunc<'x, K::F>: HasLevel,
{
    let n = 3;
    let all = All3::<K>::build(ctx, n, order, threads, 1 << 16, 1 << 12);
    let tt = |b: usize| Tt::from_u64(n, b as u64);
    let k = K::NAME;

    // constants and variable constructors
    all.mref.with_manager_shared(|m| {
        let f = K::F::f(m);
        let t = K::F::t(m);
        ctx.check(all.map.get(&f) == Some(&0), &format!("{k}:const-f"), || format!("order {order:?}"));
        ctx.check(all.map.get(&t) == Some(&0xff), &format!("{k}:const-t"), || format!("order {order:?}"));
        ctx.check(!f.satisfiable() && t.satisfiable() && t.valid() && !f.valid(), &format!("{k}:satisfiable-valid"), || {
            format!("order {order:?}")
        });
        for v in 0..n {
            let x = K::F::var(m, v).unwrap();
            let nx = K::F::not_var(m, v).unwrap();
            let want = Tt::var(n, v);
            let (xt, nxt) = (interp_tt::<K>(&x), interp_tt::<K>(&nx));
            ctx.check(xt == want, &format!("{k}:var"), || format!("order {order:?} var {v} got {xt}"));
            ctx.check(nxt == want.not(), &format!("{k}:not_var"), || format!("order {order:?} var {v} got {nxt}"));
        }
    });

    // unary: not, not_owned, cofactors, satisfiable/valid
    for a in 0..256usize {
        let f = &all.funcs[a];
        let ta = tt(a);
        let r = f.not().unwrap();
        let rt = all.table_of(ctx, &r, &|| format!("not {ta} order {order:?}"));
        ctx.check(rt == ta.not(), &format!("{k}:not"), || format!("order {order:?} not {ta} = {rt}"));
        let r2 = f.clone().not_owned().unwrap();
        ctx.check(r2 == r, &format!("{k}:not_owned"), || format!("order {order:?} f={ta}"));
        // documented: "Should there be a decision node for a variable not part of the domain, then
        // `false` is used as the decision value": pass only the variables that are true
        for asg in 0..8usize {
            let got = f.eval((0..n).filter(|v| (asg >> v) & 1 == 1).map(|v| (v, true)));
            ctx.check(got == ta.get(asg), &format!("{k}:eval:unassigned-variable-not-false"), || {
                format!("order {order:?} f={ta}: eval with only the true variables of assignment {asg:03b} given = {got}")
            });
        }
        // documented: "If values are specified multiple times for a variable, the last one counts":
        // all variables with the complementary value first, then the overrides
        for asg in 0..8usize {
            let bit = |v: u32| (asg >> v) & 1 == 1;
            let got = f.eval((0..n).map(|v| (v, !bit(v))).chain((0..n).rev().map(|v| (v, bit(v)))));
            ctx.check(got == ta.get(asg), &format!("{k}:eval:repeated-variable-last-value-does-not-count"), || {
                format!("order {order:?} f={ta}: eval with every variable given twice (complement first) for assignment {asg:03b} = {got}")
            });
        }
        ctx.check(f.satisfiable() == !ta.is_zero(), &format!("{k}:satisfiable"), || format!("f={ta}"));
        ctx.check(f.valid() == ta.is_one(), &format!("{k}:valid"), || format!("f={ta}"));

        let mc = model_cofactors(K::SEM, &ta, order);
        let c = f.cofactors();
        match (&mc, &c) {
            (None, None) => {
                ctx.eval();
                ctx.check(f.cofactor_true().is_none() && f.cofactor_false().is_none(), &format!("{k}:cofactor-none"), || {
                    format!("f={ta}")
                });
            }
            (Some((v, mt, mf)), Some((ct, cf))) => {
                let (ctt, cft) = (interp_tt::<K>(ct), interp_tt::<K>(cf));
                ctx.check(ctt == *mt && cft == *mf, &format!("{k}:cofactors"), || {
                    format!("order {order:?} f={ta} top var {v}: got ({ctt},{cft}) want ({mt},{mf})")
                });
                let c1 = f.cofactor_true();
                let c0 = f.cofactor_false();
                ctx.check(
                    c1.as_ref() == Some(ct) && c0.as_ref() == Some(cf),
                    &format!("{k}:cofactor_true/false-vs-cofactors"),
                    || format!("order {order:?} f={ta}"),
                );
                ctx.distinct(("cof", k, a, order.to_vec()));
            }
            _ => ctx.violation(
                &format!("{k}:cofactors:none-iff-terminal"),
                format!("order {order:?} f={ta} model {:?} got {}", mc.is_some(), c.is_some()),
            ),
        }
    }

    // all pairs x all binary operators
    for a in 0..256usize {
        for b in 0..256usize {
            let (f, g) = (&all.funcs[a], &all.funcs[b]);
            for op in ALL_BOPS {
                let r = apply_bop(op, f, g);
                let want = (0..8).fold(0u8, |acc, i| {
                    acc | ((op.on((a >> i) & 1 == 1, (b >> i) & 1 == 1) as u8) << i)
                });
                ctx.eval();
                match all.map.get(&r) {
                    Some(&got) if got == want => {
                        if want != 0 && want != 0xff {
                            ctx.distinct((k, op, a, b, order[0], order[1], threads));
                        }
                    }
                    _ => {
                        let rt = all.table_of(ctx, &r, &|| format!("{} {} {}", tt(a), op.name(), tt(b)));
                        if rt.as_u64() as u8 != want {
                            ctx.violation(
                                &format!("{k}:{}:wrong-table", op.name()),
                                format!(
                                    "order {order:?} threads {threads}: {} {} {} = {} want {}",
                                    tt(a), op.name(), tt(b), rt, tt(want as usize)
                                ),
                            );
                        }
                    }
                }
            }
        }
    }
    ctx.sample(|| format!("{k} order {order:?} threads {threads}: all 256x256 operand pairs x 8 operators, e.g. 3v:0x96 and 3v:0xe8"));

    // ite triples
    let mut rng = ctx.rng(order.iter().fold(7, |h, &v| h * 5 + v as u64) * 3 + threads as u64);
    let identity = order.iter().enumerate().all(|(i, &v)| i as u32 == v);
    let full = !ctx.quick() && identity && threads == 1;
    let one_in = if full { 1 } else if ctx.quick() { 256 } else { 16 };
    for a in 0..256usize {
        for b in 0..256usize {
            for c in 0..256usize {
                if one_in > 1 && rng.below(one_in) != 0 {
                    continue;
                }
                let r = all.funcs[a].ite(&all.funcs[b], &all.funcs[c]).unwrap();
                let want = ((a & b) | (!a & c)) as u8;
                ctx.eval();
                match all.map.get(&r) {
                    Some(&got) if got == want => {
                        if want != 0 && want != 0xff {
                            ctx.distinct((k, "ite", a, b, c, order[0], order[1]));
                        }
                    }
                    _ => {
                        let rt = all.table_of(ctx, &r, &|| format!("ite({},{},{})", tt(a), tt(b), tt(c)));
                        if rt.as_u64() as u8 != want {
                            ctx.violation(
                                &format!("{k}:ite:wrong-table"),
                                format!(
                                    "order {order:?} threads {threads}: ite({},{},{}) = {} want {}",
                                    tt(a), tt(b), tt(c), rt, tt(want as usize)
                                ),
                            );
                        }
                    }
                }
            }
        }
    }
    ctx.count(if full { "ite_triples_exhaustive_configs" } else { "ite_triples_sampled_configs" }, 1);
}

/// n = 3: every pair of the 256 functions x 8 operators, sampled/all ite triples, all unary
/// checks, for 3 kinds x 6 orders x threads {1, 4}.
pub fn pairs(ctx: &mut Ctx) {
    let orders = all_perms(3);
    let mut i = 0;
    for threads in [1u32, 4] {
        for order in &orders {
            for kind in 0..3 {
                let mine = ctx.mine(i);
                i += 1;
                if !mine {
                    continue;
                }
                match kind {
                    0 => pairs_kind::<Bdd>(ctx, order, threads),
                    1 => pairs_kind::<Bcdd>(ctx, order, threads),
                    _ => pairs_kind::<Zbdd>(ctx, order, threads),
                }
                ctx.count("configs", 1);
            }
        }
    }
}


fn random_kind<K: BoolKind>(ctx: &mut Ctx, rng: &mut crate::rng::Rng, cases: usize)
where
    for<'id> MgrOf<'id, K>: HasWorkers,
    for<'x> INodeOfFunc<'x, K::F>: HasLevel,
{
    use oxidd::WorkerPool;
    let k = K::NAME;
    for _ in 0..cases {
        let n = rng.range(4, 8) as u32;
        let threads = *rng.pick(&[1u32, 1, 2, 4, 8]);
        let mref = setup::<K>(1 << 16, 1 << rng.range(0, 12), threads, n);
        // every split depth: 0 (sequential), 1, 2, MAX
        let depth = *rng.pick(&[0u32, 1, 2, u32::MAX]);
        mref.with_manager_shared(|m| m.workers().set_split_depth(Some(depth)));
        let order = rng.perm(n as usize);
        set_order(&mref, &order);
        let fs: Vec<(K::F, Tt)> = (0..8)
            .map(|i| {
                let t = if i % 2 == 0 { Tt::random(n, rng) } else { Tt::random_biased(n, rng) };
                (build_shannon::<K>(&mref, &t), t)
            })
            .collect();
        for (f, t) in &fs {
            ctx.eval();
            let et = eval_tt::<K>(f);
            let it = interp_tt::<K>(f);
            if et != *t || it != *t {
                ctx.violation(&format!("{k}:random:build-eval-interp"), format!("order {order:?}: table {t} eval {et} interp {it}"));
            }
        }
        for _ in 0..40 {
            let (f, ft) = rng.pick(&fs);
            let (g, gt) = rng.pick(&fs);
            let (h, ht) = rng.pick(&fs);
            let (r, want, what) = if rng.chance(1, 4) {
                (f.ite(g, h).unwrap(), ft.ite(gt, ht), "ite".to_string())
            } else if rng.chance(1, 8) {
                (f.not().unwrap(), ft.not(), "not".to_string())
            } else {
                let op = *rng.pick(&ALL_BOPS);
                (apply_bop(op, f, g), ft.bop(op, gt), op.name().to_string())
            };
            let rt = interp_tt::<K>(&r);
            ctx.eval();
            if rt != want {
                ctx.violation(
                    &format!("{k}:{what}:wrong-table"),
                    format!("random n={n} order {order:?} threads {threads} split depth {depth}: {what}({ft}, {gt}, {ht}) = {rt} want {want}"),
                );
            } else if !want.is_const() {
                ctx.distinct((k, &what, &want, threads, depth));
            }
            // eval with hostile argument lists: random order, some variables repeated (last value
            // counts), false-valued variables partly omitted
            for _ in 0..4 {
                let a = rng.below(1 << n) as usize;
                let mut args: Vec<(u32, bool)> = Vec::new();
                for v in 0..n {
                    let bit = (a >> v) & 1 == 1;
                    match rng.below(4) {
                        0 => args.extend([(v, !bit), (v, bit)]),
                        1 => args.extend([(v, bit), (v, !bit), (v, bit)]),
                        2 if !bit => {}
                        _ => args.push((v, bit)),
                    }
                }
                // shuffle, keeping the relative order of the entries of one variable
                let mut keyed: Vec<(u64, usize, (u32, bool))> = Vec::new();
                let mut key_of = vec![0u64; n as usize];
                for (i, &(v, b)) in args.iter().enumerate() {
                    if key_of[v as usize] == 0 || rng.chance(1, 2) {
                        key_of[v as usize] = key_of[v as usize].max(1) + rng.below(1000);
                    }
                    keyed.push((key_of[v as usize], i, (v, b)));
                }
                keyed.sort();
                let got = r.eval(keyed.iter().map(|x| x.2));
                ctx.eval();
                if got != want.get(a) {
                    ctx.violation(
                        &format!("{k}:eval:hostile-argument-list"),
                        format!("random n={n} order {order:?}: f={want} assignment {a:#b} passed as {:?}: eval = {got}", keyed.iter().map(|x| x.2).collect::<Vec<_>>()),
                    );
                }
            }
            // a rejected call must leave nothing behind: eval panics (documented) for a variable number
            // that is out of range, or the caller's argument iterator gives up half-way; the panic is
            // caught and the same thread evaluates again, passing only the variables that are true
            if rng.chance(1, 6) {
                let bad = n + rng.range(0, 3) as u32;
                let split = rng.range(1, n as usize) as u32;
                let _ = crate::ctx::catch(|| r.eval((0..n).map(|v| (v, true)).chain([(bad, true)])));
                let _ = crate::ctx::catch(|| {
                    r.eval((0..n).map(|v| {
                        if v == split {
                            panic!("argument iterator gives up (deliberate, part of the workload)")
                        }
                        (v, true)
                    }))
                });
                ctx.count("rejected_eval_calls", 2);
                for _ in 0..6 {
                    let a = rng.below(1 << n) as usize;
                    let got = r.eval((0..n).filter(|v| (a >> v) & 1 == 1).map(|v| (v, true)));
                    ctx.eval();
                    if got != want.get(a) {
                        ctx.violation(
                            &format!("{k}:eval:wrong-after-rejected-call"),
                            format!("random n={n} order {order:?}: f={want}: after a panicking eval call on this thread, eval with the true variables of {a:#b} = {got}"),
                        );
                        break;
                    }
                }
            }
            // cofactors of the result
            let mc = model_cofactors(K::SEM, &want, &order);
            match (mc, r.cofactors()) {
                (None, None) => {}
                (Some((_, t1, t0)), Some((c1, c0))) => {
                    ctx.eval();
                    let (a, b) = (interp_tt::<K>(&c1), interp_tt::<K>(&c0));
                    if a != t1 || b != t0 {
                        ctx.violation(&format!("{k}:cofactors"), format!("random n={n} order {order:?}: f={want}: got ({a},{b}) want ({t1},{t0})"));
                    }
                }
                _ => ctx.violation(&format!("{k}:cofactors:none-iff-terminal"), format!("random n={n} order {order:?} f={want}")),
            }
        }
    }
}

/// random operands over 4..8 variables, threads 1..8, every split depth, cache 1..4096 entries
pub fn random(ctx: &mut Ctx) {
    let mut rng = ctx.rng(0xC02);
    let cases = ctx.by_tier(30, 4000);
    random_kind::<Bdd>(ctx, &mut rng, cases);
    random_kind::<Bcdd>(ctx, &mut rng, cases);
    random_kind::<Zbdd>(ctx, &mut rng, cases);
    ctx.sample(|| "random: n in 4..8, random order, threads in {1,2,4,8}, split depth in {0,1,2,MAX}, apply cache 1..4096: 40 operations per manager over 8 random functions".into());
}
