//! C14 — resource exhaustion is reported as an error and leaves the manager intact.
//!
//! For a script of operations the node capacity `c` is swept from 0 to demand+2, so every
//! allocation site is the failing one in some run. After every operation (successful or not)
//! the full audit runs; a failed operation is retried after drop + gc whenever the capacity
//! suffices for it (demand measured on a twin manager with ample capacity).

use oxidd::{BooleanFunction, HasLevel, HasWorkers, Manager, ManagerRef};
use oxidd_core::function::INodeOfFunc;

use crate::hist::*;
use crate::kinds::*;
use crate::rng::Rng;
use crate::tt::{ALL_BOPS, ALL_QUANTS};
use crate::Ctx;

/// A script: a few operand constructions followed by one operation of each class
fn script(rng: &mut Rng, n: u32, quant: bool) -> Vec<Op> {
    let mut ops = vec![
        Op::Var(rng.below(n as u64) as u32),
        Op::NotVar(rng.below(n as u64) as u32),
        Op::FromTable(rng.next()),
        Op::FromTable(rng.next()),
        Op::FromTable(rng.next()),
    ];
    let l = 5;
    let h = |rng: &mut Rng| rng.usize(l);
    let mask = |rng: &mut Rng| (rng.next() as u32) & ((1 << n) - 1);
    ops.push(Op::Bin(*rng.pick(&ALL_BOPS), h(rng), h(rng)));
    ops.push(Op::Ite(h(rng), h(rng), h(rng)));
    ops.push(Op::Not(h(rng)));
    if quant {
        ops.push(Op::Quant(*rng.pick(&ALL_QUANTS), h(rng), mask(rng)));
        ops.push(Op::ApplyQuant(*rng.pick(&ALL_QUANTS), *rng.pick(&ALL_BOPS), h(rng), h(rng), mask(rng)));
        ops.push(Op::Subst(h(rng), vec![(rng.below(n as u64) as u32, h(rng)), (rng.below(n as u64) as u32, h(rng))]));
    }
    let care = mask(rng);
    ops.push(Op::Restrict(h(rng), care, mask(rng) & care));
    ops.push(Op::PickCubeDd(h(rng), rng.next() as u32));
    ops.push(Op::Cof(h(rng), rng.bool()));
    ops.push(Op::Bin(*rng.pick(&ALL_BOPS), 5, 6));
    ops
}

/// run the script with capacity `cap`; returns (#failed ops, nodes stored at the end)
fn run_with_cap<K: BoolKind>(ctx: &mut Ctx, ops: &[Op], n: u32, cap: usize, threads: u32, label: &str, demand: usize) -> (u64, usize)
where
    for<'id> MgrOf<'id, K>: HasWorkers,
    for<'x> INodeOfFunc<'x, K::F>: HasLevel,
{
    let lbl = format!("{label} cap={cap}");
    println!("@@{{\"t\":\"case\",\"case\":{}}}", crate::ctx::json_str(&lbl));
    let mut w = World::<K>::new(cap, 256, threads, n, lbl);
    w.oom_ok = true;
    // never let the background collector interfere with a sweep
    debug_assert!(cap < 100 || !w.bg_gc || true);
    let mut failed_at: Vec<usize> = Vec::new();
    for (i, op) in ops.iter().enumerate() {
        let before = w.ooms;
        let r = crate::ctx::catch(|| {
            w.step(ctx, op);
        });
        if let Err(msg) = r {
            ctx.violation(
                &w.sig(&format!("{}:panic-instead-of-error", op.name())),
                w.witness(&format!("panic: {msg} at {}", crate::ctx::last_panic_loc())),
            );
            return (w.ooms, 0);
        }
        if w.ooms > before {
            failed_at.push(i);
        }
        // existing handles valid, diagram well-formed, exact reference counts — after every op
        w.audit(ctx, "after operation under capacity limit");
    }
    ctx.eval();
    // (single application thread only: with several workers free slots are partitioned into
    // per-thread lists, so the usable capacity of one operation is legitimately smaller)
    if threads == 1 && cap >= demand && !failed_at.is_empty() {
        ctx.violation(
            &w.sig("oom-although-capacity-suffices"),
            w.witness(&format!("capacity {cap} >= demand {demand} of the whole script, yet ops {failed_at:?} failed")),
        );
    }
    let nodes = w.mref.with_manager_exclusive(|m| m.num_inner_nodes());
    // once space has been freed the same operation succeeds: keep the operand handles (first 5
    // entries, if they exist), drop the rest, gc, retry the first failed non-constructor op
    if let Some(&i) = failed_at.iter().find(|&&i| i >= 5) {
        if w.hs.len() >= 5 && failed_at.iter().all(|&j| j >= 5) {
            w.hs.truncate(5);
            w.step(ctx, &Op::Gc);
            // demand of this single op from the collected state: measured on a twin manager
            let mut twin = World::<K>::new(1 << 14, 256, 1, n, "twin".into());
            for op in &ops[..5] {
                twin.step(ctx, op);
            }
            twin.step(ctx, &Op::Gc);
            twin.step(ctx, &ops[i]);
            let need = twin.mref.with_manager_exclusive(|m| m.num_inner_nodes());
            if threads == 1 && cap >= need {
                let before = w.ooms;
                w.step(ctx, &ops[i]);
                ctx.eval();
                if w.ooms > before {
                    ctx.violation(
                        &w.sig(&format!("{}:retry-after-gc-fails", ops[i].name())),
                        w.witness(&format!("capacity {cap}, the operation needs {need} slots from the collected state")),
                    );
                } else {
                    ctx.count("retries_succeeded", 1);
                }
                w.audit(ctx, "after retry");
            }
            twin.teardown(ctx);
        }
    }
    let ooms = w.ooms;
    w.teardown(ctx);
    (ooms, nodes)
}

fn sweep_kind<K: BoolKind>(ctx: &mut Ctx, rng: &mut Rng, scripts: usize, threads: u32)
where
    for<'id> MgrOf<'id, K>: HasWorkers,
    for<'x> INodeOfFunc<'x, K::F>: HasLevel,
{
    for s in 0..scripts {
        let n = rng.range(3, 5) as u32;
        let ops = script(rng, n, K::HAS_QUANT);
        let label = format!("c14 kind={} script={s} n={n} threads={threads} seed={}", K::NAME, ctx.seed);
        // demand: slots used by the whole script without any collection
        let (o, demand) = run_with_cap::<K>(ctx, &ops, n, 1 << 14, threads, &label, usize::MAX);
        ctx.eval();
        if o != 0 {
            ctx.violation(&format!("{}:oom-with-ample-capacity", K::NAME), label.clone());
            continue;
        }
        // ZBDD managers need `n` slots for their tautology chain at creation: there is no error
        // channel for that (abort), covered by the dedicated `aborts` monitor
        let lo = if K::SEM == Sem::ZeroSup { n as usize } else { 0 };
        let hi = (demand + 2).min(99); // stay below 100: background collector off
        let mut errs_seen = 0u64;
        for cap in lo..=hi {
            let (o, _) = run_with_cap::<K>(ctx, &ops, n, cap, threads, &label, demand);
            if o > 0 {
                errs_seen += 1;
                ctx.distinct((K::NAME, s, cap, threads, ctx.shard));
            }
        }
        ctx.count("capacities_swept", (hi + 1 - lo) as u64);
        ctx.count("capacities_with_oom", errs_seen);
        ctx.sample(|| format!("{label}: demand {demand} slots, capacities {lo}..={hi} swept, {errs_seen} of them produced OutOfMemory; script {:?}", &ops[5..]));
    }
}

pub fn sweep(ctx: &mut Ctx) {
    let mut rng = ctx.rng(0xC14);
    let scripts = ctx.by_tier(4, 100);
    sweep_kind::<Bdd>(ctx, &mut rng, scripts, 1);
    sweep_kind::<Bcdd>(ctx, &mut rng, scripts, 1);
    sweep_kind::<Zbdd>(ctx, &mut rng, scripts, 1);
    // multi-threaded: a failing branch of a join must still release the sibling's result
    sweep_kind::<Bdd>(ctx, &mut rng, scripts.div_ceil(2), 4);
    sweep_kind::<Bcdd>(ctx, &mut rng, scripts.div_ceil(2), 4);
    sweep_kind::<Zbdd>(ctx, &mut rng, scripts.div_ceil(2), 4);
}

/// The same capacity sweeps, but everything happens INSIDE a `with_manager_shared` scope of
/// another manager (as when functions are transferred between managers): the thread's local
/// store state is bound to the outer manager, so every allocation in the swept manager takes
/// the node store's path for foreign threads (shared free list / shared allocation counter).
pub fn nested(ctx: &mut Ctx) {
    use oxidd::ManagerRef;
    let mut rng = ctx.rng(0xC14_E);
    let scripts = ctx.by_tier(2, 40);
    let outer = oxidd::bdd::new_manager(1 << 10, 1 << 6, 1);
    outer.with_manager_shared(|_outer| {
        sweep_kind::<Bdd>(ctx, &mut rng, scripts, 1);
        sweep_kind::<Bcdd>(ctx, &mut rng, scripts, 1);
        sweep_kind::<Zbdd>(ctx, &mut rng, scripts, 1);
        // with worker threads as well: the calling thread is bound to the outer manager, the workers are not
        sweep_kind::<Bdd>(ctx, &mut rng, scripts.div_ceil(2), 4);
        sweep_kind::<Bcdd>(ctx, &mut rng, scripts.div_ceil(2), 4);
    });
    ctx.count("nested_sweeps", 3 * scripts as u64);
}

/// Operations that have no error channel. Each case runs in its own shard (param selects it)
/// because the documented behaviour on exhaustion is a process abort; they are listed in
/// known_findings.json. case 0: ZBDD add_vars with too few node slots; case 1: BDD reordering
/// when level_swap needs a node and the manager is full.
pub fn aborts(ctx: &mut Ctx) {
    let case = ctx.shard;
    match case {
        0 => {
            println!("@@{{\"t\":\"case\",\"case\":\"zbdd add_vars(4) with capacity 2\"}}");
            let mref = oxidd::zbdd::new_manager(2, 16, 1);
            ctx.eval();
            mref.with_manager_exclusive(|m| m.add_vars(4));
            ctx.count("survived", 1);
        }
        1 => {
            println!("@@{{\"t\":\"case\",\"case\":\"bdd set_var_order on a full manager\"}}");
            let n = 4;
            for cap in 4..40usize {
                let mut w = World::<Bdd>::new(cap, 16, 1, n, format!("abort-reorder cap={cap}"));
                w.oom_ok = true;
                let mut rng = Rng::new(cap as u64);
                for _ in 0..30 {
                    w.step(ctx, &Op::FromTable(rng.next()));
                }
                w.step(ctx, &Op::SetOrder(vec![3, 2, 1, 0], true));
                w.audit(ctx, "after reorder in a (nearly) full manager");
            }
            ctx.count("survived", 1);
        }
        _ => {
            ctx.eval();
        }
    }
}


/// DDDMP import under a node-capacity sweep: a multi-root file (exported from a BCDD, so that
/// non-first roots are complemented, and from a BDD) is imported into managers of every
/// capacity 0..demand+2: the importer must return an error or the right functions, release
/// everything it acquired on failure, and leave exact reference counts.
fn import_sweep<S: BoolKind, T: BoolKind>(ctx: &mut Ctx, rng: &mut Rng, files: usize)
where
    for<'id> MgrOf<'id, S>: HasWorkers,
    for<'x> INodeOfFunc<'x, S::F>: HasLevel,
    for<'id> MgrOf<'id, T>: HasWorkers,
    for<'x> INodeOfFunc<'x, T::F>: HasLevel,
{
    use crate::tt::Tt;
    for fi in 0..files {
        let n = rng.range(3, 4) as u32;
        let src = setup::<S>(1 << 12, 64, 1, n);
        let tables: Vec<Tt> = (0..3).map(|_| Tt::random_biased(n, rng)).collect();
        let roots: Vec<S::F> = tables.iter().map(|t| build_shannon::<S>(&src, t)).collect();
        // export through the kind's exporter (ASCII or binary)
        let ascii = rng.bool();
        let rrefs: Vec<&S::F> = roots.iter().collect();
        let Some(bytes) = S::export(&src, &rrefs, if ascii { 0 } else { 1 }) else { continue };
        // demand of the import in an ample manager
        let big = setup::<T>(1 << 12, 64, 1, n);
        let Ok(fs) = T::import(&big, &bytes) else {
            ctx.violation(&format!("{}:import:error-with-ample-capacity", T::NAME), format!("file {fi} exported from {}", S::NAME));
            continue;
        };
        for (f, t) in fs.iter().zip(&tables) {
            ctx.eval();
            let it = interp_tt::<T>(f);
            if it != *t {
                ctx.violation(&format!("{}:import:wrong-table", T::NAME), format!("file {fi} from {}: {it} want {t}", S::NAME));
            }
        }
        let demand = big.with_manager_shared(|m| m.num_inner_nodes());
        drop(fs);
        let lo = if T::SEM == Sem::ZeroSup { n as usize } else { 0 };
        let mut errs = 0;
        for cap in lo..=(demand + 2).min(99) {
            let label = format!("c14import {}->{} file={fi} ascii={ascii} n={n} cap={cap} seed={}", S::NAME, T::NAME, ctx.seed);
            println!("@@{{\"t\":\"case\",\"case\":{}}}", crate::ctx::json_str(&label));
            let mut w = World::<T>::new(cap, 16, 1, n, label);
            w.oom_ok = true;
            let r = crate::ctx::catch(|| T::import(&w.mref, &bytes));
            match r {
                Err(msg) => {
                    ctx.violation(&w.sig("import:panic-instead-of-error"), w.witness(&format!("panic: {msg} at {}", crate::ctx::last_panic_loc())));
                    continue;
                }
                Ok(Err(_)) => {
                    errs += 1;
                    ctx.eval();
                    if cap >= demand {
                        ctx.violation(&w.sig("import:oom-although-capacity-suffices"), w.witness(&format!("capacity {cap} >= demand {demand}")));
                    }
                }
                Ok(Ok(fs)) => {
                    for (f, t) in fs.into_iter().zip(&tables) {
                        w.admit(ctx, &Op::Clone(0), f, t.clone());
                    }
                }
            }
            w.trace.push(format!("import(3 roots exported from {})", S::NAME));
            w.audit(ctx, "after import under capacity limit");
            w.teardown(ctx);
            ctx.distinct((S::NAME, T::NAME, fi, cap, ctx.shard));
        }
        ctx.count("import_capacities_swept", ((demand + 2).min(99) + 1 - lo) as u64);
        ctx.count("import_capacities_with_oom", errs);
    }
}

pub fn import(ctx: &mut Ctx) {
    let mut rng = ctx.rng(0xC14_1);
    let files = ctx.by_tier(3, 150);
    import_sweep::<Bcdd, Bdd>(ctx, &mut rng, files);
    import_sweep::<Bcdd, Bcdd>(ctx, &mut rng, files);
    import_sweep::<Bdd, Bdd>(ctx, &mut rng, files);
    import_sweep::<Bdd, Bcdd>(ctx, &mut rng, files);
    import_sweep::<Zbdd, Zbdd>(ctx, &mut rng, files);
    ctx.sample(|| "DDDMP import of 3-root files (exported from bcdd / bdd / zbdd, ascii or binary) into managers of every capacity 0..demand+2".into());
}
