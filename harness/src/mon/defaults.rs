//! API periphery (C02 / C04 / C09): the `*_edge` entry points of the shipped function types and the
//! trait DEFAULT implementations in `oxidd_core::function`.
//!
//! Every other monitor uses the handle-level methods (`f.and(&g)`, `f.ite(&g, &h)`, ...). For the
//! shipped types these are generated forwarders to the rule types; the edge-level functions
//! (`F::and_edge(manager, &e1, &e2)`, `F::ite_edge(...)`, ...) are a second set of generated
//! forwarders that nothing else calls. The trait defaults (ite via and/imp_strict/or, not_var via
//! not(var), cofactors via the diagram rules, not_edge_owned, satisfiable/valid,
//! pick_cube_uniform via cofactors + sat_count, and all handle-level forms) are overridden or
//! bypassed by the shipped types; a downstream type gets them. `Min*` below are such types:
//! derived `Function`, hand-written `BooleanFunction` with ONLY the required methods.

use oxidd::util::{AllocResult, OptBool, SatCountCache, SatCountNumber};
use oxidd::{BooleanFunction, BooleanFunctionQuant, BooleanVecSet, Edge, Function, FunctionSubst, HasLevel, HasWorkers, LevelNo, Manager, ManagerRef, Subst, VarNo};
use oxidd_core::function::{EdgeOfFunc, INodeOfFunc};

use crate::kinds::*;
use crate::mon::c02::{model_cofactors, All3};
use crate::rng::all_perms;
use crate::tt::{BOp, Quant, Tt, ALL_BOPS, ALL_QUANTS};
use crate::Ctx;

fn bop_edge<'id, F: BooleanFunction>(op: BOp, m: &F::Manager<'id>, a: &EdgeOfFunc<'id, F>, b: &EdgeOfFunc<'id, F>) -> AllocResult<EdgeOfFunc<'id, F>> {
    match op {
        BOp::And => F::and_edge(m, a, b),
        BOp::Or => F::or_edge(m, a, b),
        BOp::Nand => F::nand_edge(m, a, b),
        BOp::Nor => F::nor_edge(m, a, b),
        BOp::Xor => F::xor_edge(m, a, b),
        BOp::Equiv => F::equiv_edge(m, a, b),
        BOp::Imp => F::imp_edge(m, a, b),
        BOp::ImpStrict => F::imp_strict_edge(m, a, b),
    }
}

fn cube_ok(n: u32, c: &[OptBool], t: &Tt) -> bool {
    if c.len() != n as usize {
        return false;
    }
    (0..(1usize << n)).all(|a| {
        let inside = (0..n).all(|v| match c[v as usize] {
            OptBool::None => true,
            OptBool::True => (a >> v) & 1 == 1,
            OptBool::False => (a >> v) & 1 == 0,
        });
        !inside || t.get(a)
    })
}

/// Edge-level entry points of a Boolean function type `F` whose handles for all 256 functions
/// over 3 variables are `funcs` (index = table), `map` the reverse map.
fn edge_api<F>(ctx: &mut Ctx, k: &str, order: &[u32], funcs: &[F], map: &std::collections::HashMap<F, u8>)
where
    F: BooleanFunction + std::hash::Hash + Eq,
{
    let n = 3u32;
    let tt = |b: usize| Tt::from_u64(n, b as u64);
    let mut rng = ctx.rng(0xED6E + order[0] as u64 * 5 + order[1] as u64);
    let label = format!("{k} order {order:?}");
    let look = |ctx: &mut Ctx, r: &F, want: &Tt, what: &str, detail: &dyn Fn() -> String| {
        ctx.eval();
        let got = map.get(r).map(|&b| Tt::from_u64(n, b as u64));
        if got.as_ref() != Some(want) {
            ctx.violation(&format!("{k}:edge-api:{what}:wrong-table"), format!("{label}: {}: got {got:?} want {want}", detail()));
        } else if !want.is_const() {
            ctx.distinct((k.to_string(), what.to_string(), want.as_u64(), order[0], order[1]));
        }
    };
    let f0 = &funcs[0];
    f0.with_manager_shared(|m, _| {
        // constants and variables
        let fe = F::from_edge(m, F::f_edge(m));
        let te = F::from_edge(m, F::t_edge(m));
        look(ctx, &fe, &tt(0), "f_edge", &|| String::new());
        look(ctx, &te, &tt(0xff), "t_edge", &|| String::new());
        for v in 0..n {
            let x = F::from_edge(m, F::var_edge(m, v).unwrap());
            let nx = F::from_edge(m, F::not_var_edge(m, v).unwrap());
            look(ctx, &x, &Tt::var(n, v), "var_edge", &|| format!("var {v}"));
            look(ctx, &nx, &Tt::var(n, v).not(), "not_var_edge", &|| format!("var {v}"));
        }
        // unary
        for a in 0..256usize {
            let f = &funcs[a];
            let ta = tt(a);
            let r = F::from_edge(m, F::not_edge(m, f.as_edge(m)).unwrap());
            look(ctx, &r, &ta.not(), "not_edge", &|| format!("{ta}"));
            let r = F::from_edge(m, F::not_edge_owned(m, m.clone_edge(f.as_edge(m))).unwrap());
            look(ctx, &r, &ta.not(), "not_edge_owned", &|| format!("{ta}"));
            // eval_edge on all assignments
            for asg in 0..8usize {
                let got = F::eval_edge(m, f.as_edge(m), (0..n).map(|v| (v, (asg >> v) & 1 == 1)));
                ctx.eval();
                if got != ta.get(asg) {
                    ctx.violation(&format!("{k}:edge-api:eval_edge:wrong-value"), format!("{label}: f={ta} assignment {asg:03b}: {got}"));
                    break;
                }
            }
            // sat_count_edge
            let cnt: u64 = F::sat_count_edge(m, f.as_edge(m), n, &mut SatCountCache::<u64, std::collections::hash_map::RandomState>::default());
            ctx.eval();
            if cnt != ta.count_ones() {
                ctx.violation(&format!("{k}:edge-api:sat_count_edge:wrong"), format!("{label}: f={ta}: {cnt} want {}", ta.count_ones()));
            }
            // pick_cube_edge / pick_cube_dd_edge
            match F::pick_cube_edge(m, f.as_edge(m), |_, _, _| a % 2 == 0) {
                None => {
                    if !ta.is_zero() {
                        ctx.violation(&format!("{k}:edge-api:pick_cube_edge:none-for-satisfiable"), format!("{label}: f={ta}"));
                    }
                }
                Some(c) => {
                    ctx.eval();
                    if ta.is_zero() || !cube_ok(n, &c, &ta) {
                        ctx.violation(&format!("{k}:edge-api:pick_cube_edge:not-an-implicant"), format!("{label}: f={ta} cube {c:?}"));
                    }
                }
            }
            let d = F::from_edge(m, F::pick_cube_dd_edge(m, f.as_edge(m), |_, _, _| a % 3 == 0).unwrap());
            ctx.eval();
            match map.get(&d) {
                Some(&b) if (ta.is_zero() && b == 0) || (!ta.is_zero() && b != 0 && tt(b as usize).implies(&ta)) => {}
                other => ctx.violation(&format!("{k}:edge-api:pick_cube_dd_edge:not-an-implicant"), format!("{label}: f={ta} result {other:?}")),
            }
        }
        // binary: all pairs x 8 operators
        for a in 0..256usize {
            for b in 0..256usize {
                if rng.below(ctx.by_tier(8, 1)) != 0 {
                    continue;
                }
                for op in ALL_BOPS {
                    let e = bop_edge::<F>(op, m, funcs[a].as_edge(m), funcs[b].as_edge(m)).unwrap();
                    let r = F::from_edge(m, e);
                    look(ctx, &r, &tt(a).bop(op, &tt(b)), &format!("{}_edge", op.name()), &|| format!("{} , {}", tt(a), tt(b)));
                }
            }
        }
        // ite_edge: sampled triples with then != else
        let triples = ctx.by_tier(40_000, 2_000_000);
        for _ in 0..triples {
            let (a, b, c) = (rng.usize(256), rng.usize(256), rng.usize(256));
            let e = F::ite_edge(m, funcs[a].as_edge(m), funcs[b].as_edge(m), funcs[c].as_edge(m)).unwrap();
            let r = F::from_edge(m, e);
            look(ctx, &r, &tt(a).ite(&tt(b), &tt(c)), "ite_edge", &|| format!("ite({}, {}, {})", tt(a), tt(b), tt(c)));
        }
        // restrict_edge: all f x all 27 literal cubes
        for a in 0..256usize {
            for ls in 0..27u32 {
                let mut lits = Vec::new();
                let mut x = ls;
                for v in 0..n {
                    match x % 3 {
                        1 => lits.push((v, true)),
                        2 => lits.push((v, false)),
                        _ => {}
                    }
                    x /= 3;
                }
                let c = &funcs[Tt::cube(n, &lits).as_u64() as usize];
                let r = F::from_edge(m, F::restrict_edge(m, funcs[a].as_edge(m), c.as_edge(m)).unwrap());
                look(ctx, &r, &tt(a).restrict(&lits), "restrict_edge", &|| format!("restrict({}, {lits:?})", tt(a)));
            }
        }
        // pick_cube_dd_set_edge: result is an implicant (or false)
        for _ in 0..2000 {
            let a = rng.usize(256);
            let ls = rng.below(27) as u32;
            let mut lits = Vec::new();
            let mut x = ls;
            for v in 0..n {
                match x % 3 {
                    1 => lits.push((v, true)),
                    2 => lits.push((v, false)),
                    _ => {}
                }
                x /= 3;
            }
            let c = &funcs[Tt::cube(n, &lits).as_u64() as usize];
            let d = F::from_edge(m, F::pick_cube_dd_set_edge(m, funcs[a].as_edge(m), c.as_edge(m)).unwrap());
            ctx.eval();
            match map.get(&d) {
                Some(&b) if (a == 0 && b == 0) || (a != 0 && b != 0 && tt(b as usize).implies(&tt(a))) => {}
                other => ctx.violation(&format!("{k}:edge-api:pick_cube_dd_set_edge:not-an-implicant"), format!("{label}: f={} literals {lits:?} result {other:?}", tt(a))),
            }
        }
    });
}

/// cofactors_edge against the model (kind specific reading)
fn cofactors_api<K: BoolKind>(ctx: &mut Ctx, order: &[u32], all: &All3<K>)
where
    for<'id> MgrOf<'id, K>: HasWorkers,
    for<'x> INodeOfFunc<'x, K::F>: HasLevel,
{
    let n = 3u32;
    let k = K::NAME;
    all.mref.with_manager_shared(|m| {
        for a in 0..256usize {
            let ta = Tt::from_u64(n, a as u64);
            let mc = model_cofactors(K::SEM, &ta, order);
            let got = K::F::cofactors_edge(m, all.funcs[a].as_edge(m)).map(|(t, e)| {
                let (t, e) = (m.clone_edge(&t), m.clone_edge(&e));
                (K::F::from_edge(m, t), K::F::from_edge(m, e))
            });
            ctx.eval();
            match (mc, got) {
                (None, None) => {}
                (Some((_, t1, t0)), Some((c1, c0))) => {
                    let (g1, g0) = (all.map.get(&c1).copied(), all.map.get(&c0).copied());
                    if g1 != Some(t1.as_u64() as u8) || g0 != Some(t0.as_u64() as u8) {
                        ctx.violation(&format!("{k}:edge-api:cofactors_edge:wrong"), format!("order {order:?} f={ta}: got ({g1:?},{g0:?}) want ({t1},{t0})"));
                    }
                }
                _ => ctx.violation(&format!("{k}:edge-api:cofactors_edge:none-iff-terminal"), format!("order {order:?} f={ta}")),
            }
        }
    });
}

fn quant_edge_api<K: BoolKind>(ctx: &mut Ctx, order: &[u32], all: &All3<K>)
where
    K::F: BooleanFunctionQuant + FunctionSubst,
    for<'id> MgrOf<'id, K>: HasWorkers,
    for<'x> INodeOfFunc<'x, K::F>: HasLevel,
{
    let n = 3u32;
    let k = K::NAME;
    let tt = |b: usize| Tt::from_u64(n, b as u64);
    let mut rng = ctx.rng(0xED6E_4 + order[0] as u64 * 5 + order[1] as u64);
    let set_tt = |mask: u32| Tt::cube(n, &(0..n).filter(|v| (mask >> v) & 1 == 1).map(|v| (v, true)).collect::<Vec<_>>());
    let set_vars = |mask: u32| (0..n).filter(|v| (mask >> v) & 1 == 1).collect::<Vec<_>>();
    let label = format!("{k} order {order:?}");
    all.mref.with_manager_shared(|m| {
        let look = |ctx: &mut Ctx, r: K::F, want: Tt, what: &str, detail: String| {
            ctx.eval();
            let got = all.map.get(&r).map(|&b| tt(b as usize));
            if got.as_ref() != Some(&want) {
                ctx.violation(&format!("{k}:edge-api:{what}:wrong-table"), format!("{label}: {detail}: got {got:?} want {want}"));
            } else if !want.is_const() {
                ctx.distinct((k, what.to_string(), want.as_u64(), order[0], order[1]));
            }
        };
        for a in 0..256usize {
            for mask in 0..8u32 {
                let vs = all.funcs[set_tt(mask).as_u64() as usize].as_edge(m);
                let f = all.funcs[a].as_edge(m);
                look(ctx, K::F::from_edge(m, K::F::forall_edge(m, f, vs).unwrap()), tt(a).quant(Quant::Forall, &set_vars(mask)), "forall_edge", format!("{} {mask:03b}", tt(a)));
                look(ctx, K::F::from_edge(m, K::F::exists_edge(m, f, vs).unwrap()), tt(a).quant(Quant::Exists, &set_vars(mask)), "exists_edge", format!("{} {mask:03b}", tt(a)));
                look(ctx, K::F::from_edge(m, K::F::unique_edge(m, f, vs).unwrap()), tt(a).quant(Quant::Unique, &set_vars(mask)), "unique_edge", format!("{} {mask:03b}", tt(a)));
            }
        }
        let pairs = ctx.by_tier(600, 30_000);
        for _ in 0..pairs {
            let (a, b) = (rng.usize(256), rng.usize(256));
            for op in ALL_BOPS {
                for mask in 0..8u32 {
                    let vs = all.funcs[set_tt(mask).as_u64() as usize].as_edge(m);
                    let (f, g) = (all.funcs[a].as_edge(m), all.funcs[b].as_edge(m));
                    let inner = tt(a).bop(op, &tt(b));
                    for q in ALL_QUANTS {
                        let e = match q {
                            Quant::Forall => K::F::apply_forall_edge(m, op.to_oxidd(), f, g, vs),
                            Quant::Exists => K::F::apply_exists_edge(m, op.to_oxidd(), f, g, vs),
                            Quant::Unique => K::F::apply_unique_edge(m, op.to_oxidd(), f, g, vs),
                        };
                        look(ctx, K::F::from_edge(m, e.unwrap()), inner.quant(q, &set_vars(mask)), &format!("apply_{q:?}_edge").to_lowercase(), format!("{} {} {} over {mask:03b}", tt(a), op.name(), tt(b)));
                    }
                }
            }
        }
        // substitute_edge with a substitution over borrowed edges
        let substs = ctx.by_tier(3000, 100_000);
        for _ in 0..substs {
            let a = rng.usize(256);
            let mut vars = rng.perm(n as usize);
            vars.truncate(rng.range(1, 3));
            let reps: Vec<usize> = vars.iter().map(|_| rng.usize(256)).collect();
            let mut model: Vec<Option<Tt>> = vec![None; n as usize];
            for (v, r) in vars.iter().zip(&reps) {
                model[*v as usize] = Some(tt(*r));
            }
            let rep_funcs: Vec<K::F> = reps.iter().map(|&r| all.funcs[r].clone()).collect();
            let s = Subst::new(vars.clone(), rep_funcs);
            let e = {
                use oxidd::Substitution;
                K::F::substitute_edge(m, all.funcs[a].as_edge(m), (&s).map(|(v, r): (VarNo, &K::F)| (v, r.as_edge(m).borrowed())))
            };
            look(ctx, K::F::from_edge(m, e.unwrap()), tt(a).compose(&model), "substitute_edge", format!("{}[{vars:?} := {reps:?}]", tt(a)));
        }
    });
}

fn zset_edge_api(ctx: &mut Ctx, order: &[u32], all: &All3<Zbdd>) {
    type Z = oxidd::zbdd::ZBDDFunction;
    let n = 3u32;
    let tt = |b: usize| Tt::from_u64(n, b as u64);
    let mut rng = ctx.rng(0xED6E_9 + order[0] as u64 * 5 + order[1] as u64);
    let label = format!("zbdd order {order:?}");
    all.mref.with_manager_shared(|m| {
        let look = |ctx: &mut Ctx, r: Z, want: Tt, what: &str, detail: String| {
            ctx.eval();
            let got = all.map.get(&r).map(|&b| tt(b as usize));
            if got.as_ref() != Some(&want) {
                ctx.violation(&format!("zbdd:edge-api:{what}:wrong-family"), format!("{label}: {detail}: got {got:?} want {want}"));
            } else if !want.is_zero() {
                ctx.distinct(("zbdd", what.to_string(), want.as_u64(), order[0], order[1]));
            }
        };
        look(ctx, Z::from_edge(m, Z::empty_edge(m)), tt(0), "empty_edge", String::new());
        look(ctx, Z::from_edge(m, Z::base_edge(m)), tt(1), "base_edge", String::new());
        for v in 0..n {
            look(ctx, Z::from_edge(m, Z::singleton_edge(m, v).unwrap()), Tt::from_fn(n, |a| a == 1 << v), "singleton_edge", format!("{v}"));
        }
        for a in 0..256usize {
            let f = all.funcs[a].as_edge(m);
            let ta = tt(a);
            for v in 0..n {
                let bit = 1usize << v;
                look(ctx, Z::from_edge(m, Z::subset0_edge(m, f, v).unwrap()), Tt::from_fn(n, |x| x & bit == 0 && ta.get(x)), "subset0_edge", format!("{ta} {v}"));
                look(ctx, Z::from_edge(m, Z::subset1_edge(m, f, v).unwrap()), Tt::from_fn(n, |x| x & bit == 0 && ta.get(x | bit)), "subset1_edge", format!("{ta} {v}"));
                look(ctx, Z::from_edge(m, Z::change_edge(m, f, v).unwrap()), Tt::from_fn(n, |x| ta.get(x ^ bit)), "change_edge", format!("{ta} {v}"));
            }
        }
        let pairs = ctx.by_tier(8000, 65536);
        for i in 0..pairs {
            let (a, b) = if pairs == 65536 { (i / 256, i % 256) } else { (rng.usize(256), rng.usize(256)) };
            let (f, g) = (all.funcs[a].as_edge(m), all.funcs[b].as_edge(m));
            look(ctx, Z::from_edge(m, Z::union_edge(m, f, g).unwrap()), tt(a | b), "union_edge", format!("{} {}", tt(a), tt(b)));
            look(ctx, Z::from_edge(m, Z::intsec_edge(m, f, g).unwrap()), tt(a & b), "intsec_edge", format!("{} {}", tt(a), tt(b)));
            look(ctx, Z::from_edge(m, Z::diff_edge(m, f, g).unwrap()), tt(a & !b), "diff_edge", format!("{} {}", tt(a), tt(b)));
        }
    });
}

// ------------------------------------------------------------------------------------------
// function types with only the required methods
// ------------------------------------------------------------------------------------------

mod minimal {
    use super::*;

    macro_rules! minimal_type {
        ($name:ident, $inner:ty) => {
            #[derive(Clone, PartialEq, Eq, PartialOrd, Ord, Hash, oxidd_derive::Function)]
            pub struct $name(pub $inner);

            impl BooleanFunction for $name {
                fn f_edge<'id>(m: &Self::Manager<'id>) -> EdgeOfFunc<'id, Self> {
                    <$inner>::f_edge(m)
                }
                fn t_edge<'id>(m: &Self::Manager<'id>) -> EdgeOfFunc<'id, Self> {
                    <$inner>::t_edge(m)
                }
                fn var_edge<'id>(m: &Self::Manager<'id>, var: VarNo) -> AllocResult<EdgeOfFunc<'id, Self>> {
                    <$inner>::var_edge(m, var)
                }
                fn restrict_edge<'id>(m: &Self::Manager<'id>, root: &EdgeOfFunc<'id, Self>, vars: &EdgeOfFunc<'id, Self>) -> AllocResult<EdgeOfFunc<'id, Self>> {
                    <$inner>::restrict_edge(m, root, vars)
                }
                fn not_edge<'id>(m: &Self::Manager<'id>, e: &EdgeOfFunc<'id, Self>) -> AllocResult<EdgeOfFunc<'id, Self>> {
                    <$inner>::not_edge(m, e)
                }
                fn and_edge<'id>(m: &Self::Manager<'id>, a: &EdgeOfFunc<'id, Self>, b: &EdgeOfFunc<'id, Self>) -> AllocResult<EdgeOfFunc<'id, Self>> {
                    <$inner>::and_edge(m, a, b)
                }
                fn or_edge<'id>(m: &Self::Manager<'id>, a: &EdgeOfFunc<'id, Self>, b: &EdgeOfFunc<'id, Self>) -> AllocResult<EdgeOfFunc<'id, Self>> {
                    <$inner>::or_edge(m, a, b)
                }
                fn nand_edge<'id>(m: &Self::Manager<'id>, a: &EdgeOfFunc<'id, Self>, b: &EdgeOfFunc<'id, Self>) -> AllocResult<EdgeOfFunc<'id, Self>> {
                    <$inner>::nand_edge(m, a, b)
                }
                fn nor_edge<'id>(m: &Self::Manager<'id>, a: &EdgeOfFunc<'id, Self>, b: &EdgeOfFunc<'id, Self>) -> AllocResult<EdgeOfFunc<'id, Self>> {
                    <$inner>::nor_edge(m, a, b)
                }
                fn xor_edge<'id>(m: &Self::Manager<'id>, a: &EdgeOfFunc<'id, Self>, b: &EdgeOfFunc<'id, Self>) -> AllocResult<EdgeOfFunc<'id, Self>> {
                    <$inner>::xor_edge(m, a, b)
                }
                fn equiv_edge<'id>(m: &Self::Manager<'id>, a: &EdgeOfFunc<'id, Self>, b: &EdgeOfFunc<'id, Self>) -> AllocResult<EdgeOfFunc<'id, Self>> {
                    <$inner>::equiv_edge(m, a, b)
                }
                fn imp_edge<'id>(m: &Self::Manager<'id>, a: &EdgeOfFunc<'id, Self>, b: &EdgeOfFunc<'id, Self>) -> AllocResult<EdgeOfFunc<'id, Self>> {
                    <$inner>::imp_edge(m, a, b)
                }
                fn imp_strict_edge<'id>(m: &Self::Manager<'id>, a: &EdgeOfFunc<'id, Self>, b: &EdgeOfFunc<'id, Self>) -> AllocResult<EdgeOfFunc<'id, Self>> {
                    <$inner>::imp_strict_edge(m, a, b)
                }
                fn sat_count_edge<'id, N: SatCountNumber, S: std::hash::BuildHasher>(m: &Self::Manager<'id>, e: &EdgeOfFunc<'id, Self>, vars: LevelNo, cache: &mut SatCountCache<N, S>) -> N {
                    <$inner>::sat_count_edge(m, e, vars, cache)
                }
                fn pick_cube_edge<'id>(
                    m: &Self::Manager<'id>,
                    e: &EdgeOfFunc<'id, Self>,
                    choice: impl FnMut(&Self::Manager<'id>, &EdgeOfFunc<'id, Self>, LevelNo) -> bool,
                ) -> Option<Vec<OptBool>> {
                    <$inner>::pick_cube_edge(m, e, choice)
                }
                fn pick_cube_dd_edge<'id>(
                    m: &Self::Manager<'id>,
                    e: &EdgeOfFunc<'id, Self>,
                    choice: impl FnMut(&Self::Manager<'id>, &EdgeOfFunc<'id, Self>, LevelNo) -> bool,
                ) -> AllocResult<EdgeOfFunc<'id, Self>> {
                    <$inner>::pick_cube_dd_edge(m, e, choice)
                }
                fn pick_cube_dd_set_edge<'id>(m: &Self::Manager<'id>, e: &EdgeOfFunc<'id, Self>, lits: &EdgeOfFunc<'id, Self>) -> AllocResult<EdgeOfFunc<'id, Self>> {
                    <$inner>::pick_cube_dd_set_edge(m, e, lits)
                }
                fn eval_edge<'id>(m: &Self::Manager<'id>, e: &EdgeOfFunc<'id, Self>, args: impl IntoIterator<Item = (VarNo, bool)>) -> bool {
                    <$inner>::eval_edge(m, e, args)
                }
            }
        };
    }
    minimal_type!(MinBdd, oxidd::bdd::BDDFunction);
    minimal_type!(MinBcdd, oxidd::bcdd::BCDDFunction);
}

/// Everything a `Min*` type inherits from the trait, against the model
fn trait_defaults<K: BoolKind, W>(ctx: &mut Ctx, order: &[u32], all: &All3<K>, wrap: fn(K::F) -> W, unwrap: fn(&W) -> &K::F)
where
    W: BooleanFunction + Eq + std::hash::Hash,
    for<'id> MgrOf<'id, K>: HasWorkers,
    for<'x> INodeOfFunc<'x, K::F>: HasLevel,
{
    let n = 3u32;
    let k = K::NAME;
    let tt = |b: usize| Tt::from_u64(n, b as u64);
    let label = format!("{k} (minimal type) order {order:?}");
    let mut rng = ctx.rng(0xDEFA + order[0] as u64 * 5 + order[1] as u64);
    let w: Vec<W> = all.funcs.iter().map(|f| wrap(f.clone())).collect();
    let table = |r: &W| all.map.get(unwrap(r)).map(|&b| tt(b as usize));
    let look = |ctx: &mut Ctx, r: &W, want: &Tt, what: &str, detail: &dyn Fn() -> String| {
        ctx.eval();
        let got = table(r);
        if got.as_ref() != Some(want) {
            ctx.violation(&format!("{k}:default-impl:{what}:wrong-table"), format!("{label}: {}: got {got:?} want {want}", detail()));
        } else if !want.is_const() {
            ctx.distinct((k, "default", what.to_string(), want.as_u64(), order[0], order[1]));
        }
    };
    // constructors
    w[0].with_manager_shared(|m, _| {
        look(ctx, &W::f(m), &tt(0), "f", &|| String::new());
        look(ctx, &W::t(m), &tt(0xff), "t", &|| String::new());
        for v in 0..n {
            look(ctx, &W::var(m, v).unwrap(), &Tt::var(n, v), "var", &|| format!("{v}"));
            look(ctx, &W::not_var(m, v).unwrap(), &Tt::var(n, v).not(), "not_var", &|| format!("{v}"));
        }
    });
    for a in 0..256usize {
        let ta = tt(a);
        let f = &w[a];
        look(ctx, &f.not().unwrap(), &ta.not(), "not", &|| format!("{ta}"));
        look(ctx, &f.clone().not_owned().unwrap(), &ta.not(), "not_owned", &|| format!("{ta}"));
        ctx.check(f.satisfiable() == !ta.is_zero(), &format!("{k}:default-impl:satisfiable"), || format!("{label}: {ta}"));
        ctx.check(f.valid() == ta.is_one(), &format!("{k}:default-impl:valid"), || format!("{label}: {ta}"));
        for asg in 0..8usize {
            let got = f.eval((0..n).map(|v| (v, (asg >> v) & 1 == 1)));
            ctx.eval();
            if got != ta.get(asg) {
                ctx.violation(&format!("{k}:default-impl:eval:wrong-value"), format!("{label}: f={ta} assignment {asg:03b}"));
                break;
            }
        }
        let cnt: u64 = f.sat_count(n, &mut SatCountCache::<u64, std::collections::hash_map::RandomState>::default());
        ctx.check(cnt == ta.count_ones(), &format!("{k}:default-impl:sat_count"), || format!("{label}: {ta}: {cnt}"));
        // cofactors (default: through the diagram rules)
        let mc = model_cofactors(K::SEM, &ta, order);
        match (&mc, f.cofactors()) {
            (None, None) => {
                ctx.check(f.cofactor_true().is_none() && f.cofactor_false().is_none(), &format!("{k}:default-impl:cofactor-none"), || format!("{label}: {ta}"));
            }
            (Some((_, t1, t0)), Some((c1, c0))) => {
                look(ctx, &c1, t1, "cofactors.0", &|| format!("{ta}"));
                look(ctx, &c0, t0, "cofactors.1", &|| format!("{ta}"));
                look(ctx, &f.cofactor_true().unwrap(), t1, "cofactor_true", &|| format!("{ta}"));
                look(ctx, &f.cofactor_false().unwrap(), t0, "cofactor_false", &|| format!("{ta}"));
            }
            _ => ctx.violation(&format!("{k}:default-impl:cofactors:none-iff-terminal"), format!("{label}: {ta}")),
        }
        // cube picking
        match f.pick_cube(|_, _, _| a % 2 == 1) {
            None => ctx.check(ta.is_zero(), &format!("{k}:default-impl:pick_cube:none-for-satisfiable"), || format!("{label}: {ta}")),
            Some(c) => ctx.check(!ta.is_zero() && cube_ok(n, &c, &ta), &format!("{k}:default-impl:pick_cube:not-an-implicant"), || format!("{label}: {ta} {c:?}")),
        };
        let d = f.pick_cube_dd(|_, _, _| a % 3 == 1).unwrap();
        let dt = table(&d);
        ctx.check(
            matches!(&dt, Some(t) if (ta.is_zero() && t.is_zero()) || (!ta.is_zero() && !t.is_zero() && t.implies(&ta))),
            &format!("{k}:default-impl:pick_cube_dd:not-an-implicant"),
            || format!("{label}: {ta} -> {dt:?}"),
        );
        let mut cache: SatCountCache<oxidd::util::num::F64, std::collections::hash_map::RandomState> = Default::default();
        let mut orng = oxidd::util::Rng::new_seed(0x5151 + a as u64);
        for _ in 0..4 {
            match f.pick_cube_uniform(&mut cache, &mut orng) {
                None => ctx.check(ta.is_zero(), &format!("{k}:default-impl:pick_cube_uniform:none-for-satisfiable"), || format!("{label}: {ta}")),
                Some(c) => ctx.check(!ta.is_zero() && cube_ok(n, &c, &ta), &format!("{k}:default-impl:pick_cube_uniform:not-an-implicant"), || format!("{label}: {ta} {c:?}")),
            };
        }
    }
    // default pick_cube_uniform: distribution over the models of a few functions
    for a in [0xfeusize, 0x96, 0x17, 0x80 | 0x01] {
        let ta = tt(a);
        let models = ta.count_ones() as usize;
        let draws = 20_000usize;
        let mut cache: SatCountCache<oxidd::util::num::F64, std::collections::hash_map::RandomState> = Default::default();
        let mut orng = oxidd::util::Rng::new_seed(0xABCD_2000 + a as u64);
        let mut hits = vec![0f64; 8];
        for _ in 0..draws {
            let Some(c) = w[a].pick_cube_uniform(&mut cache, &mut orng) else { break };
            let inside: Vec<usize> = (0..8usize).filter(|&x| (0..n).all(|v| match c[v as usize] { OptBool::None => true, OptBool::True => (x >> v) & 1 == 1, OptBool::False => (x >> v) & 1 == 0 })).collect();
            for &x in &inside {
                hits[x] += 1.0 / inside.len() as f64;
            }
        }
        let exp = draws as f64 / models as f64;
        let chi2: f64 = (0..8usize).filter(|&x| ta.get(x)).map(|x| (hits[x] - exp).powi(2) / exp).sum();
        let df = (models - 1).max(1) as f64;
        let thr = df * (1.0 - 2.0 / (9.0 * df) + 6.2 * (2.0 / (9.0 * df)).sqrt()).powi(3);
        ctx.eval();
        if models > 1 && chi2 > thr {
            ctx.violation(&format!("{k}:default-impl:pick_cube_uniform:biased"), format!("{label}: f={ta} chi2 {chi2:.1} > {thr:.1}"));
        }
    }
    // binary connectives (handle level = default forwarders) and the default ite
    let pairs = ctx.by_tier(3000, 65536);
    for i in 0..pairs {
        let (a, b) = if pairs == 65536 { (i / 256, i % 256) } else { (rng.usize(256), rng.usize(256)) };
        for op in ALL_BOPS {
            let r = crate::mon::c02::apply_bop(op, &w[a], &w[b]);
            look(ctx, &r, &tt(a).bop(op, &tt(b)), op.name(), &|| format!("{} , {}", tt(a), tt(b)));
        }
    }
    let triples = ctx.by_tier(60_000, 4_000_000);
    for _ in 0..triples {
        let (a, b, c) = (rng.usize(256), rng.usize(256), rng.usize(256));
        let r = w[a].ite(&w[b], &w[c]).unwrap();
        look(ctx, &r, &tt(a).ite(&tt(b), &tt(c)), "ite", &|| format!("ite({}, {}, {})", tt(a), tt(b), tt(c)));
    }
    for a in 0..256usize {
        for ls in 0..27u32 {
            let mut lits = Vec::new();
            let mut x = ls;
            for v in 0..n {
                match x % 3 {
                    1 => lits.push((v, true)),
                    2 => lits.push((v, false)),
                    _ => {}
                }
                x /= 3;
            }
            let c = &w[Tt::cube(n, &lits).as_u64() as usize];
            look(ctx, &w[a].restrict(c).unwrap(), &tt(a).restrict(&lits), "restrict", &|| format!("restrict({}, {lits:?})", tt(a)));
            let d = w[a].pick_cube_dd_set(c).unwrap();
            let dt = table(&d);
            ctx.check(
                matches!(&dt, Some(t) if (a == 0 && t.is_zero()) || (a != 0 && !t.is_zero() && t.implies(&tt(a)))),
                &format!("{k}:default-impl:pick_cube_dd_set:not-an-implicant"),
                || format!("{label}: {} {lits:?} -> {dt:?}", tt(a)),
            );
        }
    }
}

/// C02: edge-level entry points of the shipped types + trait defaults of BooleanFunction
pub fn boolean(ctx: &mut Ctx) {
    let orders = all_perms(3);
    for (i, order) in orders.iter().enumerate() {
        if !ctx.mine(i) {
            continue;
        }
        let bdd = All3::<Bdd>::build(ctx, 3, order, 1, 1 << 16, 1 << 10);
        edge_api::<<Bdd as BoolKind>::F>(ctx, "bdd", order, &bdd.funcs, &bdd.map);
        cofactors_api::<Bdd>(ctx, order, &bdd);
        trait_defaults::<Bdd, minimal::MinBdd>(ctx, order, &bdd, minimal::MinBdd, |w| &w.0);
        let bcdd = All3::<Bcdd>::build(ctx, 3, order, 1, 1 << 16, 1 << 10);
        edge_api::<<Bcdd as BoolKind>::F>(ctx, "bcdd", order, &bcdd.funcs, &bcdd.map);
        cofactors_api::<Bcdd>(ctx, order, &bcdd);
        trait_defaults::<Bcdd, minimal::MinBcdd>(ctx, order, &bcdd, minimal::MinBcdd, |w| &w.0);
        let zbdd = All3::<Zbdd>::build(ctx, 3, order, 1, 1 << 16, 1 << 10);
        edge_api::<<Zbdd as BoolKind>::F>(ctx, "zbdd", order, &zbdd.funcs, &zbdd.map);
        cofactors_api::<Zbdd>(ctx, order, &zbdd);
        ctx.count("configs", 1);
    }
    ctx.sample(|| "edge-level entry points (f/t/var/not_var/not/not_edge_owned/8 connectives/ite/restrict/cofactors/eval/sat_count/pick_cube*_edge) of the shipped bdd, bcdd, zbdd types over all 256 three-variable functions and 6 orders; trait defaults of BooleanFunction (ite, not_var, cofactors, not_owned, satisfiable, valid, pick_cube_uniform, all handle-level forms) on function types that implement only the required methods".into());
}

/// C04: edge-level quantification / apply-quantify / substitution entry points
pub fn quant(ctx: &mut Ctx) {
    let orders = all_perms(3);
    for (i, order) in orders.iter().enumerate() {
        if !ctx.mine(i) {
            continue;
        }
        let bdd = All3::<Bdd>::build(ctx, 3, order, 1, 1 << 16, 1 << 10);
        quant_edge_api::<Bdd>(ctx, order, &bdd);
        let bcdd = All3::<Bcdd>::build(ctx, 3, order, 1, 1 << 16, 1 << 10);
        quant_edge_api::<Bcdd>(ctx, order, &bcdd);
        ctx.count("configs", 1);
    }
    ctx.sample(|| "edge-level forall/exists/unique_edge (all f x 8 sets), apply_{forall,exists,unique}_edge (sampled pairs x 8 operators x 8 sets) and substitute_edge with a borrowed-edge substitution, bdd and bcdd, 6 orders".into());
}

/// C09: edge-level set operations
pub fn sets(ctx: &mut Ctx) {
    let orders = all_perms(3);
    for (i, order) in orders.iter().enumerate() {
        if !ctx.mine(i) {
            continue;
        }
        let zbdd = All3::<Zbdd>::build(ctx, 3, order, 1, 1 << 16, 1 << 10);
        zset_edge_api(ctx, order, &zbdd);
        ctx.count("configs", 1);
    }
    ctx.sample(|| "edge-level empty/base/singleton/subset0/subset1/change/union/intsec/diff_edge of ZBDDFunction over all 256 families x 3 variables and (sampled) pairs, 6 orders".into());
}
