//! C06 — apply cache transparency: results never depend on cache capacity, warm-up or history.
//!
//! The same generated, cache-hostile history is replayed on managers that differ only in the
//! apply-cache capacity ({1, 2, 16, 65536}) and in warm-up (fresh vs. warmed with unrelated
//! work); every result is checked against the truth-table model, and the per-step digests
//! (result table, node count, equality pattern with earlier handles) must be identical across
//! all replays.

use oxidd::{HasLevel, HasWorkers};
use oxidd_core::function::INodeOfFunc;

use crate::hist::*;
use crate::kinds::*;
use crate::rng::Rng;
use crate::tt::{ALL_BOPS, ALL_QUANTS};
use crate::Ctx;

/// number of variables after executing `ops` on a manager created with n variables
fn n_now(ops: &[Op], n: u32) -> u32 {
    n + ops.iter().map(|o| if let Op::AddVars(k) | Op::AddNamedVars(k) | Op::AddNamedVarsRejected(k) | Op::AddNamedVarsPanicking(k) = o { *k } else { 0 }).sum::<u32>()
}

/// History biased towards apply-cache hazards
fn hostile_history(rng: &mut Rng, n: u32, len: usize, quant: bool, reorder: bool) -> Vec<Op> {
    let mut ops = vec![Op::Var(0), Op::Var(1), Op::NotVar(2), Op::FromTable(rng.next()), Op::FromTable(rng.next()), Op::FromTable(rng.next())];
    let live = |ops: &Vec<Op>| ops.len().min(12);
    while ops.len() < len {
        let l = live(&ops);
        let (a, b, c) = (rng.usize(l), rng.usize(l), rng.usize(l));
        match rng.below(14) {
            // the same operand tuple under different operators back-to-back
            0..=2 => {
                let mut bops = ALL_BOPS.to_vec();
                rng.shuffle(&mut bops);
                for op in bops.into_iter().take(rng.range(2, 8)) {
                    ops.push(Op::Bin(op, a, b));
                }
            }
            // operands swapped
            3 => {
                let op = *rng.pick(&ALL_BOPS);
                ops.push(Op::Bin(op, a, b));
                ops.push(Op::Bin(op, b, a));
            }
            // same operands: ite permutations and not
            4 => {
                ops.push(Op::Ite(a, b, c));
                ops.push(Op::Ite(b, a, c));
                ops.push(Op::Ite(c, b, a));
                ops.push(Op::Not(a));
            }
            // quantifiers with the same operands / same set but different quantifier and inner operator
            5 | 6 if quant => {
                let mask = (rng.next() as u32) & ((1 << n) - 1);
                for q in ALL_QUANTS {
                    ops.push(Op::Quant(q, a, mask));
                }
                let op1 = *rng.pick(&ALL_BOPS);
                let op2 = *rng.pick(&ALL_BOPS);
                for q in ALL_QUANTS {
                    ops.push(Op::ApplyQuant(q, op1, a, b, mask));
                    ops.push(Op::ApplyQuant(q, op2, a, b, mask));
                }
            }
            // different substitutions on the same function
            7 if quant => {
                let v = rng.below(n as u64) as u32;
                ops.push(Op::Subst(a, vec![(v, b)]));
                ops.push(Op::Subst(a, vec![(v, c)]));
                ops.push(Op::Subst(a, vec![((v + 1) % n, b)]));
                ops.push(Op::Subst(a, vec![(v, b)]));
            }
            // restrict with different cubes
            8 => {
                let care = (rng.next() as u32) & ((1 << n) - 1);
                ops.push(Op::Restrict(a, care, 0));
                ops.push(Op::Restrict(a, care, care));
                ops.push(Op::Restrict(b, care, care));
            }
            // repetition separated by gc / reorder / add_vars that must invalidate memoised results
            9 => {
                let op = *rng.pick(&ALL_BOPS);
                ops.push(Op::Bin(op, a, b));
                ops.push(Op::DropMany(rng.next() as u32));
                ops.push(Op::Gc);
                // rebuild operands so that freed slots are reused for different functions
                ops.push(Op::FromTable(rng.next()));
                ops.push(Op::FromTable(rng.next()));
                ops.push(Op::Var(rng.below(n as u64) as u32));
                ops.push(Op::Bin(op, a, b));
                ops.push(Op::Bin(op, 0, 1));
            }
            // repetition separated by a level-wise `LevelView::gc()` outside a prepared collection (must
            // not free anything the apply cache still refers to), with new nodes in between
            13 => {
                let op = *rng.pick(&ALL_BOPS);
                ops.push(Op::Bin(op, a, b));
                ops.push(Op::Drop(usize::MAX)); // the newest handle: the result just computed
                ops.push(Op::LevelGc);
                ops.push(Op::FromTable(rng.next()));
                ops.push(Op::FromTable(rng.next()));
                ops.push(Op::Bin(op, a, b));
            }
            // repetition separated by add_vars: a memoised result must not survive it (for ZBDDs results
            // can contain the tautology over all variables); cubes with a negative literal on the
            // new bottom variable share their nodes with cubes of the smaller domain
            11 | 12 if n_now(&ops, n) < 8 => {
                let care = (rng.next() as u32) & ((1 << n) - 1);
                ops.push(Op::Restrict(a, care, care));
                ops.push(Op::Restrict(b, care, 0));
                ops.push(Op::Not(a));
                // both ways of adding variables (separate code paths in both managers)
                ops.push(match rng.below(3) { 0 => Op::AddVars(1), 1 => Op::AddNamedVars(1), _ => Op::AddNamedVarsRejected(1) });
                let nn = n_now(&ops, n);
                let top = 1u32 << (nn - 1);
                ops.push(Op::Restrict(a, care | top, care));
                ops.push(Op::Restrict(b, care | top, 0));
                ops.push(Op::Restrict(a, care, care));
                ops.push(Op::Not(a));
            }
            // ZBDD set operations keyed by (operator, node, variable): the same operator on the same family for
            // every variable, before and after a reordering (keys must use the variable, not its level)
            9 | 10 if !quant => {
                for v in 0..n {
                    ops.push(Op::ZSet(rng.below(3) as u32, a, b, v));
                }
                if reorder {
                    ops.push(Op::SetOrder(rng.perm(n as usize), rng.bool()));
                }
                let k = rng.below(3) as u32;
                let mut vs = rng.perm(n as usize);
                vs.extend(rng.perm(n as usize));
                for v in vs {
                    ops.push(Op::ZSet(k, a, b, v));
                }
                ops.push(Op::ZSet(3 + rng.below(3) as u32, a, b, 0));
                ops.push(Op::ZSet(3 + rng.below(3) as u32, b, a, 0));
            }
            10 if reorder => {
                let op = *rng.pick(&ALL_BOPS);
                ops.push(Op::Bin(op, a, b));
                ops.push(Op::SetOrder(rng.perm(n as usize), rng.bool()));
                ops.push(Op::Bin(op, a, b));
            }
            _ => {
                ops.push(Op::Drop(a));
                ops.push(Op::FromTable(rng.next()));
            }
        }
    }
    ops
}

fn replay<K: BoolKind>(ctx: &mut Ctx, ops: &[Op], n: u32, cache: usize, warm: bool, threads: u32, label: &str) -> Vec<(u64, usize, usize)>
where
    for<'id> MgrOf<'id, K>: HasWorkers,
    for<'x> INodeOfFunc<'x, K::F>: HasLevel,
{
    let mut w = World::<K>::new(1 << 14, cache, threads, n, format!("{label} cache={cache} warm={warm}"));
    if warm {
        // unrelated work first, then drop it (no gc: the cache stays populated)
        let mut r = Rng::new(0xABCDEF);
        let p = Profile { reorder: false, add_vars: false, gc_weight: 0, ..Profile::default() };
        for _ in 0..150 {
            let op = gen_op(&mut r, w.n, w.hs.len(), K::HAS_QUANT, &p);
            w.step(ctx, &op);
        }
        w.hs.clear();
        w.trace.clear();
    }
    w.digest = Some(Vec::new());
    for op in ops {
        w.step(ctx, op);
    }
    w.audit(ctx, "end of replay");
    let d = w.digest.take().unwrap();
    w.teardown(ctx);
    d
}

fn run_kind<K: BoolKind>(ctx: &mut Ctx, rng: &mut Rng, histories: usize, len: usize)
where
    for<'id> MgrOf<'id, K>: HasWorkers,
    for<'x> INodeOfFunc<'x, K::F>: HasLevel,
{
    for h in 0..histories {
        let n = rng.range(3, 6) as u32;
        let reorder = K::SEM != Sem::ZeroSup || crate::known::ZBDD_REORDER_IN_HISTORIES;
        let ops = hostile_history(rng, n, len, K::HAS_QUANT, reorder);
        let threads = if h % 4 == 3 { 4 } else { 1 };
        let label = format!("c06 kind={} h={h} n={n} threads={threads}", K::NAME);
        println!("@@{{\"t\":\"case\",\"case\":{}}}", crate::ctx::json_str(&label));
        let reference = replay::<K>(ctx, &ops, n, 1 << 16, false, threads, &label);
        for (cache, warm) in [(1usize, false), (2, false), (16, false), (16, true), (1 << 16, true), (1, true)] {
            let d = replay::<K>(ctx, &ops, n, cache, warm, threads, &label);
            ctx.eval();
            if d != reference {
                let first = d.iter().zip(&reference).position(|(a, b)| a != b).unwrap_or(d.len().min(reference.len()));
                ctx.violation(
                    &format!("{}:cache-dependent-result", K::NAME),
                    format!("{label}: replay with cache={cache} warm={warm} differs from cache=65536 fresh at produced handle #{first}; ops: {:?}", &ops[..ops.len().min(30)]),
                );
            } else {
                ctx.distinct((K::NAME, h, cache, warm, ctx.shard));
            }
            ctx.count("replays", 1);
        }
        ctx.sample(|| format!("{label}: {} ops, e.g. {:?}", ops.len(), &ops[6..ops.len().min(12)]));
    }
}

pub fn differential(ctx: &mut Ctx) {
    let mut rng = ctx.rng(0xC06);
    let histories = ctx.by_tier(8, 300);
    let len = ctx.by_tier(200, 600);
    run_kind::<Bdd>(ctx, &mut rng, histories, len);
    run_kind::<Bcdd>(ctx, &mut rng, histories, len);
    run_kind::<Zbdd>(ctx, &mut rng, histories, len);
}

/// Substitution objects created concurrently: the substitution id is the only part of the
/// apply-cache key that identifies the substitution, so ids must be unique across threads, and
/// results of `substitute` with concurrently created substitutions must match the model.
pub fn subst_ids(ctx: &mut Ctx) {
    use oxidd::{BooleanFunction, FunctionSubst, ManagerRef, Subst, Substitution};
    use std::collections::HashSet;
    type F = oxidd::bdd::BDDFunction;
    let threads = 4usize;
    let per_thread = ctx.by_tier(20_000, 200_000);
    let rounds = ctx.by_tier(2, 8);
    let n = 4u32;
    let mref = setup::<Bdd>(1 << 16, 1 << 12, 1, n);
    let mut rng = ctx.rng(0xC06_5);
    let f_t = crate::tt::Tt::random(n, &mut rng);
    let f = build_shannon::<Bdd>(&mref, &f_t);
    let vars: Vec<F> = (0..n).map(|v| mref.with_manager_shared(|m| F::var(m, v).unwrap())).collect();
    println!("@@{{\"t\":\"case\",\"case\":\"c06 subst ids: {threads} threads x {per_thread} Subst::new per round\"}}");
    for round in 0..rounds {
        let handles: Vec<_> = (0..threads)
            .map(|t| {
                let f = f.clone();
                let f_t = f_t.clone();
                let vars = vars.clone();
                std::thread::spawn(move || {
                    let mut ids = Vec::with_capacity(per_thread);
                    let mut bad: Vec<String> = Vec::new();
                    let mut checked = 0u64;
                    for i in 0..per_thread {
                        // x0 := x_k with k depending on the thread: concurrently created substitutions differ
                        let k = 1 + (t + i) % 3;
                        let s = Subst::new(vec![0u32], vec![vars[k].clone()]);
                        ids.push((&s).id());
                        if i % 64 == 0 {
                            let r = f.substitute(&s).unwrap();
                            let mut model: Vec<Option<crate::tt::Tt>> = vec![None; 4];
                            model[0] = Some(crate::tt::Tt::var(4, k as u32));
                            let want = f_t.compose(&model);
                            checked += 1;
                            let got = interp_tt::<Bdd>(&r);
                            if got != want && bad.len() < 3 {
                                bad.push(format!("thread {t} substitution #{i} (x0 := x{k}): got {got} want {want}"));
                            }
                        }
                    }
                    (ids, bad, checked)
                })
            })
            .collect();
        let mut all: HashSet<u32> = HashSet::new();
        let mut total = 0usize;
        for h in handles {
            let (ids, bad, checked) = h.join().unwrap();
            total += ids.len();
            all.extend(ids);
            ctx.evals(checked);
            for b in bad {
                ctx.violation("bdd:substitute:concurrently-created-substitutions:wrong-table", format!("round {round}: {b}"));
            }
        }
        ctx.eval();
        if all.len() != total {
            ctx.violation(
                "substitution-ids-not-unique-across-threads",
                format!("round {round}: {total} substitutions created on {threads} threads got only {} distinct ids", all.len()),
            );
        }
        ctx.count("substitutions_created", total as u64);
        ctx.distinct(("subst-ids", round, ctx.shard));
        ctx.distinct(("subst-ids-total", total));
    }
    ctx.sample(|| format!("{threads} threads x {per_thread} Subst::new() per round, ids collected and compared; every 64th substitution applied to one function and checked against the model"));
}
